#!/bin/sh
# usage: rebuild_ext.sh <path/to/module.c>   -> builds module.cpython-312-x86_64-linux-gnu.so next to it
set -e
C="$1"; B="${C%.c}"
gcc -shared -fPIC -O1 -g0 -fno-strict-overflow -DNDEBUG -w \
  -I/root/.pyenv/versions/3.12.1/include/python3.12 -I/venv/lib/python3.12/site-packages/numpy/_core/include \
  -DNPY_NO_DEPRECATED_API=NPY_1_7_API_VERSION "$C" -o "$B.cpython-312-x86_64-linux-gnu.so"
echo "built $B.cpython-312-x86_64-linux-gnu.so"
