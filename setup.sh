#!/bin/sh
# Offline set-up of the overlay interpreter used by every check:
#   /venv (repo deps + editable biotite -> /repo/src)  +  crosshair-tool, z3-solver, cvc5
# Idempotent; every ./check call runs it too (cheap when the venv exists).
set -e
HERE="$(cd "$(dirname "$0")" && pwd)"
V="$HERE/.venv"
if [ ! -x "$V/bin/crosshair" ] || ! "$V/bin/python" -c "import crosshair, z3, biotite" >/dev/null 2>&1; then
    rm -rf "$V"
    /venv/bin/python -m venv "$V"
    SP="$("$V/bin/python" -c 'import sysconfig; print(sysconfig.get_paths()["purelib"])')"
    printf "import site; site.addsitedir('/venv/lib/python3.12/site-packages')\n" > "$SP/_verif_overlay.pth"
    PIP_NO_INDEX=1 "$V/bin/pip" install -q --no-index --find-links /opt/veriftools/wheels crosshair-tool z3-solver cvc5 jsonschema >/dev/null
fi
"$V/bin/python" -c "import crosshair, z3, biotite" 
