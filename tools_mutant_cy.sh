#!/bin/sh
# usage: tools_mutant_cy.sh <dir with patch.diff c_patch.diff demo.py> <property> <module path below src/biotite, no suffix> [check args]
# Applies a Cython mutant to /repo (pyx + generated C + rebuilt .so), runs demo and ./check, restores everything.
D="$1"; P="$2"; M="$3"; shift 3
R=/repo/src/biotite
cd /repo || exit 9
git diff --quiet || { echo "REPO DIRTY"; exit 9; }
CF="$R/$M.c"; [ -f "$CF" ] || CF="$R/$M.cpp"
SO="$(ls $R/$M.cpython-*.so)"
BK="$(mktemp -d)"; cp -p "$CF" "$SO" "$BK/"
echo "== demo on unchanged tree"; /venv/bin/python "$D/demo.py" >/dev/null 2>&1; echo "demo rc(orig)=$?"
git apply "$D/patch.diff" || echo "PYX PATCH FAILED"
patch -s "$CF" < "$D/c_patch.diff" || echo "C PATCH FAILED"
case "$CF" in
 *.cpp) g++ -std=c++11 -shared -fPIC -O1 -g0 -w -I/root/.pyenv/versions/3.12.1/include/python3.12 -I/venv/lib/python3.12/site-packages/numpy/_core/include "$CF" -o "$SO" ;;
 *) /verif/tools_rebuild_ext.sh "$CF" >/dev/null ;;
esac
echo "== demo on mutated tree"; /venv/bin/python "$D/demo.py" >/dev/null 2>&1; echo "demo rc(mut)=$?"
# optional: VERIF_TESTS="tests/a.py tests/b.py" runs these test files on the mutated tree (compare with the unchanged tree yourself)
[ -n "$VERIF_TESTS" ] && { echo "tests(mut): $(cd /repo && /venv/bin/python -m pytest -q -p no:cacheprovider -n 8 $VERIF_TESTS 2>&1 | tail -1)"; }
cd /verif && ./check "$P" "$@" 2>/dev/null | grep -E -A${VERIF_CTX:-0} "VIOLATION|SUMMARY|HARNESS|INCONCLUSIVE"
cd /repo && git checkout -- . ; cp -p "$BK"/*.c* "$(dirname $CF)/" 2>/dev/null; cp -p "$BK"/*.so "$(dirname $SO)/"; rm -rf "$BK"; rm -f "$CF.orig" "$CF.rej"
git status --short | head -3
