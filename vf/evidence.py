"""evidence/<id>.json writer (validated against the schema when jsonschema is importable)."""
import json
import os

from .common import VERIF

SCHEMA = "/root/.vp/EVIDENCE.schema.json"


def write(prop, tier, seed, records, wall_s, violations, assumptions, explanation):
    obligations = len(records)
    discharged = sum(1 for r in records if r["verdict"] == "discharged")
    inconclusive = [dict(name=r["name"], reason=r.get("reason")) for r in records if r["verdict"] == "inconclusive"]
    evaluations = 0
    nontrivial = 0
    for r in records:
        evaluations += int(r.get("paths") or 0) + int(r.get("queries") or 0)
        if r.get("engine") == "CH":
            if r.get("twin") == "reachable" or (r.get("paths") or 0) >= 2:
                nontrivial += 1
        else:
            # SX/KX: every case (one solver question with its own bounds) that reached its assertion
            nontrivial += sum(1 for c in r.get("case_results", []) if c.get("sample") is not None) or (
                1 if r.get("twin") == "reachable" else 0)
            if r.get("verdict") == "violation":
                nontrivial += 1          # a replayed counterexample is a distinct, non-trivial case
    samples = []
    for r in records[:]:
        samples.append(dict(obligation=r["name"], engine=r["engine"], cls=r.get("class"),
                            bounds=r.get("bounds"), verdict=r["verdict"],
                            twin_model=r.get("twin_model"), cex=r.get("cex")))
    cov = dict(
        obligations=obligations, discharged=discharged, inconclusive=inconclusive,
        known_findings=[k for r in records for k in r.get("known", [])],
        evaluations=max(evaluations, 0), distinct_nontrivial=nontrivial,
        rule=("evaluations = CrossHair path iterations + SMT queries measured in this run; an obligation "
              "counts as distinct/non-trivial when its reachability twin produced a model (the harness "
              "reaches its assertion under its assumptions) or it explored >= 2 feasible paths; for SX/KX "
              "obligations every case (a separate solver question with its own bounds) whose assertion was "
              "reached with a satisfiable 'ok' is counted"),
        samples=samples[:40], records=records, explanation=explanation, exhaustive=False,
        solver_s=round(sum(r.get("solver_s", 0) or 0 for r in records), 2),
    )
    ev = dict(property_id=prop, tier=tier, seed=seed, level="model_checking", coverage=cov,
              assumptions=assumptions, wall_s=round(wall_s, 2), violations=violations)
    edir = os.environ.get("VERIF_EVIDENCE_DIR") or os.path.join(VERIF, "evidence")     # override: timing sweeps on scratch copies
    os.makedirs(edir, exist_ok=True)
    path = os.path.join(edir, f"{prop}.json")
    tmp = path + ".tmp"
    with open(tmp, "w") as f:
        json.dump(ev, f, indent=1, default=str)
    os.replace(tmp, path)
    try:
        import jsonschema
        jsonschema.validate(json.load(open(path)), json.load(open(SCHEMA)))
    except (ImportError, FileNotFoundError):
        pass
    except Exception as e:       # never turn a verdict into a machinery error
        import sys
        print(f"WARNING evidence file does not validate: {str(e).splitlines()[0]}", file=sys.stderr)
    return path
