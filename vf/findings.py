"""known_findings.json: committed, never written at run time.

{
  "known": [ {"id": "...", "property": "C02", "obligations": ["name", ...] | "prefix*",
              "region": "<python expr over the obligation's inputs>",
              "witness": "<call>" | {"<obligation>": "<call>"},
              "where": "...", "what": "..."} ],
  "fixed": [ "fixed: property=C13 <commit> <what failed>" ]
}
A known entry suppresses only its region, and only while its witness still fails.
"""
import fnmatch
import json
import os

from .common import VERIF


class Findings:
    def __init__(self, path=None):
        path = path or os.path.join(VERIF, "known_findings.json")
        self.data = json.load(open(path)) if os.path.exists(path) else {"known": [], "fixed": []}

    def for_obligation(self, prop, obname):
        out = []
        for k in self.data.get("known", []):
            if k["property"] != prop:
                continue
            obs = k.get("obligations", [])
            if isinstance(obs, str):
                obs = [obs]
            if any(fnmatch.fnmatch(obname, pat) for pat in obs):
                out.append(k)
        return out

    def for_property(self, prop):
        return [k for k in self.data.get("known", []) if k["property"] == prop]
