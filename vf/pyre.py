"""Python `re` pattern (subset) -> z3 regular expression over ASCII strings.

Supported: literals, character classes (ranges, \\d \\w \\s and negations), '.', repeats (* + ? {m,n}, greedy or
lazy - the language is the same), groups, alternation, '^' at the start, '$' at the end with Python's
semantics for re.match (end of string, or just before a trailing line feed).  Anything else raises
Unsupported.  \\w, \\d, \\s are the ASCII classes (stated assumption)."""
import re
import z3

try:
    import re._parser as sre_parse
    import re._constants as C
except ImportError:        # pragma: no cover
    import sre_parse
    import sre_constants as C


class Unsupported(Exception):
    pass


def _chars(pred):
    cs = [chr(i) for i in range(128) if pred(chr(i))]
    # compress into ranges
    parts = []
    start = prev = None
    for c in cs:
        if start is None:
            start = prev = c
        elif ord(c) == ord(prev) + 1:
            prev = c
        else:
            parts.append(z3.Range(start, prev))
            start = prev = c
    if start is not None:
        parts.append(z3.Range(start, prev))
    if not parts:
        return z3.Empty(z3.ReSort(z3.StringSort()))
    return z3.Union(*parts) if len(parts) > 1 else parts[0]


CATS = {
    C.CATEGORY_DIGIT: lambda c: c.isdigit(),
    C.CATEGORY_NOT_DIGIT: lambda c: not c.isdigit(),
    C.CATEGORY_WORD: lambda c: c.isalnum() or c == "_",
    C.CATEGORY_NOT_WORD: lambda c: not (c.isalnum() or c == "_"),
    C.CATEGORY_SPACE: lambda c: c in " \t\n\r\f\v",
    C.CATEGORY_NOT_SPACE: lambda c: c not in " \t\n\r\f\v",
}


def _set(items):
    neg = False
    preds = []
    for op, arg in items:
        if op == C.NEGATE:
            neg = True
        elif op == C.LITERAL:
            preds.append(lambda c, a=arg: ord(c) == a)
        elif op == C.RANGE:
            preds.append(lambda c, a=arg: a[0] <= ord(c) <= a[1])
        elif op == C.CATEGORY:
            preds.append(CATS[arg])
        else:
            raise Unsupported(f"set item {op}")
    f = (lambda c: not any(p(c) for p in preds)) if neg else (lambda c: any(p(c) for p in preds))
    return _chars(f)


def _seq(items, last_in_pattern):
    parts = []
    n = len(items)
    for k, (op, arg) in enumerate(items):
        is_last = last_in_pattern and k == n - 1
        if op == C.LITERAL:
            if arg > 127:
                raise Unsupported("non-ASCII literal")
            parts.append(z3.Re(chr(arg)))
        elif op == C.NOT_LITERAL:
            parts.append(_chars(lambda c, a=arg: ord(c) != a))
        elif op == C.ANY:
            parts.append(_chars(lambda c: c != "\n"))
        elif op == C.IN:
            parts.append(_set(arg))
        elif op in (C.MAX_REPEAT, C.MIN_REPEAT):
            lo, hi, sub = arg
            r = _seq(list(sub), False)
            if hi == C.MAXREPEAT:
                rep = z3.Star(r) if lo == 0 else (z3.Plus(r) if lo == 1 else z3.Concat(*([r] * lo + [z3.Star(r)])))
            else:
                rep = z3.Loop(r, lo, hi)
            parts.append(rep)
        elif op == C.SUBPATTERN:
            parts.append(_seq(list(arg[-1]), False))
        elif op == C.BRANCH:
            parts.append(z3.Union(*[_seq(list(b), False) for b in arg[1]]))
        elif op == C.AT:
            if arg in (C.AT_BEGINNING, C.AT_BEGINNING_STRING) and k == 0:
                continue
            if arg == C.AT_END and is_last:
                parts.append(z3.Option(z3.Re("\n")))     # '$' also matches just before a trailing line feed
                continue
            if arg == C.AT_END_STRING and is_last:
                continue
            raise Unsupported(f"anchor {arg} in the middle of a pattern")
        else:
            raise Unsupported(f"regex op {op}")
    if not parts:
        return z3.Re("")
    return z3.Concat(*parts) if len(parts) > 1 else parts[0]


def to_z3(pattern):
    """z3 regex of the strings s with re.compile(pattern).fullmatch-like acceptance under re.match + '$' rules
    (the patterns handled here are anchored at both ends)"""
    if hasattr(pattern, "pattern"):
        pattern = pattern.pattern
    items = list(sre_parse.parse(pattern))
    if not items or items[-1] != (C.AT, C.AT_END) and items[-1] != (C.AT, C.AT_END_STRING):
        raise Unsupported("pattern is not anchored at the end")
    return _seq(items, True)


def selftest():
    """differential check against Python's re on a few hundred short strings"""
    import itertools
    pats = [r"^[a-zA-Z0-9][\w.]*$", r"^DT(\d+)$", r"^<([a-zA-Z0-9][\w.]*)>$", r"^(\d+)$", r"^\(([\w.-]*)\)$"]
    alphabet = ["a", "Z", "0", "_", ".", "-", "<", ">", "(", ")", "D", "T", "\n", " "]
    n = 0
    for p in pats:
        r = to_z3(p)
        cre = re.compile(p)
        for L in range(0, 4):
            for tup in itertools.product(alphabet, repeat=L):
                s = "".join(tup)
                if L == 3 and hash(s) % 7:
                    continue
                want = cre.match(s) is not None
                sol = z3.Solver()
                sol.add(z3.InRe(z3.StringVal(s), r))
                got = sol.check() == z3.sat
                if got != want:
                    raise AssertionError(f"pyre mismatch on pattern {p!r} string {s!r}: re says {want}, z3 regex says {got}")
                n += 1
    return n
