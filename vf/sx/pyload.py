"""Load a Python module of /repo through an AST transformation that makes it executable over
SX symbolic values.  The transformation only redirects operations that CPython hard-wires to
built-in types (`sep.join(xs)`, `x in "literal"`, `isinstance(x, str)`, `str(x)`, `int(x)`,
f-strings, `.format`); every other statement of the module is executed as written.  The
transformed module is created fresh from the current source text on every call.
"""
import ast
import builtins
import importlib.util
import sys
import types

import z3

from .core import SBool, SInt, SStr, Escape, cur, mkbool, sjoin, _b


# ----------------------------------------------------------------------------- runtime
def sx_join(sep, items):
    items = list(items)
    if isinstance(sep, SStr) or any(isinstance(i, SStr) for i in items):
        return sjoin(sep, items)
    return sep.join(items)


def sx_isinstance(x, T):
    ts = T if isinstance(T, tuple) else (T,)
    if isinstance(x, SStr):
        return any(t is str or t is object for t in ts)
    if isinstance(x, SInt):
        import numbers
        return any(t in (int, object, numbers.Integral, numbers.Number, numbers.Real) for t in ts)
    if isinstance(x, SBool):
        return any(t in (bool, int, object) for t in ts)
    return isinstance(x, T)


def int_to_sstr(x, max_digits=12):
    """decimal rendering of a symbolic int (forks on sign and digit count)"""
    if isinstance(x, int):
        return str(x)
    e = x.e
    neg = cur().decide(e < 0)
    a = -e if neg else e
    nd = None
    for k in range(1, max_digits + 1):
        if cur().decide(a < 10 ** k):
            nd = k
            break
    if nd is None:
        raise Escape("int too large for symbolic rendering")
    # fresh digit variables tied to the value by a linear constraint (no div/mod terms)
    ex = cur()
    ds = [ex.fresh("dig") for _ in range(nd)]
    for j, d in enumerate(ds):
        ex.add(d >= (1 if (j == 0 and nd > 1) else 0), d <= 9)
    ex.add(a == z3.Sum([d * 10 ** (nd - 1 - j) for j, d in enumerate(ds)]))
    return SStr.mk(([45] if neg else []) + [d + 48 for d in ds])


def sx_str(*a, **k):
    if len(a) == 1 and not k:
        x = a[0]
        if hasattr(x, "as_int_term"):        # C integer of the KX runtime
            v = x.as_int_term()
            x = v if isinstance(v, int) else SInt.mk(v)
            if isinstance(x, int):
                return str(x)
        if isinstance(x, SStr):
            return x
        if isinstance(x, SInt):
            return int_to_sstr(x)
        if isinstance(x, SBool):
            return "True" if x else "False"
    return str(*a, **k)


def sx_int(*a, **k):
    if len(a) == 1 and not k:
        x = a[0]
        if isinstance(x, SInt):
            return x
        if hasattr(x, "as_int_term"):       # C integer of the KX runtime: int() is the identity on its value
            return x if not isinstance(x.e, int) else x.e
        if isinstance(x, SStr):
            s = x.strip()
            if isinstance(s, str):
                return int(s)
            cs = s.cs
            sign = 1
            if cs and _b(cs[0] == 45 if not isinstance(cs[0], int) else cs[0] == 45):
                sign, cs = -1, cs[1:]
            elif cs and _b(cs[0] == 43 if not isinstance(cs[0], int) else cs[0] == 43):
                cs = cs[1:]
            if not cs:
                raise ValueError("invalid literal for int()")
            val = z3.IntVal(0)
            for c in cs:
                isd = (48 <= c <= 57) if isinstance(c, int) else z3.And(c >= 48, c <= 57)
                if not _b(isd):
                    # '_' separators etc. are not modelled: treated as invalid like CPython does for most
                    raise ValueError("invalid literal for int()")
                val = val * 10 + (c - 48)
            return SInt.mk(sign * val)
    return int(*a, **k)


def sx_in(a, b):
    if isinstance(a, SStr):
        if isinstance(b, str):
            return SStr(SStr.codes(b)).__contains__(a)
        if isinstance(b, SStr):
            return b.__contains__(a)
        if isinstance(b, (list, tuple, set, frozenset)):
            for x in b:
                if isinstance(x, (str, SStr)) and bool(a == x):
                    return True
            return False
        if isinstance(b, dict):
            for x in b:
                if isinstance(x, (str, SStr)) and bool(a == x):
                    return True
            return False
    if isinstance(a, SInt) and isinstance(b, (list, tuple, range, set, frozenset)):
        for x in b:
            if bool(a == x):
                return True
        return False
    return a in b


def _fmt_one(v, conv, spec):
    """format one value with a (concrete) format spec; supports str/int alignment and width"""
    if hasattr(v, "as_int_term"):
        try:
            t = v.as_int_term()
            v = t if isinstance(t, int) else SInt.mk(t)
        except Escape:
            return "<sym>"
    if conv == ord("r"):
        if isinstance(v, (SStr, SInt)):
            raise Escape("repr of symbolic value in f-string")
        v = repr(v)
    elif conv == ord("s"):
        v = sx_str(v)
    if isinstance(v, SInt):
        if spec and spec[-1] == "d":
            spec = spec[:-1]
        s = int_to_sstr(v)
        return _pad(s, spec, default_align=">")
    if isinstance(v, SStr):
        if spec and spec[-1] == "s":
            spec = spec[:-1]
        return _pad(v, spec, default_align="<")
    return format(v, spec)


def _pad(s, spec, default_align):
    if not spec:
        return s
    fill, align = " ", default_align
    if len(spec) >= 2 and spec[1] in "<>^":
        fill, align, spec = spec[0], spec[1], spec[2:]
    elif spec[0] in "<>^":
        align, spec = spec[0], spec[1:]
    if spec.startswith("0") and len(spec) > 1:
        fill, align, spec = "0", ">", spec[1:]
    if not spec.isdigit():
        raise Escape(f"unsupported format spec for symbolic value: {spec!r}")
    w = int(spec)
    n = len(s)
    if n >= w:
        return s
    if align == "<":
        return s + fill * (w - n)
    if align == ">":
        return fill * (w - n) + s
    left = (w - n) // 2
    return fill * left + s + fill * (w - n - left)


def sx_fstr(*parts):
    out = []
    for p in parts:
        if isinstance(p, tuple):
            v, conv, spec = p
            try:
                out.append(_fmt_one(v, conv, spec or ""))
            except (Escape, TypeError, ValueError):
                out.append("<sym>")         # only ever reached while building (error) messages
        else:
            out.append(p)
    res = []
    for o in out:
        if isinstance(o, (str, SStr)):
            res.append(o)
        else:
            try:
                res.append(str(o))
            except Escape:
                res.append("<sym>")
    return sjoin("", res)


def sx_format(fmt, *args, **kw):
    if not isinstance(fmt, str) or not any(isinstance(a, (SStr, SInt)) for a in list(args) + list(kw.values())):
        return fmt.format(*args, **kw)
    import string
    out = []
    auto = 0
    for lit, field, spec, conv in string.Formatter().parse(fmt):
        out.append(lit)
        if field is None:
            continue
        if field == "":
            v = args[auto]
            auto += 1
        elif field.isdigit():
            v = args[int(field)]
        else:
            v = kw[field]
        out.append(_fmt_one(v, ord(conv) if conv else -1, spec or ""))
    return sjoin("", out)


def sx_len(x):
    return len(x)


class SDict:
    """insertion-ordered mapping whose keys may be symbolic strings (lookups fork on key equality)"""

    def __init__(self, items=()):
        self._items = []
        for k, v in (items.items() if hasattr(items, "items") else items):
            self[k] = v

    def _find(self, k):
        for i, (ek, _) in enumerate(self._items):
            if type(ek) is type(k) or isinstance(ek, (str, SStr)) and isinstance(k, (str, SStr)):
                if bool(ek == k):
                    return i
        return -1

    def __setitem__(self, k, v):
        i = self._find(k)
        if i >= 0:
            self._items[i] = (self._items[i][0], v)
        else:
            self._items.append((k, v))

    def __getitem__(self, k):
        i = self._find(k)
        if i < 0:
            raise KeyError(k)
        return self._items[i][1]

    def __delitem__(self, k):
        i = self._find(k)
        if i < 0:
            raise KeyError(k)
        del self._items[i]

    def __contains__(self, k):
        return self._find(k) >= 0

    def get(self, k, default=None):
        i = self._find(k)
        return default if i < 0 else self._items[i][1]

    def __len__(self):
        return len(self._items)

    def __iter__(self):
        return iter([k for k, _ in self._items])

    def keys(self):
        return [k for k, _ in self._items]

    def values(self):
        return [v for _, v in self._items]

    def items(self):
        return list(self._items)

    def __repr__(self):
        return "SDict(%r)" % (self._items,)


RUNTIME = dict(__sx_dict__=SDict, __sx_join__=sx_join, __sx_isinstance__=sx_isinstance, __sx_str__=sx_str, __sx_int__=sx_int,
               __sx_in__=sx_in, __sx_fstr__=sx_fstr, __sx_format__=sx_format)


# --------------------------------------------------------------------------- transform
class Rewrite(ast.NodeTransformer):
    sdict = False

    def visit_Dict(self, node):
        self.generic_visit(node)
        if self.sdict and not node.keys:
            return ast.copy_location(ast.Call(ast.Name("__sx_dict__", ast.Load()), [], []), node)
        return node

    def visit_Call(self, node):
        self.generic_visit(node)
        f = node.func
        if isinstance(f, ast.Attribute) and f.attr == "join" and len(node.args) == 1 and not node.keywords:
            return ast.copy_location(ast.Call(ast.Name("__sx_join__", ast.Load()), [f.value, node.args[0]], []), node)
        if isinstance(f, ast.Attribute) and f.attr == "format" and isinstance(f.value, ast.Constant) \
                and isinstance(f.value.value, str):
            return ast.copy_location(ast.Call(ast.Name("__sx_format__", ast.Load()), [f.value] + node.args, node.keywords), node)
        if isinstance(f, ast.Name) and f.id in ("isinstance", "str", "int"):
            return ast.copy_location(ast.Call(ast.Name(f"__sx_{f.id}__", ast.Load()), node.args, node.keywords), node)
        return node

    def visit_Compare(self, node):
        self.generic_visit(node)
        if len(node.ops) == 1 and isinstance(node.ops[0], (ast.In, ast.NotIn)):
            call = ast.Call(ast.Name("__sx_in__", ast.Load()), [node.left, node.comparators[0]], [])
            if isinstance(node.ops[0], ast.NotIn):
                call = ast.UnaryOp(ast.Not(), call)
            return ast.copy_location(call, node)
        return node

    def visit_JoinedStr(self, node):
        parts = []
        for v in node.values:
            if isinstance(v, ast.Constant):
                parts.append(v)
                continue
            spec = v.format_spec
            if spec is None:
                spec_e = ast.Constant("")
            elif all(isinstance(x, ast.Constant) for x in spec.values):
                spec_e = ast.Constant("".join(x.value for x in spec.values))
            else:
                spec_e = self.visit_JoinedStr(spec)
            parts.append(ast.Tuple([self.visit(v.value), ast.Constant(v.conversion), spec_e], ast.Load()))
        return ast.copy_location(ast.Call(ast.Name("__sx_fstr__", ast.Load()), parts, []), node)


def source_path(modname):
    spec = importlib.util.find_spec(modname)
    if spec is None or not spec.origin or not spec.origin.endswith(".py"):
        raise ImportError(f"no Python source for {modname}")
    return spec.origin


def load(modname, inject=None, alias=None, sdict=False):
    """Return a fresh module object holding the transformed code of `modname`."""
    path = source_path(modname)
    src = open(path).read()
    rw = Rewrite()
    rw.sdict = sdict
    tree = rw.visit(ast.parse(src, path))
    # names given in `inject` win over what the module imports: re-apply them after every import
    body = []
    for st in tree.body:
        body.append(st)
        if isinstance(st, (ast.Import, ast.ImportFrom)):
            body.append(ast.Expr(ast.Call(ast.Name("__sx_reinject__", ast.Load()), [], [])))
    tree.body = body
    ast.fix_missing_locations(tree)
    code = compile(tree, path, "exec")
    mod = types.ModuleType(alias or (modname + "__sx"))
    mod.__file__ = path
    mod.__package__ = modname.rpartition(".")[0]
    mod.__dict__.update(RUNTIME)
    inj = dict(inject or {})
    mod.__dict__["__sx_reinject__"] = lambda: mod.__dict__.update(inj)
    if inject:
        mod.__dict__.update(inject)
    exec(code, mod.__dict__)
    if inject:
        mod.__dict__.update(inject)      # override definitions of the module (stubs)
    mod.__sx_source__ = src
    return mod


def transform_function_source(src):
    tree = Rewrite().visit(ast.parse(src))
    ast.fix_missing_locations(tree)
    return tree


import io as _io


class SFile(_io.TextIOBase):
    """text file object that accepts and returns symbolic strings"""

    def __init__(self, text=""):
        self.parts = [text] if len(text) else []

    def write(self, s):
        self.parts.append(s)
        return len(s)

    def getvalue(self):
        return sjoin("", self.parts)

    def read(self, *a):
        return self.getvalue()

    def __iter__(self):
        v = self.getvalue()
        return iter(v.splitlines(True))

    def readable(self):
        return True

    def writable(self):
        return True


# ------------------------------------------------------------ models of urllib.parse.quote / unquote
_ALWAYS_SAFE = frozenset(b"ABCDEFGHIJKLMNOPQRSTUVWXYZabcdefghijklmnopqrstuvwxyz0123456789_.-~")


def _hexdigit(d):
    if isinstance(d, int):
        return ord("0123456789ABCDEF"[d])
    return z3.If(d < 10, d + 48, d + 55)


def sx_quote(s, safe="/"):
    """urllib.parse.quote for ASCII input (symbolic characters fork on 'is safe')"""
    if isinstance(s, str):
        from urllib.parse import quote
        return quote(s, safe=safe)
    safeset = sorted(_ALWAYS_SAFE | {ord(c) for c in safe if ord(c) < 128})
    out = []
    for c in s.cs:
        if isinstance(c, int):
            if c in safeset:
                out.append(c)
            else:
                out += [37, _hexdigit(c // 16), _hexdigit(c % 16)]
        elif _b(z3.Or(*[c == k for k in safeset])):
            out.append(c)
        else:
            ex = cur()
            hi, lo = ex.fresh("hi"), ex.fresh("lo")
            ex.add(hi >= 0, hi <= 7, lo >= 0, lo <= 15, c == hi * 16 + lo)
            out += [37, _hexdigit(hi), _hexdigit(lo)]
    return SStr.mk(out)


def _hexval(c):
    """(is_hex condition, value term) of a character"""
    if isinstance(c, int):
        ch = chr(c)
        if ch in "0123456789abcdefABCDEF":
            return True, int(ch, 16)
        return False, 0
    isd = z3.And(c >= 48, c <= 57)
    isu = z3.And(c >= 65, c <= 70)
    isl = z3.And(c >= 97, c <= 102)
    return z3.Or(isd, isu, isl), z3.If(isd, c - 48, z3.If(isu, c - 55, c - 87))


def sx_unquote(s):
    """urllib.parse.unquote for ASCII results ('%XX' with XX >= 0x80 is outside the model)"""
    if isinstance(s, str):
        from urllib.parse import unquote
        return unquote(s)
    cs = s.cs
    out = []
    i = 0
    while i < len(cs):
        c = cs[i]
        is_pct = (c == 37) if isinstance(c, int) else _b(c == 37)
        if is_pct and i + 2 < len(cs):
            h1, v1 = _hexval(cs[i + 1])
            h2, v2 = _hexval(cs[i + 2])
            both = z3.And(tobool_(h1), tobool_(h2))
            if _b(z3.simplify(both)) if not (h1 is True and h2 is True) else True:
                val = v1 * 16 + v2
                if isinstance(val, int):
                    if val >= 128:
                        raise Escape("non-ASCII percent escape")
                    out.append(val)
                else:
                    if _b(val >= 128):
                        raise Escape("non-ASCII percent escape")
                    out.append(z3.simplify(val))
                i += 3
                continue
        out.append(c)
        i += 1
    return SStr.mk([o.as_long() if (not isinstance(o, int) and z3.is_int_value(o)) else o for o in out])


def tobool_(x):
    return z3.BoolVal(x) if isinstance(x, bool) else x
