"""Load a Python module of /repo through an AST transformation that makes it executable over
SX symbolic values.  The transformation only redirects operations that CPython hard-wires to
built-in types (`sep.join(xs)`, `x in "literal"`, `isinstance(x, str)`, `str(x)`, `int(x)`,
f-strings, `.format`); every other statement of the module is executed as written.  The
transformed module is created fresh from the current source text on every call.
"""
import ast
import builtins
import importlib.util
import sys
import types

import z3

from .core import SBool, SInt, SStr, Escape, cur, mkbool, sjoin, _b


# ----------------------------------------------------------------------------- runtime
def sx_join(sep, items):
    items = list(items)
    if isinstance(sep, SStr) or any(isinstance(i, SStr) for i in items):
        return sjoin(sep, items)
    return sep.join(items)


def sx_isinstance(x, T):
    ts = T if isinstance(T, tuple) else (T,)
    if isinstance(x, SStr):
        return any(t is str or t is object for t in ts)
    if isinstance(x, SInt):
        import numbers
        return any(t in (int, object, numbers.Integral, numbers.Number, numbers.Real) for t in ts)
    if isinstance(x, SBool):
        return any(t in (bool, int, object) for t in ts)
    return isinstance(x, T)


def int_to_sstr(x, max_digits=12):
    """decimal rendering of a symbolic int (forks on sign and digit count)"""
    if isinstance(x, int):
        return str(x)
    e = x.e
    neg = cur().decide(e < 0)
    a = -e if neg else e
    nd = None
    for k in range(1, max_digits + 1):
        if cur().decide(a < 10 ** k):
            nd = k
            break
    if nd is None:
        raise Escape("int too large for symbolic rendering")
    digs = [z3.simplify(((a / (10 ** (nd - 1 - j))) % 10) + 48) for j in range(nd)]
    digs = [d.as_long() if z3.is_int_value(d) else d for d in digs]
    return SStr.mk(([45] if neg else []) + digs)


def sx_str(*a, **k):
    if len(a) == 1 and not k:
        x = a[0]
        if isinstance(x, SStr):
            return x
        if isinstance(x, SInt):
            return int_to_sstr(x)
        if isinstance(x, SBool):
            return "True" if x else "False"
    return str(*a, **k)


def sx_int(*a, **k):
    if len(a) == 1 and not k:
        x = a[0]
        if isinstance(x, SInt):
            return x
        if isinstance(x, SStr):
            s = x.strip()
            if isinstance(s, str):
                return int(s)
            cs = s.cs
            sign = 1
            if cs and _b(cs[0] == 45 if not isinstance(cs[0], int) else cs[0] == 45):
                sign, cs = -1, cs[1:]
            elif cs and _b(cs[0] == 43 if not isinstance(cs[0], int) else cs[0] == 43):
                cs = cs[1:]
            if not cs:
                raise ValueError("invalid literal for int()")
            val = z3.IntVal(0)
            for c in cs:
                isd = (48 <= c <= 57) if isinstance(c, int) else z3.And(c >= 48, c <= 57)
                if not _b(isd):
                    # '_' separators etc. are not modelled: treated as invalid like CPython does for most
                    raise ValueError("invalid literal for int()")
                val = val * 10 + (c - 48)
            return SInt.mk(sign * val)
    return int(*a, **k)


def sx_in(a, b):
    if isinstance(a, SStr):
        if isinstance(b, str):
            return SStr(SStr.codes(b)).__contains__(a)
        if isinstance(b, SStr):
            return b.__contains__(a)
        if isinstance(b, (list, tuple, set, frozenset)):
            for x in b:
                if isinstance(x, (str, SStr)) and bool(a == x):
                    return True
            return False
        if isinstance(b, dict):
            for x in b:
                if isinstance(x, (str, SStr)) and bool(a == x):
                    return True
            return False
    if isinstance(a, SInt) and isinstance(b, (list, tuple, range, set, frozenset)):
        for x in b:
            if bool(a == x):
                return True
        return False
    return a in b


def _fmt_one(v, conv, spec):
    """format one value with a (concrete) format spec; supports str/int alignment and width"""
    if conv == ord("r"):
        if isinstance(v, (SStr, SInt)):
            raise Escape("repr of symbolic value in f-string")
        v = repr(v)
    elif conv == ord("s"):
        v = sx_str(v)
    if isinstance(v, SInt):
        if spec and spec[-1] == "d":
            spec = spec[:-1]
        s = int_to_sstr(v)
        return _pad(s, spec, default_align=">")
    if isinstance(v, SStr):
        if spec and spec[-1] == "s":
            spec = spec[:-1]
        return _pad(v, spec, default_align="<")
    return format(v, spec)


def _pad(s, spec, default_align):
    if not spec:
        return s
    fill, align = " ", default_align
    if len(spec) >= 2 and spec[1] in "<>^":
        fill, align, spec = spec[0], spec[1], spec[2:]
    elif spec[0] in "<>^":
        align, spec = spec[0], spec[1:]
    if spec.startswith("0") and len(spec) > 1:
        fill, align, spec = "0", ">", spec[1:]
    if not spec.isdigit():
        raise Escape(f"unsupported format spec for symbolic value: {spec!r}")
    w = int(spec)
    n = len(s)
    if n >= w:
        return s
    if align == "<":
        return s + fill * (w - n)
    if align == ">":
        return fill * (w - n) + s
    left = (w - n) // 2
    return fill * left + s + fill * (w - n - left)


def sx_fstr(*parts):
    out = []
    for p in parts:
        if isinstance(p, tuple):
            v, conv, spec = p
            out.append(_fmt_one(v, conv, spec or ""))
        else:
            out.append(p)
    return sjoin("", out)


def sx_format(fmt, *args, **kw):
    if not isinstance(fmt, str) or not any(isinstance(a, (SStr, SInt)) for a in list(args) + list(kw.values())):
        return fmt.format(*args, **kw)
    import string
    out = []
    auto = 0
    for lit, field, spec, conv in string.Formatter().parse(fmt):
        out.append(lit)
        if field is None:
            continue
        if field == "":
            v = args[auto]
            auto += 1
        elif field.isdigit():
            v = args[int(field)]
        else:
            v = kw[field]
        out.append(_fmt_one(v, ord(conv) if conv else -1, spec or ""))
    return sjoin("", out)


def sx_len(x):
    return len(x)


RUNTIME = dict(__sx_join__=sx_join, __sx_isinstance__=sx_isinstance, __sx_str__=sx_str, __sx_int__=sx_int,
               __sx_in__=sx_in, __sx_fstr__=sx_fstr, __sx_format__=sx_format)


# --------------------------------------------------------------------------- transform
class Rewrite(ast.NodeTransformer):
    def visit_Call(self, node):
        self.generic_visit(node)
        f = node.func
        if isinstance(f, ast.Attribute) and f.attr == "join" and len(node.args) == 1 and not node.keywords:
            return ast.copy_location(ast.Call(ast.Name("__sx_join__", ast.Load()), [f.value, node.args[0]], []), node)
        if isinstance(f, ast.Attribute) and f.attr == "format" and isinstance(f.value, ast.Constant) \
                and isinstance(f.value.value, str):
            return ast.copy_location(ast.Call(ast.Name("__sx_format__", ast.Load()), [f.value] + node.args, node.keywords), node)
        if isinstance(f, ast.Name) and f.id in ("isinstance", "str", "int"):
            return ast.copy_location(ast.Call(ast.Name(f"__sx_{f.id}__", ast.Load()), node.args, node.keywords), node)
        return node

    def visit_Compare(self, node):
        self.generic_visit(node)
        if len(node.ops) == 1 and isinstance(node.ops[0], (ast.In, ast.NotIn)):
            call = ast.Call(ast.Name("__sx_in__", ast.Load()), [node.left, node.comparators[0]], [])
            if isinstance(node.ops[0], ast.NotIn):
                call = ast.UnaryOp(ast.Not(), call)
            return ast.copy_location(call, node)
        return node

    def visit_JoinedStr(self, node):
        parts = []
        for v in node.values:
            if isinstance(v, ast.Constant):
                parts.append(v)
                continue
            spec = v.format_spec
            if spec is None:
                spec_e = ast.Constant("")
            elif all(isinstance(x, ast.Constant) for x in spec.values):
                spec_e = ast.Constant("".join(x.value for x in spec.values))
            else:
                spec_e = self.visit_JoinedStr(spec)
            parts.append(ast.Tuple([self.visit(v.value), ast.Constant(v.conversion), spec_e], ast.Load()))
        return ast.copy_location(ast.Call(ast.Name("__sx_fstr__", ast.Load()), parts, []), node)


def source_path(modname):
    spec = importlib.util.find_spec(modname)
    if spec is None or not spec.origin or not spec.origin.endswith(".py"):
        raise ImportError(f"no Python source for {modname}")
    return spec.origin


def load(modname, inject=None, alias=None):
    """Return a fresh module object holding the transformed code of `modname`."""
    path = source_path(modname)
    src = open(path).read()
    tree = Rewrite().visit(ast.parse(src, path))
    ast.fix_missing_locations(tree)
    code = compile(tree, path, "exec")
    mod = types.ModuleType(alias or (modname + "__sx"))
    mod.__file__ = path
    mod.__package__ = modname.rpartition(".")[0]
    mod.__dict__.update(RUNTIME)
    if inject:
        mod.__dict__.update(inject)
    exec(code, mod.__dict__)
    if inject:
        mod.__dict__.update(inject)      # override definitions of the module (stubs)
    mod.__sx_source__ = src
    return mod


def transform_function_source(src):
    tree = Rewrite().visit(ast.parse(src))
    ast.fix_missing_locations(tree)
    return tree
