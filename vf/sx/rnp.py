"""A small numpy stand-in over exact rationals (vf/kx/rat.py CRat) with symbolic numerators: just the array operations
that biotite's geometry / box / superimpose code uses (creation, broadcasting arithmetic, comparisons, boolean masks
with symbolic entries, newaxis / slice / ellipsis indexing, sum over the last axis, matmul with 3x3 matrices, argmin
over an axis followed by the `a[arange(n), argmin]` selection, exact inverse of a concrete matrix).

It is REAL-number semantics: float32/float64 rounding does not exist here.  Every use is listed as a stub; every
counterexample found through it is replayed against real numpy before it counts."""
import itertools
from fractions import Fraction

import z3

from ..kx.rat import CRat
from .core import SBool, mkbool, Escape

newaxis = None


def _num(x):
    if isinstance(x, (CRat, SBool)):
        return x
    if isinstance(x, bool):
        return x
    if isinstance(x, (int, Fraction)):
        return CRat(x)
    if isinstance(x, float):
        return CRat(Fraction(x))
    if isinstance(x, RArr) and x.shape == ():
        return x.data
    raise Escape(f"rnp: element of type {type(x).__name__}")


def _shape(d):
    s = []
    while isinstance(d, list):
        s.append(len(d))
        d = d[0] if d else None
    return tuple(s)


def _map(f, d):
    return [_map(f, x) for x in d] if isinstance(d, list) else f(d)


def _bcast_shapes(a, b):
    out = []
    for x, y in itertools.zip_longest(reversed(a), reversed(b), fillvalue=1):
        if x != y and x != 1 and y != 1:
            raise ValueError(f"operands could not be broadcast together with shapes {a} {b}")
        out.append(max(x, y))
    return tuple(reversed(out))


def _get(d, shape, idx):
    """element of nested list d (of `shape`) at the broadcast index idx (aligned to the right)"""
    off = len(idx) - len(shape)
    for k, n in enumerate(shape):
        d = d[0 if n == 1 else idx[off + k]]
    return d


def _build(shape, f, prefix=()):
    if not shape:
        return f(prefix)
    return [_build(shape[1:], f, prefix + (i,)) for i in range(shape[0])]


FORK = False      # True: a symbolic selection forks the path instead of building an if-then-else term


def _ite(c, a, b):
    if isinstance(c, bool):
        return a if c else b
    if FORK:
        return a if bool(c) else b
    if isinstance(a, CRat) or isinstance(b, CRat):
        a, b = _num(a), _num(b)
        return a.merged(c.e, b)
    if isinstance(a, (bool, SBool)) and isinstance(b, (bool, SBool)):
        ae = a.e if isinstance(a, SBool) else z3.BoolVal(a)
        be = b.e if isinstance(b, SBool) else z3.BoolVal(b)
        return mkbool(z3.If(c.e, ae, be))
    raise Escape("rnp: ite over unsupported values")


class _Pending:
    """a[mask] with a symbolic mask: the selection is kept lazy until it is stored back"""

    def __init__(self, arr, mask, f=None):
        self.arr, self.mask, self.f = arr, mask, f or (lambda x: x)

    def _then(self, g):
        f = self.f
        return _Pending(self.arr, self.mask, lambda x: g(f(x)))

    def __isub__(self, o): return self._then(lambda x: x - _num(o))
    def __iadd__(self, o): return self._then(lambda x: x + _num(o))
    def __sub__(self, o): return self._then(lambda x: x - _num(o))
    def __add__(self, o): return self._then(lambda x: x + _num(o))
    def __mul__(self, o): return self._then(lambda x: x * _num(o))
    def __neg__(self): return self._then(lambda x: -x)


class SelIdx:
    """result of argmin along an axis: per candidate the condition 'this is the leftmost minimum'"""

    def __init__(self, conds):
        self.conds = conds


class RArr:
    def __init__(self, data, dtype="float64"):
        self.data = data
        self.dtype = dtype

    # ------------------------------------------------------------------ basics
    @property
    def shape(self):
        return _shape(self.data)

    @property
    def ndim(self):
        return len(self.shape)

    def __len__(self):
        return len(self.data)

    def astype(self, dtype, copy=True):
        return RArr(_map(lambda x: x, self.data) if copy else self.data, getattr(dtype, "name", str(dtype)))

    def copy(self):
        return RArr(_map(lambda x: x, self.data), self.dtype)

    def tolist(self):
        return self.data

    @property
    def T(self):
        if self.ndim != 2:
            raise Escape("rnp: transpose of a non-matrix")
        r, c = self.shape
        return RArr([[self.data[i][j] for i in range(r)] for j in range(c)], self.dtype)

    def __iter__(self):
        for x in self.data:
            yield RArr(x, self.dtype) if isinstance(x, list) else x

    # ------------------------------------------------------------------ arithmetic
    def _bin(self, o, f, dtype=None):
        o = o if isinstance(o, RArr) else RArr(_num(o) if not isinstance(o, list) else _map(_num, o))
        sa, sb = self.shape, o.shape
        shp = _bcast_shapes(sa, sb)
        return RArr(_build(shp, lambda idx: f(_get(self.data, sa, idx), _get(o.data, sb, idx))), dtype or self.dtype)

    def __add__(self, o): return self._bin(o, lambda a, b: a + b)
    def __radd__(self, o): return self._bin(o, lambda a, b: b + a)
    def __sub__(self, o): return self._bin(o, lambda a, b: a - b)
    def __rsub__(self, o): return self._bin(o, lambda a, b: b - a)
    def __mul__(self, o): return self._bin(o, lambda a, b: a * b)
    def __rmul__(self, o): return self._bin(o, lambda a, b: b * a)
    def __truediv__(self, o): return self._bin(o, lambda a, b: a / b)
    def __neg__(self): return RArr(_map(lambda a: -a, self.data), self.dtype)

    def __mod__(self, o):
        if o != 1:
            raise Escape("rnp: modulo other than 1")
        return RArr(_map(lambda a: a - a.floor(), self.data), self.dtype)

    def __gt__(self, o): return self._bin(o, lambda a, b: a > b, "bool")
    def __ge__(self, o): return self._bin(o, lambda a, b: a >= b, "bool")
    def __lt__(self, o): return self._bin(o, lambda a, b: a < b, "bool")
    def __le__(self, o): return self._bin(o, lambda a, b: a <= b, "bool")

    def __and__(self, o):
        def f(a, b):
            if isinstance(a, bool) and isinstance(b, bool):
                return a and b
            ae = a.e if isinstance(a, SBool) else z3.BoolVal(a)
            be = b.e if isinstance(b, SBool) else z3.BoolVal(b)
            return mkbool(z3.And(ae, be))
        return self._bin(o, f, "bool")

    def __bool__(self):
        if self.shape != ():
            raise ValueError("The truth value of an array with more than one element is ambiguous")
        return bool(self.data)

    def sum(self, axis=None):
        if axis not in (-1, self.ndim - 1):
            raise Escape("rnp: sum over an axis other than the last")

        def rec(d, depth):
            if depth == self.ndim - 1:
                s = d[0]
                for x in d[1:]:
                    s = s + x
                return s
            return [rec(x, depth + 1) for x in d]
        return RArr(rec(self.data, 0), self.dtype)

    # ------------------------------------------------------------------ indexing
    def _norm_index(self, idx):
        if not isinstance(idx, tuple):
            idx = (idx,)
        idx = tuple(int(i) if type(i).__name__.startswith(("int", "uint")) and not isinstance(i, int) else i for i in idx)
        if any(i is Ellipsis for i in idx):
            k = idx.index(Ellipsis)
            n_real = sum(1 for i in idx if i is not None and i is not Ellipsis)
            idx = idx[:k] + (slice(None),) * (self.ndim - n_real) + idx[k + 1:]
        return idx

    def __getitem__(self, idx):
        if isinstance(idx, RArr) and idx.dtype == "bool":
            return _Pending(self, idx)
        if isinstance(idx, tuple) and len(idx) == 2 and isinstance(idx[0], RArr) and isinstance(idx[1], RArr) \
                and idx[1].shape and isinstance(idx[1].data[0], SelIdx):
            # a[arange(n), argmin]: row i -> the candidate selected by the leftmost-minimum conditions
            rows = []
            for i, sel in enumerate(idx[1].data):
                cands = self.data[i]
                cur = cands[-1]
                for k in reversed(range(len(cands) - 1)):
                    cur = [_ite(sel.conds[k], a, b) for a, b in zip(cands[k], cur)] if isinstance(cands[k], list) else _ite(sel.conds[k], cands[k], cur)
                rows.append(cur)
            return RArr(rows, self.dtype)
        idx = self._norm_index(idx)

        def rec(d, idx):
            if not idx:
                return d
            i, rest = idx[0], idx[1:]
            if i is None:
                return [rec(d, rest)]
            if isinstance(i, slice):
                return [rec(x, rest) for x in d[i]]
            if isinstance(i, RArr) and i.ndim == 1 and all(isinstance(v, int) for v in i.data):
                return [rec(d[int(k)], rest) for k in i.data]
            if hasattr(i, "__len__") and not isinstance(i, (str, RArr)):
                # a concrete boolean mask or index list along this axis
                vals = list(i)
                if vals and all(type(b).__name__ in ("bool", "bool_") for b in vals):
                    vals = [k for k, b in enumerate(vals) if b]
                return [rec(d[int(k)], rest) for k in vals]
            return rec(d[int(i)], rest)
        r = rec(self.data, idx)
        return RArr(r, self.dtype) if isinstance(r, list) else r

    def __setitem__(self, idx, v):
        if isinstance(idx, RArr) and idx.dtype == "bool":
            if not isinstance(v, _Pending) or v.arr is not self:
                raise Escape("rnp: boolean-mask store of this form")
            shp, ms = self.shape, idx.shape
            new = _build(shp, lambda ix: _ite(_get(idx.data, ms, ix), v.f(_get(self.data, shp, ix)), _get(self.data, shp, ix)))
            self._assign(new)
            return
        if isinstance(idx, slice) and idx == slice(None):
            v = v if isinstance(v, RArr) else RArr(_num(v))
            shp, sv = self.shape, v.shape
            self._assign(_build(shp, lambda ix: _get(v.data, sv, ix)))
            return
        if isinstance(idx, int):
            self.data[idx] = v.data if isinstance(v, RArr) else _num(v)
            return
        if isinstance(idx, tuple):
            self._store_tuple(idx, v)
            return
        raise Escape("rnp: store with this index form")

    def _store_tuple(self, idx, v):
        """a[i0, i1, ...] = v with ints, slices and (at most one pair of) equal-length integer index arrays"""
        idx = self._norm_index(idx)
        arrs = [k for k, i in enumerate(idx) if isinstance(i, RArr)]
        if arrs:
            n = len(idx[arrs[0]].data)
            for t in range(n):
                sub = tuple(int(i.data[t]) if isinstance(i, RArr) else i for i in idx)
                self._store_tuple(sub, v)
            return
        # positions addressed by the basic index, in row-major order of the target block
        axes = []
        for k, i in enumerate(idx):
            axes.append(list(range(self.shape[k]))[i] if isinstance(i, slice) else [int(i)])
        block_shape = tuple(len(a) for a, i in zip(axes, idx) if isinstance(i, slice))
        vv = v if isinstance(v, RArr) else RArr(_num(v))
        vs = vv.shape
        for pos in itertools.product(*axes):
            bi = tuple(a.index(p) for a, p, i in zip(axes, pos, idx) if isinstance(i, slice))
            val = _get(vv.data, vs, bi) if vs else vv.data
            d = self.data
            for p in pos[:-1]:
                d = d[p]
            d[pos[-1]] = val

    def reshape(self, *shape):
        shape = shape[0] if len(shape) == 1 and isinstance(shape[0], (tuple, list)) else shape
        flat = []

        def rec(d):
            if isinstance(d, list):
                for x in d:
                    rec(x)
            else:
                flat.append(d)
        rec(self.data)
        shape = tuple(int(x) for x in shape)
        total = 1
        for x in shape:
            total *= x
        if total != len(flat):
            raise ValueError(f"cannot reshape array of size {len(flat)} into shape {shape}")
        it = iter(flat)
        return RArr(_build(shape, lambda ix: next(it)), self.dtype)

    def __matmul__(self, o):
        return RNP.matmul(self, o)

    def _assign(self, new):
        # in place: views handed out by __getitem__ with plain ints share the row lists
        def rec(dst, src):
            for i in range(len(dst)):
                if isinstance(dst[i], list):
                    rec(dst[i], src[i])
                else:
                    dst[i] = src[i]
        rec(self.data, new)


class _Linalg:
    @staticmethod
    def inv(m):
        rows = m.data
        if len(rows) != 3 or any(not (isinstance(x, CRat) and x.concrete) for r in rows for x in r):
            raise Escape("rnp: inverse of a matrix that is not a concrete 3x3 matrix")
        f = [[Fraction(x.n, x.d) for x in r] for r in rows]
        (a, b, c), (d, e, g), (h, i, j) = f
        det = a * (e * j - g * i) - b * (d * j - g * h) + c * (d * i - e * h)
        if det == 0:
            raise ValueError("Singular matrix")
        adj = [[e * j - g * i, c * i - b * j, b * g - c * e],
               [g * h - d * j, a * j - c * h, c * d - a * g],
               [d * i - e * h, b * h - a * i, a * e - b * d]]
        return RArr([[CRat(x / det) for x in r] for r in adj])


class RNP:
    newaxis = None
    float32, float64 = "float32", "float64"
    ndarray = RArr
    linalg = _Linalg

    @staticmethod
    def array(x, dtype=None):
        if isinstance(x, RArr):
            return RArr(_map(lambda v: v, x.data), dtype or x.dtype)

        def conv(v):
            if isinstance(v, RArr):
                return _map(lambda t: t, v.data)
            if isinstance(v, (list, tuple)):
                return [conv(t) for t in v]
            return _num(v)
        return RArr(conv(x), getattr(dtype, "name", dtype) or "float64")

    asarray = array

    @staticmethod
    def zeros(shape, dtype=None):
        shape = (shape,) if isinstance(shape, int) else tuple(int(x) for x in shape)
        return RArr(_build(shape, lambda ix: CRat(0)), getattr(dtype, "name", dtype) or "float64")

    @staticmethod
    def identity(n, dtype=None):
        return RArr([[CRat(1 if i == j else 0) for j in range(int(n))] for i in range(int(n))], getattr(dtype, "name", dtype) or "float64")

    eye = identity

    @staticmethod
    def ones(shape, dtype=None):
        shape = (shape,) if isinstance(shape, int) else tuple(int(x) for x in shape)
        return RArr(_build(shape, lambda ix: CRat(1)), getattr(dtype, "name", dtype) or "float64")

    @staticmethod
    def arange(a, b=None):
        a = int(a.data) if isinstance(a, RArr) else int(a)
        if b is None:
            return RArr([int(i) for i in range(a)], "int64")
        return RArr([int(i) for i in range(a, int(b))], "int64")

    @staticmethod
    def stack(arrs, axis=0):
        arrs = [x if isinstance(x, RArr) else RNP.array(x) for x in arrs]
        if axis == 0:
            return RArr([_map(lambda v: v, x.data) for x in arrs], arrs[0].dtype)
        if axis in (1, -1) and arrs[0].ndim == 1:
            return RArr([[x.data[i] for x in arrs] for i in range(len(arrs[0].data))], arrs[0].dtype)
        raise Escape("rnp: stack along this axis")

    @staticmethod
    def cumsum(a, axis=None):
        if axis not in (-2, a.ndim - 2) or a.ndim < 2:
            raise Escape("rnp: cumsum along this axis")

        def rec(d, depth):
            if depth == a.ndim - 2:
                out, acc = [], None
                for row in d:
                    acc = list(row) if acc is None else [x + y for x, y in zip(acc, row)]
                    out.append(list(acc))
                return out
            return [rec(x, depth + 1) for x in d]
        return RArr(rec(a.data, 0), a.dtype)

    @staticmethod
    def abs(a):
        def f(x):
            neg = x < 0
            return _ite(neg, -x, x)
        return RArr(_map(f, a.data), a.dtype) if isinstance(a, RArr) else f(_num(a))

    @staticmethod
    def copy(a):
        return a.copy()

    @staticmethod
    def diagonal(a):
        if a.ndim != 2:
            raise Escape("rnp: diagonal of a non-matrix")
        return RArr([a.data[i][i] for i in range(min(a.shape))], a.dtype)

    @staticmethod
    def mean(a, axis=None):
        if axis != -2 or a.ndim < 2:
            raise Escape("rnp: mean over this axis")

        def rec(d, depth):
            if depth == a.ndim - 2:
                n = len(d)
                return [_sum([row[j] for row in d]) / n for j in range(len(d[0]))]
            return [rec(x, depth + 1) for x in d]
        return RArr(rec(a.data, 0), a.dtype)

    @staticmethod
    def transpose(a, axes=None):
        if axes is None:
            return a.T
        shp = a.shape
        new_shape = tuple(shp[k] for k in axes)

        def elem(ix):
            src = [0] * len(shp)
            for pos, k in enumerate(axes):
                src[k] = ix[pos]
            return _get(a.data, shp, tuple(src))
        return RArr(_build(new_shape, elem), a.dtype)

    @staticmethod
    def matmul(a, b):
        a = a if isinstance(a, RArr) else RNP.array(a)
        b = b if isinstance(b, RArr) else RNP.array(b)
        if a.ndim == 3 and b.ndim == 3:
            if a.shape[0] != b.shape[0]:
                raise ValueError("matmul: batch dimensions differ")
            return RArr([RNP.matmul(RArr(x), RArr(y)).data for x, y in zip(a.data, b.data)], a.dtype)
        if a.ndim == 2 and b.ndim == 1:
            if a.shape[1] != b.shape[0]:
                raise ValueError("matmul: inner dimensions differ")
            return RArr([_dot(row, b.data) for row in a.data], a.dtype)
        if a.ndim == 2 and b.ndim == 2:
            n = a.shape[1]
            if n != b.shape[0]:
                raise ValueError("matmul: inner dimensions differ")
            return RArr([[_dot(row, [b.data[k][j] for k in range(n)]) for j in range(b.shape[1])] for row in a.data], a.dtype)
        if b.ndim != 2:
            raise Escape("rnp: matmul with a stack of matrices")
        n, m = b.shape

        def vec(v):
            return [_dot([v[k] for k in range(n)], [b.data[k][j] for k in range(n)]) for j in range(m)]

        def rec(d, depth):
            if depth == a.ndim - 1:
                return vec(d)
            return [rec(x, depth + 1) for x in d]
        return RArr(rec(a.data, 0), a.dtype)

    @staticmethod
    def argmin(a, axis=None):
        if a.ndim != 2 or axis not in (1, -1):
            raise Escape("rnp: argmin of this form")
        out = []
        for row in a.data:
            conds = []
            for k in range(len(row)):
                cs = [(row[k] <= row[l]) for l in range(len(row)) if l > k] + [(row[k] < row[l]) for l in range(k)]
                conds.append(_all(cs))
            out.append(SelIdx(conds))
        return RArr(out, "int64")


def _sum(xs):
    s = xs[0]
    for x in xs[1:]:
        s = s + x
    return s


def _dot(u, v):
    s = u[0] * v[0]
    for x, y in zip(u[1:], v[1:]):
        s = s + x * y
    return s


def _all(cs):
    if all(isinstance(c, bool) for c in cs):
        return all(cs)
    return mkbool(z3.And(*[c.e if isinstance(c, SBool) else z3.BoolVal(c) for c in cs]))
