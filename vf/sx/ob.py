"""SX obligations: spec-side class (spawns worker processes) and the worker-side case driver."""
import json
import os
import subprocess
import sys
import time
import traceback

from ..common import PY, VERIF, child_env


_NOTE = {"path": None}


def note_inputs(d):
    """record the concrete inputs of the path about to be executed (crash attribution)"""
    if _NOTE["path"]:
        with open(_NOTE["path"], "w") as f:
            json.dump(d, f, default=str)


DEFAULT_SOLVER_MS = [20000]


class Case:
    """One solver question.
    base     : list of z3 constraints over the inputs (the bound)
    run      : callable() -> ok   (bool | SBool | z3 BoolRef); executed once per path under the explorer
    witness  : dict name -> SStr | SInt | z3 term | concrete   (reported / replayed)
    replay   : callable(dict of concrete values) -> (ok: bool, observed: str)   real code, no symbols
    known    : list of (finding_id, z3 region constraint, concrete witness dict)
    """

    def __init__(self, label, base, run, witness, replay, known=(), timeout=None, solver_ms=None, logic=None):
        self.label, self.base, self.run, self.witness, self.replay = label, list(base), run, witness, replay
        self.known = list(known)
        self.timeout = timeout
        self.logic = logic                # z3 logic name for SolverFor (e.g. QF_BVFP); default: generic solver
        self.solver_ms = solver_ms        # per-query solver timeout (default 20 s); floating-point queries need more


class SX:
    engine = "SX"

    def __init__(self, name, module, func=None, cls="S", quick=60, thorough=None, parts=1, functions=(),
                 bounds="", stubs=(), tiers=("quick", "thorough"), note="", engine="SX"):
        self.name, self.module, self.func = name, module, func or name
        self.cls = cls
        self.timeout = {"quick": quick, "thorough": thorough or quick * 4}
        self.parts = parts if isinstance(parts, dict) else {"quick": parts, "thorough": parts}
        self.functions, self.bounds, self.stubs, self.tiers, self.note = list(functions), bounds, list(stubs), tiers, note
        self.engine = engine

    def run(self, ctx):
        t0 = time.time()
        n = self.parts[ctx.tier]
        procs = []
        notes = []
        for i in range(n):
            cmd = [PY, "-m", "vf.sx.ob", self.module, self.func, ctx.tier, f"{i}/{n}", str(self.timeout[ctx.tier]), ctx.prop]
            env = child_env()
            note = os.path.join(ctx.workdir, f"{self.name}.{i}.note")
            env["VF_NOTE_FILE"] = note
            notes.append(note)
            procs.append(subprocess.Popen(cmd, stdout=subprocess.PIPE, stderr=subprocess.PIPE, text=True,
                                          env=env, cwd=VERIF))
        parts = []
        for p, note in zip(procs, notes):
            try:
                out, err = p.communicate(timeout=self.timeout[ctx.tier] * 2 + 300)
            except subprocess.TimeoutExpired:
                p.kill()
                out, err = p.communicate()
                parts.append(dict(error="wall timeout"))
                continue
            rec = None
            for l in out.splitlines():
                if l.startswith("SXRESULT "):
                    rec = json.loads(l[len("SXRESULT "):])
            if rec is None and p.returncode is not None and p.returncode < 0 and os.path.exists(note):
                # the interpreter died (signal) while executing the noted inputs: replay them in a fresh process
                rec = self._crash(note, p.returncode)
            parts.append(rec if rec is not None else dict(error=f"worker rc={p.returncode}: {err[-800:]}"))
        return fold(self, parts, time.time() - t0)


def _crash_replay(module, func, inputs):
    code = ("import sys, json, importlib\n"
            "m = importlib.import_module(sys.argv[1]); res = getattr(m, sys.argv[2])('quick')\n"
            "cases = res[0] if isinstance(res, tuple) else res\n"
            "ok, obs = cases[0].replay(json.loads(sys.argv[3])); print('CR ' + json.dumps([ok, str(obs)[:300]]))\n")
    p = subprocess.run([PY, "-c", code, module, func, json.dumps(inputs)], capture_output=True, text=True,
                       env=child_env(), cwd=VERIF, timeout=600)
    for l in p.stdout.splitlines():
        if l.startswith("CR "):
            return json.loads(l[3:])
    return [False, f"interpreter died rc={p.returncode}"]


def _sx_crash(self, note, rc):
    try:
        inputs = json.load(open(note))
    except Exception:
        return None
    ok, obs = _crash_replay(self.module, self.func, inputs)
    if ok:
        return dict(error=f"worker died (rc={rc}) but the noted inputs replay fine: {inputs}")
    return dict(cases=1, violation=dict(case="interpreter terminated", inputs=inputs, observed=f"worker rc={rc}; replay: {obs}",
                                        symbolic="process died while executing these inputs"))


SX._crash = _sx_crash


def fold(ob, parts, wall):
    rec = dict(name=ob.name, engine=ob.engine, **{"class": ob.cls}, harness=ob.module, func=ob.func,
               functions=ob.functions, bounds=ob.bounds, stubs=ob.stubs, note=ob.note, known=[],
               cases=0, paths=0, queries=0, sat=0, unsat=0, unknown=0, solver_s=0.0, wall_s=round(wall, 2))
    verdict, reason, cex = "discharged", None, None
    reachable = 0
    details = []
    for p in parts:
        if p.get("error"):
            verdict, reason = "inconclusive", "machinery: " + p["error"][:400]
            continue
        for k in ("cases", "paths", "queries", "sat", "unsat", "unknown"):
            rec[k] += p.get(k, 0)
        rec["solver_s"] += p.get("solver_s", 0)
        reachable += p.get("reachable", 0)
        rec["known"].extend(p.get("known", []))
        details.extend(p.get("case_results", []))
        if p.get("functions_hash"):
            rec["functions_hash"] = p["functions_hash"]
        if p.get("validation"):
            rec["translator_validation"] = p["validation"]
        if p.get("violation") and verdict != "violation":
            verdict, cex = "violation", p["violation"]
        elif p.get("inconclusive") and verdict == "discharged":
            verdict, reason = "inconclusive", p["inconclusive"]
    if verdict == "discharged" and reachable == 0:
        verdict, reason = "inconclusive", "vacuous: no case reached its assertion with a satisfiable 'ok'"
    seen = set()
    rec["known"] = [k for k in rec["known"] if not (k["id"] in seen or seen.add(k["id"]))]
    rec.update(verdict=verdict, reason=reason, cex=cex, twin="reachable" if reachable else "vacuous",
               twin_model=next((d.get("sample") for d in details if d.get("sample")), None),
               solver_s=round(rec["solver_s"], 2), case_results=details[:60])
    return rec


def _safe_str(e):
    try:
        return str(e)
    except BaseException:
        return "<symbolic message>"


# ------------------------------------------------------------------------------- worker
def run_cases(cases, total_timeout):
    import z3
    from .core import Explorer, Escape, SBool, SInt, SStr, concretize_str
    out = dict(cases=0, paths=0, queries=0, sat=0, unsat=0, unknown=0, solver_s=0.0, reachable=0,
               known=[], case_results=[])
    t_end = time.time() + total_timeout
    per_case = max(5.0, total_timeout / max(1, len(cases)))

    def conc(w, model):
        r = {}
        for k, v in w.items():
            if isinstance(v, (SStr, str)):
                r[k] = concretize_str(v, model)
            elif isinstance(v, SInt):
                r[k] = model.eval(v.e, model_completion=True).as_long()
            elif isinstance(v, SBool):
                r[k] = bool(z3.is_true(model.eval(v.e, model_completion=True)))
            elif isinstance(v, z3.ExprRef):
                mv = model.eval(v, model_completion=True)
                if z3.is_string_value(mv):
                    import re as _re
                    r[k] = _re.sub(r"\\u\{([0-9a-fA-F]+)\}", lambda m_: chr(int(m_.group(1), 16)), mv.as_string())
                elif z3.is_fp(mv):
                    from ..kx.fp import fp_value
                    r[k] = fp_value(mv)
                elif z3.is_rational_value(mv) and not z3.is_int_value(mv):
                    r[k] = float(mv.as_fraction())
                elif z3.is_bv_value(mv):
                    r[k] = mv.as_long()
                else:
                    r[k] = mv.as_long() if z3.is_int_value(mv) else (z3.is_true(mv) if z3.is_bool(mv) else str(mv))
            elif isinstance(v, (list, tuple)):
                r[k] = [conc({"x": x}, model)["x"] for x in v]
            elif isinstance(v, dict):
                r[k] = conc(v, model)
            else:
                r[k] = v
        return r

    for case in cases:
        out["cases"] += 1
        remaining = t_end - time.time()
        if remaining <= 1:
            out["inconclusive"] = f"time budget exhausted before case {case.label}"
            break
        ex = Explorer(timeout_s=min(case.timeout or per_case * 3, remaining), solver_timeout_ms=case.solver_ms or DEFAULT_SOLVER_MS[0], logic=case.logic)
        # known findings: replay witness on the real code; exclude the region only while it still fails
        for fid, region, wit, what in case.known:
            try:
                ok, obs = case.replay(wit)
            except Exception as e:
                ok, obs = False, f"{type(e).__name__}: {e}"
            if not ok:
                out["known"].append(dict(id=fid, what=what, witness=wit, observed=str(obs)[:300]))
                case.base.append(z3.Not(region))
        ex.base = list(case.base)
        state = dict(violation=None, mismatch=None, reach=False, sample=None)

        def path_fn():
            try:
                return ("ok", case.run())
            except Escape as e:
                # this path left the modelled fragment: it is neither a pass nor a violation
                state["escaped"] = state.get("escaped", 0) + 1
                state["escape_msg"] = str(e)
                from .core import PathAbort
                raise PathAbort()
            except Exception as e:
                from .core import PathAbort, Budget
                if isinstance(e, (PathAbort, Budget)):
                    raise
                return ("exc", e)

        def on_path(val, ex):
            kind, v = val
            if kind == "exc":
                bad = z3.BoolVal(True)
                good = z3.BoolVal(False)
            else:
                okc = v.e if isinstance(v, SBool) else (v if isinstance(v, z3.ExprRef) else z3.BoolVal(bool(v)))
                bad, good = z3.Not(okc), okc
            if not state["reach"]:
                if ex._check(good) == z3.sat:
                    state["reach"] = True
                    state["sample"] = conc(case.witness, ex.last_model)
            r = ex._check(bad)
            if r == z3.unknown:
                state["mismatch"] = "solver unknown on the assertion"
                return True
            if r == z3.sat:
                m = ex.last_model
                w = conc(case.witness, m)
                try:
                    rok, obs = case.replay(w)
                except Exception as e:
                    rok, obs = False, f"{type(e).__name__}: {e}"
                if not rok:
                    state["violation"] = dict(case=case.label, inputs=w, observed=str(obs)[:500],
                                              symbolic=("raised " + type(v).__name__ + ": " + _safe_str(v)[:200]) if kind == "exc" else "assertion false")
                else:
                    state["mismatch"] = f"replay-mismatch on {w!r}: encoding says violated ({'exception ' + type(v).__name__ + ' ' + _safe_str(v) if kind == 'exc' else 'assertion'}), real code ok"
                return True
            return False

        try:
            status = ex.explore(path_fn, on_path)
            rounds = 0
            while os.environ.get("VERIF_EXPLORE") and state["violation"] and rounds < int(os.environ["VERIF_EXPLORE"]):
                # triage aid: collect several distinct counterexamples of one case
                rounds += 1
                out.setdefault("all_violations", []).append(state["violation"])
                excl = []
                for k, v in case.witness.items():
                    if isinstance(v, SStr):
                        excl.append(v._eq_cond(state["violation"]["inputs"][k]))
                    elif isinstance(v, SInt):
                        excl.append(v.e == state["violation"]["inputs"][k])
                case.base.append(z3.Not(z3.And(*excl)))
                ex = Explorer(timeout_s=min(case.timeout or per_case * 3, max(1, t_end - time.time())), solver_timeout_ms=case.solver_ms or DEFAULT_SOLVER_MS[0], logic=case.logic)
                ex.base = list(case.base)
                state.update(violation=None, mismatch=None)
                status = ex.explore(path_fn, on_path)
        except Escape as e:
            status = f"escape:{e}"
        st = ex.stats()
        for k in ("paths", "queries", "sat", "unsat", "unknown"):
            out[k] += st[k]
        out["solver_s"] += st["solver_s"]
        if state["reach"]:
            out["reachable"] += 1
        cr = dict(case=case.label, status=status, paths=st["paths"], queries=st["queries"], sample=state["sample"])
        out["case_results"].append(cr)
        if state["violation"]:
            out["violation"] = state["violation"]
            break
        if state["mismatch"]:
            out["inconclusive"] = state["mismatch"]
            break
        if status == "exhausted" and state.get("escaped"):
            status = f"escape on {state['escaped']} path(s): {state['escape_msg']}"
        if status != "exhausted":
            out["inconclusive"] = f"case {case.label}: {status}"
            # keep going: other cases may still find violations
    return out


def main():
    module, func, tier, part, timeout, prop = sys.argv[1:7]
    DEFAULT_SOLVER_MS[0] = 20000 if tier == "quick" else 300000      # per-query solver timeout: the thorough tier has larger formulas
    _NOTE["path"] = os.environ.get("VF_NOTE_FILE")
    i, n = (int(x) for x in part.split("/"))
    try:
        import importlib
        mod = importlib.import_module(module)
        res = getattr(mod, func)(tier)
        meta = {}
        if isinstance(res, tuple):
            cases, meta = res
        else:
            cases = res
        cases = [c for k, c in enumerate(cases) if k % n == i]
        out = run_cases(cases, float(timeout))
        out.update(meta)
    except Exception:
        out = dict(error=traceback.format_exc()[-1500:])
    print("SXRESULT " + json.dumps(out, default=str), flush=True)


if __name__ == "__main__":
    main()
