"""SX: a small symbolic executor (fork by re-execution, z3 for feasibility and verdicts).

The code under check is executed *as Python* over symbolic values (SBool/SInt/SStr and the
typed C integers of kx/ctypes.py).  Whenever control flow needs a truth value
(`SBool.__bool__`), the explorer decides the branch: it asks z3 which sides are feasible under
the current path condition, takes one and remembers the other.  After a path ends, the harness'
assertion is checked by z3 under that path condition.  All paths are enumerated depth first by
re-executing the function with a decision prefix (no state copying), until none is left
(=> the assertion holds for every value within the stated bounds), a model is found, or a
budget is exhausted (=> inconclusive).
"""
import time

import z3


class PathAbort(Exception):
    """The current path is infeasible / assumed away."""


class Escape(Exception):
    """A symbolic value reached an operation the engine cannot model (C boundary, hashing...)."""


class Budget(Exception):
    pass


class UnwindExceeded(Exception):
    pass


_CUR = None


def cur():
    if _CUR is None:
        raise RuntimeError("no active explorer")
    return _CUR


class Explorer:
    def __init__(self, timeout_s=60.0, max_paths=200000, solver_timeout_ms=20000, logic=None):
        self.logic = logic
        self.timeout_s = timeout_s
        self.max_paths = max_paths
        self.solver_timeout_ms = solver_timeout_ms
        self.queries = 0
        self.sat = self.unsat = self.unknown = 0
        self.solver_s = 0.0
        self.paths = 0
        self.aborted = 0
        self.prefix = []
        self.trace = []
        self.base = []          # global assumptions (domains of the inputs)
        self.t0 = None

    # ------------------------------------------------------------------ solver access
    def _check(self, *extra):
        self.queries += 1
        t = time.time()
        if self.logic:
            # one-shot solver of the given logic (tactic pipeline; push/pop would switch z3 to its incremental core,
            # which is far slower on floating-point queries)
            one = z3.SolverFor(self.logic)
            one.set("timeout", self.solver_timeout_ms)
            one.add(*self.solver.assertions())
            one.add(*extra)
            r = one.check()
            self.last_model = one.model() if r == z3.sat else None
        else:
            if extra:
                self.solver.push()
                self.solver.add(*extra)
            r = self.solver.check()
            self.last_model = self.solver.model() if r == z3.sat else None
            if extra:
                self.solver.pop()
        self.solver_s += time.time() - t
        if r == z3.sat:
            self.sat += 1
        elif r == z3.unsat:
            self.unsat += 1
        else:
            self.unknown += 1
        return r

    def check_time(self):
        if time.time() - self.t0 > self.timeout_s:
            raise Budget("time budget exhausted")

    # ------------------------------------------------------------------ decisions
    def add(self, *conds):
        """add constraints to the current path (invalidates the cached model)"""
        self.solver.add(*conds)
        self.model = None

    def _eval(self, cond):
        if self.model is None:
            return None
        try:
            v = self.model.eval(cond, model_completion=True)
        except z3.Z3Exception:
            return None
        if z3.is_true(v):
            return True
        if z3.is_false(v):
            return False
        return None

    def decide(self, cond):
        """cond: z3 BoolRef. Returns the Python bool chosen for this path."""
        cond = z3.simplify(cond)
        if z3.is_true(cond):
            return True
        if z3.is_false(cond):
            return False
        k = len(self.trace)
        if k < len(self.prefix):
            choice, other = self.prefix[k]
            self.trace.append((choice, other))
            self.solver.add(cond if choice else z3.Not(cond))
            if self._eval(cond) is not choice:
                self.model = None
            return choice
        self.check_time()
        # a cached model of the path condition settles one side without a query
        guess = self._eval(cond)
        mt = mf = None
        if guess is True:
            rt, mt = z3.sat, self.model
            rf = self._check(z3.Not(cond))
            mf = self.last_model
        elif guess is False:
            rf, mf = z3.sat, self.model
            rt = self._check(cond)
            mt = self.last_model
        else:
            rt = self._check(cond)
            mt = self.last_model
            rf = self._check(z3.Not(cond))
            mf = self.last_model
        if rt == z3.unknown or rf == z3.unknown:
            raise Budget("solver returned unknown on a branch condition")
        if rt == z3.sat:
            choice, other = True, (rf == z3.sat)
        elif rf == z3.sat:
            choice, other = False, False
        else:
            raise PathAbort()
        self.trace.append((choice, other))
        self.solver.add(cond if choice else z3.Not(cond))
        self.model = mt if choice else mf
        return choice

    def fresh(self, name, sort="int"):
        """path-local fresh variable (deterministic name: replays see the same term)"""
        self._fresh += 1
        return z3.Int(f"__{name}{self._fresh}") if sort == "int" else z3.Bool(f"__{name}{self._fresh}")

    def assume(self, cond):
        if isinstance(cond, SBool):
            cond = cond.e
        if isinstance(cond, bool):
            if not cond:
                raise PathAbort()
            return
        self.solver.add(cond)
        if self._check() != z3.sat:
            raise PathAbort()
        self.model = self.last_model

    def choose(self, x, values):
        """Concretise the z3 Int term x over the finite candidate list `values` (deterministic)."""
        if isinstance(x, int):
            return x
        for v in values:
            if self.decide(x == v):
                return v
        raise PathAbort()

    def _next_prefix(self):
        t = list(self.trace)
        while t:
            choice, other = t.pop()
            if choice and other:
                return t + [(False, False)]
        return None

    # ------------------------------------------------------------------ main loop
    def explore(self, path_fn, on_path):
        """path_fn() executes one path and returns a value; on_path(value, self) is called for every
        feasible completed path (it may query self.solver).  Returns 'exhausted' or 'budget:<why>'."""
        global _CUR
        self.t0 = time.time()
        prefix = []
        status = "exhausted"
        prev = _CUR
        _CUR = self
        try:
            while prefix is not None:
                if self.paths + self.aborted >= self.max_paths:
                    status = "budget:max_paths"
                    break
                self.prefix, self.trace, self.flipped = prefix, [], bool(prefix)
                self._fresh = 0
                self.model = None
                self.solver = z3.SolverFor(self.logic) if self.logic else z3.Solver()
                self.solver.set("timeout", self.solver_timeout_ms)
                self.solver.add(*self.base)
                try:
                    val = path_fn()
                    self.paths += 1
                    stop = on_path(val, self)
                    if stop:
                        status = "stopped"
                        break
                except PathAbort:
                    self.aborted += 1
                except Budget as b:
                    status = f"budget:{b}"
                    break
                prefix = self._next_prefix()
                if time.time() - self.t0 > self.timeout_s:
                    if prefix is not None:
                        status = "budget:time"
                    break
        finally:
            _CUR = prev
        return status

    def stats(self):
        return dict(paths=self.paths, aborted_paths=self.aborted, queries=self.queries, sat=self.sat,
                    unsat=self.unsat, unknown=self.unknown, solver_s=round(self.solver_s, 3))


# ====================================================================== symbolic values
class SBool:
    __slots__ = ("e",)

    def __init__(self, e):
        self.e = e

    def __bool__(self):
        return cur().decide(self.e)

    def __invert__(self):
        return SBool(z3.Not(self.e))

    def __and__(self, o):
        return SBool(z3.And(self.e, tobool(o)))

    __rand__ = __and__

    def __or__(self, o):
        return SBool(z3.Or(self.e, tobool(o)))

    __ror__ = __or__

    def __eq__(self, o):
        return SBool(self.e == tobool(o))

    def __ne__(self, o):
        return SBool(self.e != tobool(o))

    __hash__ = None

    def __repr__(self):
        return f"SBool({self.e})"


def tobool(x):
    if isinstance(x, SBool):
        return x.e
    if isinstance(x, z3.BoolRef):
        return x
    return z3.BoolVal(bool(x))


def mkbool(e):
    e = z3.simplify(e) if isinstance(e, z3.ExprRef) else e
    if isinstance(e, bool):
        return e
    if z3.is_true(e):
        return True
    if z3.is_false(e):
        return False
    return SBool(e)


def sym_and(*xs):
    return mkbool(z3.And(*[tobool(x) for x in xs]))


def sym_or(*xs):
    return mkbool(z3.Or(*[tobool(x) for x in xs]))


def sym_not(x):
    return mkbool(z3.Not(tobool(x)))


class SInt:
    """Mathematical integer (Python int semantics)."""
    __slots__ = ("e",)

    def __init__(self, e):
        self.e = e

    @staticmethod
    def of(x):
        if isinstance(x, SInt):
            return x.e
        if isinstance(x, bool):
            return z3.IntVal(int(x))
        if isinstance(x, int):
            return z3.IntVal(x)
        if isinstance(x, z3.ArithRef):
            return x
        if hasattr(x, "__index__") and not isinstance(x, (SStr, float)):
            return z3.IntVal(x.__index__())
        raise TypeError(f"cannot use {type(x).__name__} as symbolic int")

    @staticmethod
    def mk(e):
        e = z3.simplify(e)
        if z3.is_int_value(e):
            return e.as_long()
        return SInt(e)

    def _bin(self, o, f):
        try:
            oe = SInt.of(o)
        except TypeError:
            return NotImplemented
        return SInt.mk(f(self.e, oe))

    def __add__(self, o): return self._bin(o, lambda a, b: a + b)
    def __radd__(self, o): return self._bin(o, lambda a, b: b + a)
    def __sub__(self, o): return self._bin(o, lambda a, b: a - b)
    def __rsub__(self, o): return self._bin(o, lambda a, b: b - a)
    def __mul__(self, o): return self._bin(o, lambda a, b: a * b)
    def __rmul__(self, o): return self._bin(o, lambda a, b: b * a)
    def __neg__(self): return SInt.mk(-self.e)
    def __pos__(self): return self
    def __abs__(self): return SInt.mk(z3.If(self.e >= 0, self.e, -self.e))

    # Python floor division / modulo (sign of the divisor); z3 div/mod are Euclidean
    def __floordiv__(self, o): return self._bin(o, _py_floordiv)
    def __rfloordiv__(self, o): return SInt.mk(_py_floordiv(SInt.of(o), self.e))
    def __mod__(self, o): return self._bin(o, _py_mod)
    def __rmod__(self, o):
        if isinstance(o, str):
            return NotImplemented
        return SInt.mk(_py_mod(SInt.of(o), self.e))

    def __divmod__(self, o):
        return self // o, self % o

    def _cmp(self, o, f):
        try:
            oe = SInt.of(o)
        except TypeError:
            return NotImplemented
        return mkbool(f(self.e, oe))

    def __lt__(self, o): return self._cmp(o, lambda a, b: a < b)
    def __le__(self, o): return self._cmp(o, lambda a, b: a <= b)
    def __gt__(self, o): return self._cmp(o, lambda a, b: a > b)
    def __ge__(self, o): return self._cmp(o, lambda a, b: a >= b)

    def __eq__(self, o):
        r = self._cmp(o, lambda a, b: a == b)
        return False if r is NotImplemented else r

    def __ne__(self, o):
        r = self._cmp(o, lambda a, b: a != b)
        return True if r is NotImplemented else r

    __hash__ = None

    def __bool__(self):
        return cur().decide(self.e != 0)

    def __index__(self):
        # C boundary (numpy, range, list index): concretise by forking over the explorer's declared index range
        ex = cur()
        rng = getattr(ex, "index_range", None)
        if rng is None:
            raise Escape("symbolic int used where a concrete index is required")
        return ex.choose(self.e, rng)

    __int__ = None

    def __repr__(self):
        return f"SInt({self.e})"


def _py_floordiv(a, b):
    # floor(a / b) for b != 0 in terms of z3's Euclidean div
    q = a / b
    return z3.If(z3.And(b < 0, a % b != 0), q - 1, q)   # z3: a = b*q + r, 0 <= r < |b|


def _py_mod(a, b):
    return a - b * _py_floordiv(a, b)


# ---------------------------------------------------------------------------- strings
WS = (9, 10, 11, 12, 13, 28, 29, 30, 31, 32)       # str.isspace() within ASCII
LINEBREAKS = (10, 11, 12, 13, 28, 29, 30)          # str.splitlines() within ASCII


def _c_eq(a, b):
    if isinstance(a, int) and isinstance(b, int):
        return a == b
    return a == b          # z3 BoolRef


def _c_in(c, codes):
    if isinstance(c, int):
        return c in codes
    return z3.Or(*[c == k for k in codes])


def _b(x):
    """python bool | z3 BoolRef -> decided python bool"""
    if isinstance(x, bool):
        return x
    return cur().decide(x)


class SStr:
    """ASCII string of concrete length whose characters are ints (concrete) or z3 Int terms."""
    __slots__ = ("cs",)

    def __init__(self, cs):
        self.cs = tuple(cs)

    # ---- construction helpers
    @staticmethod
    def mk(cs):
        cs = tuple(cs)
        if all(isinstance(c, int) for c in cs):
            return "".join(map(chr, cs))
        return SStr(cs)

    @staticmethod
    def codes(x):
        if isinstance(x, SStr):
            return x.cs
        if isinstance(x, str):
            return tuple(ord(c) for c in x)
        raise TypeError(f"expected str, got {type(x).__name__}")

    @staticmethod
    def fresh(name, n, lo=0, hi=127, extra=None, also=()):
        """n fresh symbolic characters within [lo, hi] (plus the code points in `also`); returns
        (SStr, [constraints], [vars])."""
        vs = [z3.Int(f"{name}_{i}") for i in range(n)]
        cons = []
        for v in vs:
            dom = z3.And(v >= lo, v <= hi)
            if also:
                dom = z3.Or(dom, *[v == k for k in also])
            cons.append(dom)
            if extra is not None:
                cons.append(extra(v))
        return SStr.mk(vs) if n else "", cons, vs

    def __len__(self):
        return len(self.cs)

    def __bool__(self):
        return len(self.cs) > 0

    def __iter__(self):
        for c in self.cs:
            yield SStr.mk((c,))

    def __getitem__(self, i):
        if isinstance(i, slice):
            if any(isinstance(x, SInt) for x in (i.start, i.stop, i.step)):
                raise Escape("symbolic slice bound on SStr")
            return SStr.mk(self.cs[i])
        if isinstance(i, SInt):
            i = cur().choose(i.e, range(-len(self.cs), len(self.cs)))
        return SStr.mk((self.cs[i],))

    def __add__(self, o):
        if isinstance(o, (str, SStr)):
            return SStr.mk(self.cs + SStr.codes(o))
        return NotImplemented

    def __radd__(self, o):
        if isinstance(o, (str, SStr)):
            return SStr.mk(SStr.codes(o) + self.cs)
        return NotImplemented

    def __mul__(self, n):
        return SStr.mk(self.cs * n)

    __rmul__ = __mul__

    # ---- comparisons
    def _eq_cond(self, o):
        if not isinstance(o, (str, SStr)):
            return False
        oc = SStr.codes(o)
        if len(oc) != len(self.cs):
            return False
        conds = []
        for a, b in zip(self.cs, oc):
            if isinstance(a, int) and isinstance(b, int):
                if a != b:
                    return False
            else:
                conds.append(a == b)
        if not conds:
            return True
        return z3.And(*conds)

    def __eq__(self, o):
        return mkbool(self._eq_cond(o))

    def __ne__(self, o):
        return sym_not(self._eq_cond(o))

    def _lex(self, o):
        """-1/0/1 by forking"""
        oc = SStr.codes(o)
        for a, b in zip(self.cs, oc):
            if _b(a == b if not (isinstance(a, int) and isinstance(b, int)) else a == b):
                continue
            return -1 if _b(a < b) else 1
        return (len(self.cs) > len(oc)) - (len(self.cs) < len(oc))

    def __lt__(self, o): return self._lex(o) < 0
    def __le__(self, o): return self._lex(o) <= 0
    def __gt__(self, o): return self._lex(o) > 0
    def __ge__(self, o): return self._lex(o) >= 0

    def __hash__(self):
        raise Escape("symbolic str used as a hash key")

    def __repr__(self):
        return "SStr<" + "".join(chr(c) if isinstance(c, int) else "¿" for c in self.cs) + ">"

    def __str__(self):
        raise Escape("str() of a symbolic str outside rewritten code")

    def __format__(self, spec):
        raise Escape("format() of a symbolic str outside rewritten code")

    # ---- searching
    def _match_at(self, sub, i):
        """condition that sub (codes) occurs at offset i"""
        if i < 0 or i + len(sub) > len(self.cs):
            return False
        conds = []
        for k, b in enumerate(sub):
            a = self.cs[i + k]
            if isinstance(a, int) and isinstance(b, int):
                if a != b:
                    return False
            else:
                conds.append(a == b)
        return z3.And(*conds) if conds else True

    def __contains__(self, sub):
        sub = SStr.codes(sub)
        if not sub:
            return True
        conds = []
        for i in range(len(self.cs) - len(sub) + 1):
            c = self._match_at(sub, i)
            if c is True:
                return True
            if c is not False:
                conds.append(c)
        if not conds:
            return False
        return _b(z3.Or(*conds))

    def find(self, sub, start=0, end=None):
        sub = SStr.codes(sub)
        n = len(self.cs)
        start, end, _ = slice(start, end).indices(n)
        for i in range(start, end - len(sub) + 1):
            if _b(self._match_at(sub, i)):
                return i
        return -1

    def rfind(self, sub, start=0, end=None):
        sub = SStr.codes(sub)
        n = len(self.cs)
        start, end, _ = slice(start, end).indices(n)
        for i in range(end - len(sub), start - 1, -1):
            if _b(self._match_at(sub, i)):
                return i
        return -1

    def index(self, sub, *a):
        r = self.find(sub, *a)
        if r < 0:
            raise ValueError("substring not found")
        return r

    def rindex(self, sub, *a):
        r = self.rfind(sub, *a)
        if r < 0:
            raise ValueError("substring not found")
        return r

    def count(self, sub):
        sub = SStr.codes(sub)
        if not sub:
            return len(self.cs) + 1
        i, n = 0, 0
        while i <= len(self.cs) - len(sub):
            if _b(self._match_at(sub, i)):
                n += 1
                i += len(sub)
            else:
                i += 1
        return n

    def startswith(self, p, start=0):
        if isinstance(p, tuple):
            return any(self.startswith(q, start) for q in p)
        return _b(self._match_at(SStr.codes(p), start))

    def endswith(self, p):
        if isinstance(p, tuple):
            return any(self.endswith(q) for q in p)
        p = SStr.codes(p)
        return _b(self._match_at(p, len(self.cs) - len(p)))

    # ---- splitting / stripping
    def partition(self, sep):
        i = self.find(sep)
        if i < 0:
            return self, "", ""
        return SStr.mk(self.cs[:i]), sep, SStr.mk(self.cs[i + len(sep):])

    def rpartition(self, sep):
        i = self.rfind(sep)
        if i < 0:
            return "", "", self
        return SStr.mk(self.cs[:i]), sep, SStr.mk(self.cs[i + len(sep):])

    def _is_ws(self, c, chars):
        if chars is None:
            return _c_in(c, WS)
        return _c_in(c, SStr.codes(chars))

    def lstrip(self, chars=None):
        i = 0
        while i < len(self.cs) and _b(self._is_ws(self.cs[i], chars)):
            i += 1
        return SStr.mk(self.cs[i:])

    def rstrip(self, chars=None):
        j = len(self.cs)
        while j > 0 and _b(self._is_ws(self.cs[j - 1], chars)):
            j -= 1
        return SStr.mk(self.cs[:j])

    def strip(self, chars=None):
        r = self.lstrip(chars)
        return r.rstrip(chars) if isinstance(r, SStr) else r.strip(chars)

    def split(self, sep=None, maxsplit=-1):
        if sep is None:
            out, curw = [], []
            n = 0
            i = 0
            cs = self.cs
            while i < len(cs):
                if _b(_c_in(cs[i], WS)):
                    if curw:
                        out.append(SStr.mk(curw))
                        curw = []
                        n += 1
                    i += 1
                    continue
                if maxsplit >= 0 and n >= maxsplit and not curw:
                    # remainder (leading ws skipped), trailing ws stripped? No: CPython keeps the rest
                    rest = SStr.mk(cs[i:])
                    rest = rest.rstrip() if isinstance(rest, SStr) else rest.rstrip()
                    if len(rest):
                        out.append(rest)
                    return out
                curw.append(cs[i])
                i += 1
            if curw:
                out.append(SStr.mk(curw))
            return out
        sepc = SStr.codes(sep)
        if not sepc:
            raise ValueError("empty separator")
        out, start, i, n = [], 0, 0, 0
        while i <= len(self.cs) - len(sepc):
            if (maxsplit < 0 or n < maxsplit) and _b(self._match_at(sepc, i)):
                out.append(SStr.mk(self.cs[start:i]))
                i += len(sepc)
                start = i
                n += 1
            else:
                i += 1
        out.append(SStr.mk(self.cs[start:]))
        return out

    def splitlines(self, keepends=False):
        out, start, i = [], 0, 0
        cs = self.cs
        while i < len(cs):
            if _b(_c_in(cs[i], LINEBREAKS)):
                end = i + 1
                if _b(_c_eq(cs[i], 13)) and i + 1 < len(cs) and _b(_c_eq(cs[i + 1], 10)):
                    end = i + 2
                out.append(SStr.mk(cs[start:end] if keepends else cs[start:i]))
                start = i = end
            else:
                i += 1
        if start < len(cs):
            out.append(SStr.mk(cs[start:]))
        return out

    def ljust(self, width, fill=" "):
        return SStr.mk(self.cs + (ord(fill),) * max(0, width - len(self.cs)))

    def rjust(self, width, fill=" "):
        return SStr.mk((ord(fill),) * max(0, width - len(self.cs)) + self.cs)

    def replace(self, old, new, count=-1):
        parts = self.split(old, count)
        return sjoin(new, parts)

    def join(self, items):
        return sjoin(self, items)

    # ---- character classes / case
    def _all(self, pred):
        if not self.cs:
            return False
        return mkbool(z3.And(*[z3.BoolVal(pred(c)) if isinstance(c, int) else pred(c) for c in self.cs]))

    def isdigit(self):
        return self._all(lambda c: (48 <= c <= 57) if isinstance(c, int) else z3.And(c >= 48, c <= 57))

    def isspace(self):
        return self._all(lambda c: (c in WS) if isinstance(c, int) else _c_in(c, WS))

    def isalpha(self):
        return self._all(lambda c: (65 <= c <= 90 or 97 <= c <= 122) if isinstance(c, int)
                         else z3.Or(z3.And(c >= 65, c <= 90), z3.And(c >= 97, c <= 122)))

    def isupper(self):
        # true iff at least one cased char and no lowercase
        has = z3.Or(*[z3.BoolVal(65 <= c <= 90) if isinstance(c, int) else z3.And(c >= 65, c <= 90) for c in self.cs])
        nolow = z3.And(*[z3.BoolVal(not (97 <= c <= 122)) if isinstance(c, int) else z3.Not(z3.And(c >= 97, c <= 122)) for c in self.cs])
        return mkbool(z3.And(has, nolow))

    def lower(self):
        return SStr.mk([(c + 32 if 65 <= c <= 90 else c) if isinstance(c, int)
                        else z3.If(z3.And(c >= 65, c <= 90), c + 32, c) for c in self.cs])

    def upper(self):
        return SStr.mk([(c - 32 if 97 <= c <= 122 else c) if isinstance(c, int)
                        else z3.If(z3.And(c >= 97, c <= 122), c - 32, c) for c in self.cs])

    def encode(self, *a):
        raise Escape("encode() of a symbolic str")


def sjoin(sep, items):
    items = list(items)
    out = []
    sepc = SStr.codes(sep)
    for k, it in enumerate(items):
        if k:
            out.extend(sepc)
        out.extend(SStr.codes(it))
    return SStr.mk(out)


def s_eq(a, b):
    """z3 condition / bool: the two (symbolic or concrete) strings are equal"""
    if isinstance(a, SStr):
        return a._eq_cond(b)
    if isinstance(b, SStr):
        return b._eq_cond(a)
    return a == b


def concretize_str(x, model):
    if isinstance(x, str):
        return x
    out = []
    for c in x.cs:
        if isinstance(c, int):
            out.append(chr(c))
        else:
            v = model.eval(c, model_completion=True)
            out.append(chr(v.as_long()))
    return "".join(out)
