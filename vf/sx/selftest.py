"""Differential validation of the SStr model against CPython's str (run before SX obligations are
believed): every operation is executed on strings whose characters are *symbolic but pinned* to
the concrete test string, under the explorer; the single feasible path must give str's result."""
import itertools

import z3

from .core import Explorer, SStr, SInt, concretize_str

STRS = ["", "a", " a", "a ", "'a'", "\"a b\"", ";x\n;", "a\n\nb", " \t x \n", "_c.k   'v w'", "a'b\"c", "#", "x y  z",
        "loop_", "data_1", "12", "-7", "ab.cd.ef", "\r\n", "a\rb\r\nc", "  ", "A1b"]


def _sym(s, name):
    vs = [z3.Int(f"{name}{i}") for i in range(len(s))]
    return (SStr(vs) if s else ""), [v == ord(c) for v, c in zip(vs, s)]


def _norm(x, model):
    if isinstance(x, (SStr, str)):
        return concretize_str(x, model)
    if isinstance(x, (list, tuple)):
        return type(x)(_norm(y, model) for y in x)
    if isinstance(x, SInt):
        return model.eval(x.e, model_completion=True).as_long()
    return x


OPS = [
    ("strip", lambda s: s.strip()), ("lstrip", lambda s: s.lstrip()), ("rstrip", lambda s: s.rstrip()),
    ("split", lambda s: s.split()), ("split.", lambda s: s.split(".")), ("splitlines", lambda s: s.splitlines()),
    ("part", lambda s: s.partition(" ")), ("rpart", lambda s: s.rpartition(".")),
    ("find", lambda s: s.find("'")), ("rfind", lambda s: s.rfind(" ")), ("count", lambda s: s.count(" ")),
    ("starts", lambda s: s.startswith(("'", '"'))), ("ends", lambda s: s.endswith("'")),
    ("slice", lambda s: s[1:-1]), ("ljust", lambda s: s.ljust(6)), ("lower", lambda s: s.lower()),
    ("upper", lambda s: s.upper()), ("isdigit", lambda s: bool(s.isdigit()) if len(s) else False),
    ("repl", lambda s: s.replace(" ", "__")), ("eq", lambda s: bool(s == "a")), ("lstripc", lambda s: s.lstrip("_")),
    ("isupper", lambda s: bool(s.isupper()) if len(s) else False),
    ("isspace", lambda s: bool(s.isspace()) if len(s) else False),
]


def _quote_ops():
    from urllib.parse import quote, unquote
    from .pyload import sx_quote, sx_unquote
    safe = "!$&'()*+,/:;=?@[] "
    return [("quote", lambda s: sx_quote(s, safe) if not isinstance(s, str) else quote(s, safe=safe)),
            ("unquote", lambda s: sx_unquote(s) if not isinstance(s, str) else unquote(s)),
            ("unq(q)", lambda s: sx_unquote(sx_quote(s, "")) if not isinstance(s, str) else unquote(quote(s, safe="")))]


QSTRS = ["a%41b", "%", "%4", "%zz", "a;b=c", "50%", "%25", "tab\there", "%2F%2f", "a b", "%%41"]


def run():
    n = 0
    for s in QSTRS + STRS[:8]:
        for name, op in _quote_ops():
            sym, cons = _sym(s, "t")
            ex = Explorer(timeout_s=20)
            ex.base = cons
            got = []

            def on_path(val, ex):
                assert ex._check() == z3.sat
                got.append(_norm(val, ex.last_model))
            st = ex.explore(lambda: op(sym), on_path)
            want = op(s)
            if st != "exhausted" or len(got) != 1 or got[0] != want:
                raise AssertionError(f"urllib model mismatch: {name}({s!r}): real {want!r}, model {got!r} ({st})")
            n += 1
    for s in STRS:
        for name, op in OPS:
            sym, cons = _sym(s, "t")
            ex = Explorer(timeout_s=20)
            ex.base = cons
            got = []

            def on_path(val, ex):
                assert ex._check() == z3.sat
                got.append(_norm(val, ex.last_model))
            st = ex.explore(lambda: op(sym), on_path)
            want = op(s)
            if isinstance(want, tuple):
                want = tuple(want)
            if st != "exhausted" or len(got) != 1 or got[0] != want:
                raise AssertionError(f"SStr model mismatch: {name}({s!r}): str gives {want!r}, SStr gives {got!r} ({st})")
            n += 1
    return n


if __name__ == "__main__":
    print("SStr differential self-test ok:", run(), "cases")
