"""Is the compiled extension built from the .pyx text KX encodes?

The C file Cython generated next to each .pyx embeds the source lines it was generated from
(`/* "biotite/.../x.pyx":LINE` blocks whose current line is marked `# <<<<<<<<<<<<<<`).  The
functions an obligation encodes are compared line by line with those embedded lines, and the
.c / .so modification times are compared.  Result:
  fresh                  binary corresponds to the encoded source -> replay against the binary
  pyx-changed-no-cython  source was edited after the C file was generated (Cython is not installed
                         here, so the binary is stale) -> source-level replay only
  c-newer-than-so        the C file was regenerated/edited but the .so was not rebuilt
  unknown                no generated C file
"""
import os
import re

_cache = {}


def embedded_lines(c_path, pyx_rel):
    key = (c_path, os.path.getmtime(c_path))
    if key in _cache:
        return _cache[key]
    marked = {}
    cur_line = None
    block = []
    pat = re.compile(r'^\s*/\* "([^"]+\.pyx)":(\d+)\s*$')
    with open(c_path, errors="replace") as f:
        for l in f:
            m = pat.match(l)
            if m:
                cur_line = int(m.group(2)) if m.group(1).endswith(pyx_rel.split("/")[-1]) else None
                continue
            if cur_line is not None and "# <<<<<<<<<<<<<<" in l:
                text = l.split("# <<<<<<<<<<<<<<")[0]
                text = text[3:] if text.startswith(" * ") else text
                marked[cur_line] = text.rstrip()
                cur_line = None
    _cache[key] = marked
    return marked


def binary_state(pyx_path, ranges):
    """ranges: [(first_line, n_lines)] of the encoded functions"""
    base = pyx_path[:-4]
    c_path = base + ".c"
    if not os.path.exists(c_path):
        c_path = base + ".cpp"
    if not os.path.exists(c_path):
        return "unknown"
    so = [f for f in os.listdir(os.path.dirname(pyx_path)) if f.startswith(os.path.basename(base) + ".") and f.endswith(".so")]
    if not so:
        return "unknown"
    so_path = os.path.join(os.path.dirname(pyx_path), so[0])
    marked = embedded_lines(c_path, pyx_path)
    lines = open(pyx_path).read().split("\n")
    for first, n in ranges:
        for ln in range(first, first + n):
            if ln in marked:
                cur = lines[ln - 1].rstrip() if ln - 1 < len(lines) else ""
                if " ".join(cur.split()) != " ".join(marked[ln].split()):
                    return "pyx-changed-no-cython"
    if os.path.getmtime(c_path) > os.path.getmtime(so_path) + 1:
        return "c-newer-than-so"
    return "fresh"
