"""If-conversion of lowered kernels: `if` trees whose branches only assign (scalars, cells, view elements
with concrete indices) are executed on both sides and merged with ite; `if c: continue` followed by
assignments becomes a guarded remainder.  This turns the dynamic-programming kernels (27-way comparison
trees per cell) into one formula instead of 9^cells paths.  Branches that are not of this shape keep
forking."""
import ast

import z3

from ..sx.core import SBool, SInt, mkbool, tobool
from . import rt
from .rt import CInt

_UNDEF = object()


def g_and(*xs):
    if all(not isinstance(x, SBool) for x in xs):
        r = True
        for x in xs:
            r = r and bool(x)
        return r
    if any((not isinstance(x, SBool)) and not x for x in xs):
        return False
    return mkbool(z3.And(*[tobool(x) for x in xs if isinstance(x, SBool)]))


def g_or(*xs):
    if all(not isinstance(x, SBool) for x in xs):
        r = False
        for x in xs:
            r = r or bool(x)
        return r
    if any((not isinstance(x, SBool)) and x for x in xs):
        return True
    return mkbool(z3.Or(*[tobool(x) for x in xs if isinstance(x, SBool)]))


def g_not(x):
    if isinstance(x, SBool):
        return mkbool(z3.Not(x.e))
    return not x


def g_test(x):
    """truth value of a test expression without forking"""
    if isinstance(x, CInt):
        return x != 0
    return x


def _guarded(g, thunk):
    if not isinstance(g, SBool):
        return thunk()
    rt.GUARDS.append(g)
    try:
        return thunk()
    finally:
        rt.GUARDS.pop()


class guard_ctx:
    def __init__(self, g):
        self.g = g if isinstance(g, SBool) else None

    def __enter__(self):
        if self.g is not None:
            rt.GUARDS.append(self.g)

    def __exit__(self, *a):
        if self.g is not None:
            rt.GUARDS.pop()
        return False


def g_under(parent, test_thunk):
    if not isinstance(parent, SBool) and not parent:
        return False
    return _guarded(parent, test_thunk)


def ite(g, new_thunk, old_thunk):
    if not isinstance(g, SBool):
        if g:
            return new_thunk()
        try:
            return old_thunk()
        except (NameError, UnboundLocalError):
            return None
    new = _guarded(g, new_thunk)
    rt.NOCHECK += 1
    try:
        old = old_thunk()
    except (NameError, UnboundLocalError):
        old = _UNDEF
    finally:
        rt.NOCHECK -= 1
    if old is _UNDEF or old is None:
        return new          # C semantics: the variable is assigned on every path before it is read
    return rt._merge(g, new, old)


class IfConv(ast.NodeTransformer):
    def __init__(self):
        self.n = 0

    # -- helpers
    @staticmethod
    def _load(t):
        return ast.parse(ast.unparse(t), mode="eval").body

    def _test(self, e):
        if isinstance(e, ast.BoolOp):
            fn = "__g_and__" if isinstance(e.op, ast.And) else "__g_or__"
            return ast.Call(ast.Name(fn, ast.Load()), [self._test(v) for v in e.values], [])
        if isinstance(e, ast.UnaryOp) and isinstance(e.op, ast.Not):
            return ast.Call(ast.Name("__g_not__", ast.Load()), [self._test(e.operand)], [])
        return ast.Call(ast.Name("__g_test__", ast.Load()), [e], [])

    def simple(self, stmts):
        for s in stmts:
            if isinstance(s, (ast.Assign, ast.AugAssign, ast.Pass)):
                if isinstance(s, ast.Assign) and (len(s.targets) != 1 or isinstance(s.targets[0], ast.Tuple)):
                    return False
                continue
            if isinstance(s, ast.If) and self.simple(s.body) and self.simple(s.orelse):
                continue
            return False
        return True

    def conv_block(self, stmts, guard):
        out = []
        for s in stmts:
            if isinstance(s, ast.Pass):
                continue
            if isinstance(s, ast.AugAssign):
                s = ast.Assign([s.target], ast.BinOp(self._load(s.target), s.op, s.value))
            if isinstance(s, ast.Assign):
                t = s.targets[0]
                thunk = ast.Lambda(ast.arguments([], [], None, [], [], None, []), self._load(t))
                newt = ast.Lambda(ast.arguments([], [], None, [], [], None, []), s.value)
                asg = ast.Assign([t], ast.Call(ast.Name("__ite__", ast.Load()),
                                               [ast.Name(guard, ast.Load()), newt, thunk], []))
                if isinstance(t, ast.Subscript):
                    # the store itself happens under the guard (bounds obligations are guard -> in bounds)
                    asg = ast.With([ast.withitem(ast.Call(ast.Name("__guard_ctx__", ast.Load()), [ast.Name(guard, ast.Load())], []), None)], [asg])
                out.append(asg)
            elif isinstance(s, ast.If):
                out.extend(self.conv_if(s, guard))
        return out

    def conv_if(self, node, parent):
        self.n += 1
        gt, gf, tmp = f"__g{self.n}t", f"__g{self.n}f", f"__c{self.n}"
        test = self._test(node.test)
        if parent:
            # a nested test is only evaluated where its parent guard can hold (its operands may be unassigned elsewhere)
            test = ast.Call(ast.Name("__g_under__", ast.Load()),
                            [ast.Name(parent, ast.Load()), ast.Lambda(ast.arguments([], [], None, [], [], None, []), test)], [])
        pre = [ast.Assign([ast.Name(tmp, ast.Store())], test)]
        par = [ast.Name(parent, ast.Load())] if parent else []
        pre.append(ast.Assign([ast.Name(gt, ast.Store())],
                              ast.Call(ast.Name("__g_and__", ast.Load()), par + [ast.Name(tmp, ast.Load())], [])))
        pre.append(ast.Assign([ast.Name(gf, ast.Store())],
                              ast.Call(ast.Name("__g_and__", ast.Load()), par + [
                                  ast.Call(ast.Name("__g_not__", ast.Load()), [ast.Name(tmp, ast.Load())], [])], [])))
        return pre + self.conv_block(node.body, gt) + self.conv_block(node.orelse, gf)

    def _continue_pattern(self, stmts):
        body = []
        for i, s in enumerate(stmts):
            if (isinstance(s, ast.If) and len(s.body) == 1 and isinstance(s.body[0], ast.Continue)
                    and not s.orelse and self.simple(stmts[i + 1:]) and stmts[i + 1:]):
                body.append(ast.If(ast.UnaryOp(ast.Not(), s.test), stmts[i + 1:], []))
                return body
            body.append(s)
        return body

    def visit_For(self, node):
        node.body = self._continue_pattern(list(node.body))
        return self.generic_visit(node)

    def visit_If(self, node):
        if self.simple(node.body) and self.simple(node.orelse):
            return self.conv_if(node, None)
        return self.generic_visit(node)


def ifconv_pass(fn):
    return IfConv().visit(fn)


NS = dict(__guard_ctx__=guard_ctx, __g_under__=g_under, __ite__=ite, __g_and__=g_and, __g_or__=g_or, __g_not__=g_not, __g_test__=g_test)
