"""C floating point values for lowered kernels: z3 FloatingPoint terms with C semantics.

float (binary32) op float -> float, anything with a double -> double, round-to-nearest-even for arithmetic,
`<int>x` truncates toward zero (cvttss2si: out-of-range is undefined in C -> reported as Escape unless the harness
constrains the operand).  Comparisons return SBool so that kernels fork / if-convert on them like on integers."""
import z3

from ..sx.core import SBool, mkbool, Escape
from . import rt
from .rt import CInt

F32, F64 = z3.Float32(), z3.Float64()
RNE, RTZ, RTP, RTN = z3.RNE(), z3.RTZ(), z3.RTP(), z3.RTN()


def _rank(s):
    return 1 if s == F64 else 0


class CFloat:
    __slots__ = ("e", "s")

    def __init__(self, e, s=F32):
        if isinstance(e, (int, float)):
            e = z3.FPVal(e, s)
        self.e, self.s = e, s

    @staticmethod
    def sym(name, s=F32):
        return CFloat(z3.FP(name, s), s)

    @property
    def concrete(self):
        return z3.is_fp_value(self.e)

    def _lift(self, o):
        if isinstance(o, CFloat):
            return o
        if isinstance(o, CInt):
            if o.concrete:
                return CFloat(z3.FPVal(int(o.e), self.s), self.s)
            bv = o.e if isinstance(o.e, z3.BitVecRef) else z3.Int2BV(o.e, 64)
            return CFloat(z3.fpSignedToFP(RNE, bv, self.s), self.s)
        if isinstance(o, bool):
            o = int(o)
        if isinstance(o, int):
            return CFloat(z3.FPVal(o, self.s), self.s)
        if isinstance(o, float):
            return CFloat(z3.FPVal(o, F64), F64)      # a Python float / C double literal
        raise Escape(f"float arithmetic with {type(o).__name__}")

    def _pair(self, o):
        o = self._lift(o)
        s = F64 if _rank(self.s) or _rank(o.s) else F32
        return self.conv(s), o.conv(s), s

    def conv(self, s):
        if s == self.s:
            return self
        return CFloat(z3.fpFPToFP(RNE, self.e, s), s)

    def _arith(self, o, f, swap=False):
        a, b, s = self._pair(o)
        if swap:
            a, b = b, a
        return CFloat(z3.simplify(f(RNE, a.e, b.e)) if a.concrete and b.concrete else f(RNE, a.e, b.e), s)

    def __add__(self, o): return self._arith(o, z3.fpAdd)
    def __radd__(self, o): return self._arith(o, z3.fpAdd, True)
    def __sub__(self, o): return self._arith(o, z3.fpSub)
    def __rsub__(self, o): return self._arith(o, z3.fpSub, True)
    def __mul__(self, o): return self._arith(o, z3.fpMul)
    def __rmul__(self, o): return self._arith(o, z3.fpMul, True)
    def __truediv__(self, o): return self._arith(o, z3.fpDiv)
    def __rtruediv__(self, o): return self._arith(o, z3.fpDiv, True)
    def __neg__(self): return CFloat(z3.fpNeg(self.e), self.s)
    def __abs__(self): return CFloat(z3.fpAbs(self.e), self.s)

    def _cmp(self, o, f):
        a, b, _ = self._pair(o)
        r = f(a.e, b.e)
        if a.concrete and b.concrete:
            return z3.is_true(z3.simplify(r))
        return mkbool(r)

    def __lt__(self, o): return self._cmp(o, z3.fpLT)
    def __le__(self, o): return self._cmp(o, z3.fpLEQ)
    def __gt__(self, o): return self._cmp(o, z3.fpGT)
    def __ge__(self, o): return self._cmp(o, z3.fpGEQ)
    def __eq__(self, o): return self._cmp(o, z3.fpEQ)
    def __ne__(self, o):
        r = self._cmp(o, z3.fpEQ)
        return (not r) if isinstance(r, bool) else mkbool(z3.Not(r.e))
    __hash__ = None

    def __bool__(self):
        raise Escape("truth value of a symbolic float")

    # C conversions ---------------------------------------------------------------------------------
    def to_cint(self, t, mode=None):
        """(int)x: truncation toward zero; the result is a bit-vector/int term of the target type"""
        t = rt.ctype(t)
        bv = z3.fpToSBV(mode or RTZ, self.e, z3.BitVecSort(t.width)) if t.signed else z3.fpToUBV(mode or RTZ, self.e, z3.BitVecSort(t.width))
        if self.concrete:
            bv = z3.simplify(bv)
        if rt.MODE == "int":
            return CInt(z3.BV2Int(bv, t.signed) if not z3.is_bv_value(bv) else (bv.as_signed_long() if t.signed else bv.as_long()), t)
        return CInt(bv, t)

    def merged(self, c, other):
        return CFloat(z3.If(c, self.e, other.e), self.s) if self.s == other.s else None

    def min(self, o):
        a, b, s = self._pair(o)
        return CFloat(z3.fpMin(a.e, b.e), s)

    def ceil(self):
        return CFloat(z3.fpRoundToIntegral(RTP, self.e), self.s)

    def floor(self):
        return CFloat(z3.fpRoundToIntegral(RTN, self.e), self.s)

    def is_finite(self):
        return z3.And(z3.Not(z3.fpIsNaN(self.e)), z3.Not(z3.fpIsInf(self.e)))

    def value(self, model=None):
        e = self.e if model is None else model.eval(self.e, model_completion=True)
        return fp_value(e)

    def __repr__(self):
        return f"CFloat({self.e})"


def fp_value(e):
    """z3 FP numeral -> Python float (exact for binary32/binary64)"""
    e = z3.simplify(e)
    if z3.is_fp_value(e) is False and not isinstance(e, z3.FPNumRef):
        raise ValueError(f"not a numeral: {e}")
    if e.isNaN():
        return float("nan")
    if e.isInf():
        return float("-inf") if e.isNegative() else float("inf")
    if e.isZero():
        return -0.0 if e.isNegative() else 0.0
    sig = e.significand_as_long()
    ebits, sbits = e.ebits(), e.sbits()
    exp = e.exponent_as_long(biased=True)
    bias = 2 ** (ebits - 1) - 1
    if exp == 0:        # subnormal
        v = sig * 2.0 ** (1 - bias - (sbits - 1))
    else:
        v = (1 + sig / 2.0 ** (sbits - 1)) * 2.0 ** (exp - bias)
    return -v if e.isNegative() else v
