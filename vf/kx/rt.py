"""KX typed runtime: C integers of Cython kernels over z3 terms, memoryviews, C arrays.

Two back ends for C integers (chosen per obligation with `set_mode`):
  "bv"  : z3 bit-vectors, exact machine semantics (wrap, signed/unsigned compares, casts).
  "int" : z3 mathematical integers; a value is converted to its declared C type on every store
          and cast by *forking* on "fits the type" (else it is wrapped with mod 2^w), so the
          semantics stay those of two's complement while multiplication-heavy kernels stay in
          linear arithmetic.  Signed overflow *inside* one expression is not modelled (it is
          undefined behaviour in C; stated in evidence).
Concrete operands are computed concretely, which gives the "concrete mode" used for translator
validation for free.
"""
import z3

from ..sx.core import SBool, SInt, SStr, Escape, PathAbort, UnwindExceeded, cur, mkbool, _b

MODE = "bv"
UNWIND = 64
# In "int" mode values of these (narrow, flag-carrying) types stay bit-vectors, so that |, &, ~ work;
# they are converted with BV2Int (8 bits: cheap) when they meet arithmetic.
BV_TYPES_IN_INT_MODE = {"uint8"}


def set_mode(m, unwind=None):
    global MODE, UNWIND
    assert m in ("bv", "int")
    MODE = m
    if unwind is not None:
        UNWIND = unwind


class MemorySafety(Exception):
    """out-of-bounds access of a view/array whose bounds check is disabled"""


class CType:
    def __init__(self, name, width, signed, is_bool=False):
        self.name, self.width, self.signed, self.is_bool = name, width, signed, is_bool
        self.lo = -(1 << (width - 1)) if signed else 0
        self.hi = (1 << (width - 1)) - 1 if signed else (1 << width) - 1

    def __repr__(self):
        return self.name


def _t(name, w, s, **k):
    return CType(name, w, s, **k)


_BASE = {
    "char": (8, True), "signed char": (8, True), "unsigned char": (8, False),
    "short": (16, True), "unsigned short": (16, False),
    "int": (32, True), "unsigned int": (32, False), "unsigned": (32, False), "signed int": (32, True),
    "long": (64, True), "unsigned long": (64, False), "long long": (64, True), "unsigned long long": (64, False),
    "Py_ssize_t": (64, True), "size_t": (64, False), "ptrdiff_t": (64, True),
    "int8": (8, True), "int16": (16, True), "int32": (32, True), "int64": (64, True),
    "uint8": (8, False), "uint16": (16, False), "uint32": (32, False), "uint64": (64, False),
    "ptr": (64, False),
}
TYPES = {k: _t(k, *v) for k, v in _BASE.items()}
TYPES["bint"] = _t("bint", 32, True, is_bool=True)
for _n in list(TYPES):
    if _n.startswith(("int", "uint")) and _n[-1].isdigit():
        TYPES["np." + _n + "_t"] = TYPES[_n]
        TYPES[_n + "_t"] = TYPES[_n]
ALIASES = {}        # per-lowering: ctypedef / fused instantiations  name -> CType

INT = TYPES["int"]
SSIZE = TYPES["Py_ssize_t"]


def ctype(name):
    if isinstance(name, CType):
        return name
    n = " ".join(name.replace("const", " ").split())
    if n in ALIASES:
        return ALIASES[n]
    if n in TYPES:
        return TYPES[n]
    raise KeyError(f"unknown C type {name!r}")


def is_ctype(name):
    try:
        ctype(name)
        return True
    except KeyError:
        return False


def _wrap_py(v, t):
    v &= (1 << t.width) - 1
    if t.signed and v >= (1 << (t.width - 1)):
        v -= 1 << t.width
    return v


class CInt:
    """value of a C integer type; e is a python int (concrete), z3 BitVec (bv) or z3 Int (int mode)"""
    __slots__ = ("e", "t")

    def __init__(self, e, t):
        self.e, self.t = e, t

    # ------------------------------------------------------------------ construction
    @staticmethod
    def const(v, t=None):
        if t is None:
            t = INT if -(1 << 31) <= v < (1 << 31) else TYPES["long"]
        return CInt(_wrap_py(int(v), t), t)

    @staticmethod
    def sym(name, t):
        t = ctype(t)
        if MODE == "bv" or t.name in BV_TYPES_IN_INT_MODE:
            return CInt(z3.BitVec(name, t.width), t)
        return CInt(z3.Int(name), t)

    def domain(self):
        """constraints tying an int-mode variable to its type's range"""
        if MODE == "int" and isinstance(self.e, z3.ArithRef):
            return [self.e >= self.t.lo, self.e <= self.t.hi]
        return []

    @property
    def is_bv(self):
        return isinstance(self.e, z3.BitVecRef)

    def to_int_rep(self):
        """same value, mathematical-integer representation (hybrid int mode)"""
        if isinstance(self.e, z3.BitVecRef):
            return CInt(z3.BV2Int(self.e, self.t.signed), self.t)
        return self

    def to_bv_rep(self):
        if isinstance(self.e, z3.ArithRef):
            raise Escape("bit operation on a mathematical-integer value (int mode)")
        return self

    @property
    def concrete(self):
        return isinstance(self.e, int)

    # ------------------------------------------------------------------ conversions
    def conv(self, t):
        """C conversion to type t (wraps)"""
        t = ctype(t)
        if t.is_bool:
            nz = self != 0
            if isinstance(nz, bool):
                return CInt(int(nz), t)
            return CInt(_ite(nz.e, _val(1, t), _val(0, t)), t)
        if isinstance(self.e, int):
            return CInt(_wrap_py(self.e, t), t)
        if MODE == "int" and isinstance(self.e, z3.ArithRef) and t.name in BV_TYPES_IN_INT_MODE:
            # Int -> flag type: only exact small values are expected here
            if _b(z3.And(self.e >= t.lo, self.e <= t.hi)):
                return CInt(z3.Int2BV(self.e, t.width), t)
            raise Escape("wrapping store of a mathematical integer into a bit-vector typed variable")
        if MODE == "bv" or isinstance(self.e, z3.BitVecRef):
            w0, w1 = self.t.width, t.width
            if w1 == w0:
                return CInt(self.e, t)
            if w1 < w0:
                return CInt(z3.simplify(z3.Extract(w1 - 1, 0, self.e)), t)
            ext = z3.SignExt if self.t.signed else z3.ZeroExt
            return CInt(z3.simplify(ext(w1 - w0, self.e)), t)
        # int mode: fork on "fits"
        if self.t.lo >= t.lo and self.t.hi <= t.hi:
            return CInt(self.e, t)
        if _b(z3.And(self.e >= t.lo, self.e <= t.hi)):
            return CInt(self.e, t)
        m = 1 << t.width
        if t.signed:
            return CInt(z3.simplify((self.e + (m >> 1)) % m - (m >> 1)), t)
        return CInt(z3.simplify(self.e % m), t)

    def as_int_term(self):
        """exact mathematical value as z3 Int term (for assertions in int mode) or python int"""
        if isinstance(self.e, int):
            return self.e
        if MODE == "int":
            return self.e if isinstance(self.e, z3.ArithRef) else z3.BV2Int(self.e, self.t.signed)
        raise Escape("BV value used as mathematical integer (use widened bit-vector assertions)")

    def wide(self, w=64):
        """value widened to w bits (bv mode), for assertions without BV2Int"""
        if isinstance(self.e, int):
            return z3.BitVecVal(self.e, w)
        ext = z3.SignExt if self.t.signed else z3.ZeroExt
        return ext(w - self.t.width, self.e) if w > self.t.width else self.e

    # ------------------------------------------------------------------ arithmetic
    @staticmethod
    def lift(x):
        if isinstance(x, CInt):
            return x
        if isinstance(x, bool):
            return CInt(int(x), TYPES["bint"])
        if isinstance(x, int):
            return CInt.const(x)
        if isinstance(x, SBool):
            return CInt(_ite(x.e, _val(1, INT), _val(0, INT)), INT)
        return None

    @staticmethod
    def usual(a, b):
        def prom(x):
            return x.conv(INT) if x.t.width < 32 or x.t.is_bool else x
        a, b = prom(a), prom(b)
        if a.t.width == b.t.width:
            t = a.t if not a.t.signed else b.t      # unsigned wins at equal rank
            if a.t.signed and b.t.signed:
                t = a.t
        else:
            t = a.t if a.t.width > b.t.width else b.t
        return a.conv(t), b.conv(t), t

    def _arith(self, o, name, reflected=False):
        ol = CInt.lift(o)
        if ol is None:
            if isinstance(o, SInt):      # Python object arithmetic
                a = SInt.mk(self.as_int_term()) if not isinstance(self.e, int) else self.e
                f = {"add": lambda x, y: x + y, "sub": lambda x, y: x - y, "mul": lambda x, y: x * y,
                     "floordiv": lambda x, y: x // y, "mod": lambda x, y: x % y}[name]
                return f(o, a) if reflected else f(a, o)
            return NotImplemented
        a, b = (ol, self) if reflected else (self, ol)
        a, b, t = CInt.usual(a, b)
        return _binop(name, a, b, t)

    def __add__(self, o): return self._arith(o, "add")
    def __radd__(self, o): return self._arith(o, "add", True)
    def __sub__(self, o): return self._arith(o, "sub")
    def __rsub__(self, o): return self._arith(o, "sub", True)
    def __mul__(self, o): return self._arith(o, "mul")
    def __rmul__(self, o): return self._arith(o, "mul", True)
    def __floordiv__(self, o): return self._arith(o, "floordiv")
    def __rfloordiv__(self, o): return self._arith(o, "floordiv", True)
    def __mod__(self, o): return self._arith(o, "mod")
    def __rmod__(self, o): return self._arith(o, "mod", True)
    def __and__(self, o): return self._arith(o, "and")
    def __rand__(self, o): return self._arith(o, "and", True)
    def __or__(self, o): return self._arith(o, "or")
    def __ror__(self, o): return self._arith(o, "or", True)
    def __xor__(self, o): return self._arith(o, "xor")
    def __rxor__(self, o): return self._arith(o, "xor", True)
    def __lshift__(self, o): return self._arith(o, "shl")
    def __rshift__(self, o): return self._arith(o, "shr")

    def __pow__(self, o):
        ol = CInt.lift(o)
        if ol is None or not ol.concrete:
            raise Escape("symbolic exponent")
        r = CInt.const(1, self.t if self.t.width >= 32 else INT)
        for _ in range(ol.e):
            r = r * self
        return r

    def __rpow__(self, o):
        base = CInt.lift(o)
        if not self.concrete:
            raise Escape("symbolic exponent")
        r = CInt.const(1)
        for _ in range(self.e):
            r = r * base
        return r

    def __neg__(self):
        return CInt.const(0, self.t if self.t.width >= 32 else INT) - self

    def __pos__(self):
        return self

    def __invert__(self):
        return self ^ CInt.const(-1, self.t if self.t.width >= 32 else INT)

    def __abs__(self):
        neg = self < 0
        if isinstance(neg, bool):
            return -self if neg else self
        a = self.conv(self.t if self.t.width >= 32 else INT)
        return CInt(_ite(neg.e, (-a).e if not isinstance((-a).e, int) else _val((-a).e, a.t), a.e if not isinstance(a.e, int) else _val(a.e, a.t)), a.t)

    def __truediv__(self, o):
        # language_level 3: C int / C int is a double; the harness names the float domain (FLOAT_DOMAIN)
        if FLOAT_DOMAIN is None:
            raise Escape("true division of C integers (float result)")
        return FLOAT_DOMAIN(self) / FLOAT_DOMAIN(o)

    def __rtruediv__(self, o):
        if FLOAT_DOMAIN is None:
            raise Escape("true division of C integers (float result)")
        return FLOAT_DOMAIN(o) / FLOAT_DOMAIN(self)

    # ------------------------------------------------------------------ comparisons
    def _cmp(self, o, name):
        ol = CInt.lift(o)
        if ol is None:
            if isinstance(o, SInt):
                a = SInt.mk(self.as_int_term()) if not isinstance(self.e, int) else self.e
                return {"lt": a < o, "le": a <= o, "gt": a > o, "ge": a >= o, "eq": a == o, "ne": a != o}[name]
            return NotImplemented
        a, b, t = CInt.usual(self, ol)
        if isinstance(a.e, int) and isinstance(b.e, int):
            return {"lt": a.e < b.e, "le": a.e <= b.e, "gt": a.e > b.e, "ge": a.e >= b.e,
                    "eq": a.e == b.e, "ne": a.e != b.e}[name]
        if MODE == "int":
            if a.is_bv and (b.is_bv or b.concrete) or b.is_bv and a.concrete:
                x, y = _bvterm(a), _bvterm(b)
                if not t.signed:
                    r = {"lt": z3.ULT, "le": z3.ULE, "gt": z3.UGT, "ge": z3.UGE,
                         "eq": lambda p, q: p == q, "ne": lambda p, q: p != q}[name](x, y)
                else:
                    r = {"lt": x < y, "le": x <= y, "gt": x > y, "ge": x >= y, "eq": x == y, "ne": x != y}[name]
                return mkbool(r)
            a, b = a.to_int_rep(), b.to_int_rep()
        x, y = _term(a), _term(b)
        if MODE == "bv" and not t.signed:
            r = {"lt": z3.ULT, "le": z3.ULE, "gt": z3.UGT, "ge": z3.UGE,
                 "eq": lambda p, q: p == q, "ne": lambda p, q: p != q}[name](x, y)
        else:
            r = {"lt": x < y, "le": x <= y, "gt": x > y, "ge": x >= y, "eq": x == y, "ne": x != y}[name]
        return mkbool(r)

    def __lt__(self, o): return self._cmp(o, "lt")
    def __le__(self, o): return self._cmp(o, "le")
    def __gt__(self, o): return self._cmp(o, "gt")
    def __ge__(self, o): return self._cmp(o, "ge")

    def __eq__(self, o):
        r = self._cmp(o, "eq")
        return False if r is NotImplemented else r

    def __ne__(self, o):
        r = self._cmp(o, "ne")
        return True if r is NotImplemented else r

    __hash__ = None

    def __bool__(self):
        r = self != 0
        return r if isinstance(r, bool) else bool(r)

    def __index__(self):
        if isinstance(self.e, int):
            return self.e
        raise Escape("symbolic C integer used as a Python index")

    def __int__(self):
        return self.__index__()

    def __repr__(self):
        return f"CInt<{self.t.name}>({self.e})"

    def __format__(self, spec):
        if isinstance(self.e, int):
            return format(self.e, spec)
        return "<sym>"

    def __str__(self):
        return str(self.e) if isinstance(self.e, int) else "<sym>"


def _val(v, t):
    if MODE == "bv":
        return z3.BitVecVal(v, t.width)
    return z3.IntVal(v)


def _same_rep(a, b):
    """two z3 terms / ints of CInt a, b brought to one representation (for ite)"""
    if isinstance(a.e, z3.BitVecRef) or isinstance(b.e, z3.BitVecRef):
        if isinstance(a.e, z3.ArithRef) or isinstance(b.e, z3.ArithRef):
            a, b = a.to_int_rep(), b.to_int_rep()
            return _term(a), _term(b)
        return _bvterm(a), _bvterm(b)
    if MODE == "int" and isinstance(a.e, int) and isinstance(b.e, int):
        # two constants (typically flag values): keep them bit-vectors so that |, &, ~ remain available
        return _bvterm(a), _bvterm(b)
    return _term(a), _term(b)


def _term(x):
    return _val(x.e, x.t) if isinstance(x.e, int) else x.e


def _ite(c, a, b):
    return z3.simplify(z3.If(c, a, b))


CDIVISION = False


BITOPS = ("and", "or", "xor", "shl", "shr")


def _bvterm(x):
    return z3.BitVecVal(x.e, x.t.width) if isinstance(x.e, int) else x.e


def _binop(name, a, b, t):
    if MODE == "int" and not (isinstance(a.e, int) and isinstance(b.e, int)):
        if name in BITOPS:
            a, b = a.to_bv_rep(), b.to_bv_rep()
            x, y = _bvterm(a), _bvterm(b)
            r = {"and": lambda: x & y, "or": lambda: x | y, "xor": lambda: x ^ y, "shl": lambda: x << y,
                 "shr": lambda: (x >> y) if t.signed else z3.LShR(x, y)}[name]()
            return CInt(z3.simplify(r), t)
        a, b = a.to_int_rep(), b.to_int_rep()
    if isinstance(a.e, int) and isinstance(b.e, int):
        x, y = a.e, b.e
        if name in ("floordiv", "mod"):
            if y == 0:
                raise ZeroDivisionError("integer division or modulo by zero")
            if CDIVISION:
                q = abs(x) // abs(y) * (1 if (x >= 0) == (y >= 0) else -1)
                r = q if name == "floordiv" else x - q * y
            else:
                r = x // y if name == "floordiv" else x % y
        else:
            r = {"add": x + y, "sub": x - y, "mul": x * y, "and": x & y, "or": x | y, "xor": x ^ y,
                 "shl": x << y if name == "shl" else 0, "shr": x >> y if name == "shr" else 0}[name]
        return CInt(_wrap_py(r, t), t)
    x, y = _term(a), _term(b)
    if name in ("floordiv", "mod"):
        zero = b == 0
        if zero is True or (not isinstance(zero, bool) and bool(zero)):
            raise ZeroDivisionError("integer division or modulo by zero")
    if MODE == "bv":
        if name == "add":
            r = x + y
        elif name == "sub":
            r = x - y
        elif name == "mul":
            r = x * y
        elif name in ("floordiv", "mod"):
            if not t.signed:
                r = z3.UDiv(x, y) if name == "floordiv" else z3.URem(x, y)
            elif CDIVISION:
                r = x / y if name == "floordiv" else z3.SRem(x, y)
            else:
                q = x / y                     # bvsdiv truncates
                rem = z3.SRem(x, y)
                adj = z3.And(rem != 0, (rem < 0) != (y < 0))
                r = z3.If(adj, q - 1, q) if name == "floordiv" else z3.If(adj, rem + y, rem)
        elif name == "and":
            r = x & y
        elif name == "or":
            r = x | y
        elif name == "xor":
            r = x ^ y
        elif name == "shl":
            r = x << y
        elif name == "shr":
            r = (x >> y) if t.signed else z3.LShR(x, y)
        return CInt(z3.simplify(r), t)
    # int mode (exact; wrapped on store)
    if name == "add":
        r = x + y
    elif name == "sub":
        r = x - y
    elif name == "mul":
        r = x * y
    elif name == "floordiv":
        from ..sx.core import _py_floordiv
        r = _py_floordiv(x, y) if not CDIVISION else z3.If(z3.And(x % y != 0, (x < 0)), (x / y) + z3.If(y > 0, 1, -1), x / y)
    elif name == "mod":
        from ..sx.core import _py_mod
        if CDIVISION:
            q = z3.If(z3.And(x % y != 0, (x < 0)), (x / y) + z3.If(y > 0, 1, -1), x / y)
            r = x - q * y
        else:
            r = _py_mod(x, y)
    else:
        raise Escape(f"bit operation {name} in int mode")
    res = CInt(z3.simplify(r), t)
    if name in ("add", "sub", "mul") and WRAP_ARITH_IN_INT_MODE:
        # C computes in the result type: a value outside it wraps (two's complement; the extensions are built with
        # -fno-strict-overflow).  Fork on "fits" so that the wrapped value is explored where an overflow is feasible.
        if not _b(z3.And(res.e >= t.lo, res.e <= t.hi)):
            WRAPS[0] += 1
            m = 1 << t.width
            res = CInt(z3.simplify((res.e + (m >> 1)) % m - (m >> 1)) if t.signed else z3.simplify(res.e % m), t)
    return res


# ------------------------------------------------------------------------------ views
WRAPS = [0]                      # number of wrapped results on the current path (harnesses reset it)
WRAP_ARITH_IN_INT_MODE = True    # int mode: every + - * result is checked against its C type (fork on overflow)
FLOAT_DOMAIN = None      # callable turning an int / CInt into the float stand-in of the running harness (CRat, CFloat)
DEFER_SAFETY = False      # set by harnesses that run if-converted kernels and add SAFETY to their claim
NOCHECK = 0               # >0 while the old value of an if-converted assignment target is read
GUARDS = []               # symbolic guards of the if-converted branches being evaluated
SAFETY = []               # deferred obligations: guards -> index in bounds


class View:
    """typed memoryview / C array of concrete shape; elements are CInt (or any value for object views)"""

    def __init__(self, data, t, boundscheck=True, wraparound=True, name="view"):
        self.data = data                      # nested python lists
        self.t = ctype(t) if t is not None else None
        self.boundscheck, self.wraparound, self.name = boundscheck, wraparound, name

    # shape as C Py_ssize_t values (so that stores into narrow C variables wrap like in C)
    @property
    def shape(self):
        dims = []
        d = self.data
        while isinstance(d, list):
            dims.append(CInt.const(len(d), SSIZE))
            d = d[0] if d else None
        return tuple(dims)

    def __len__(self):
        return len(self.data)

    def __iter__(self):
        for x in self.data:
            yield View(x, self.t, self.boundscheck, self.wraparound, self.name) if isinstance(x, list) else x

    def _norm(self, i, n):
        """index -> list of (python index, condition) alternatives; raises on provable violation"""
        if isinstance(i, CInt) and i.concrete:
            i = i.e
        if isinstance(i, int):
            if i < 0 and self.wraparound:
                i += n
            if not 0 <= i < n:
                if self.boundscheck:
                    raise IndexError(f"index out of bounds on {self.name}")
                raise MemorySafety(f"index {i} outside [0,{n}) on {self.name} (boundscheck off)")
            return i
        if isinstance(i, SInt):
            raise Escape("python-object index into a typed view")
        # symbolic C integer
        idx = i
        if self.wraparound:
            neg = idx < 0
            if not isinstance(neg, bool) and bool(neg) or neg is True:
                idx = idx + n
        inb = (idx >= 0) & (idx < n) if not isinstance(idx >= 0, bool) else ((idx >= 0) and (idx < n))
        if DEFER_SAFETY and NOCHECK and not isinstance(inb, bool):
            return idx          # reading the previous value for an if-converted store: not an access of the program
        if DEFER_SAFETY and GUARDS and not isinstance(inb, bool):
            # if-converted code: the access only happens where the guards hold; the bounds condition becomes a proof
            # obligation of the harness (guards -> in bounds) instead of a fork
            SAFETY.append(z3.Implies(z3.And(*[g.e for g in GUARDS]), inb.e))
            return idx
        ok = inb if isinstance(inb, bool) else bool(inb)
        if not ok:
            if self.boundscheck:
                raise IndexError(f"index out of bounds on {self.name}")
            raise MemorySafety(f"symbolic index outside [0,{n}) on {self.name} (boundscheck off)")
        return idx

    def __getitem__(self, idx):
        if not isinstance(idx, tuple):
            idx = (idx,)
        d = self.data
        return self._get(d, idx)

    def _get(self, d, idx):
        if not idx:
            return View(d, self.t, self.boundscheck, self.wraparound, self.name) if isinstance(d, list) else d
        i = idx[0]
        if isinstance(i, slice):
            sub = d[i]
            if len(idx) == 1:
                return View(sub, self.t, self.boundscheck, self.wraparound, self.name)
            return View([self._get(row, idx[1:]) for row in sub], self.t, self.boundscheck, self.wraparound, self.name)
        k = self._norm(i, len(d))
        if isinstance(k, int):
            return self._get(d[k], idx[1:])
        # symbolic index: ite chain over all positions
        vals = [self._get(d[j], idx[1:]) for j in range(len(d))]
        return _select(k, vals)

    def __setitem__(self, idx, v):
        if not isinstance(idx, tuple):
            idx = (idx,)
        if hasattr(v, "data") and isinstance(getattr(v, "data"), list) and not isinstance(v, CInt):
            # memoryview row assignment `a[i] = other_view`: element-wise copy
            k = self._norm(idx[0], len(self.data)) if len(idx) == 1 and not isinstance(idx[0], slice) else None
            if isinstance(k, int) and isinstance(self.data[k], list):
                if len(self.data[k]) != len(v.data):
                    raise ValueError("memoryview assignment: shape mismatch")
                self.data[k] = [coerce(self.t, x) for x in v.data]
                return
            raise Escape("view-to-view assignment of this shape")
        if self.t is not None:
            v = coerce(self.t, v) if not isinstance(v, list) else v
        self._set(self.data, idx, v)

    def _set(self, d, idx, v):
        i = idx[0]
        if isinstance(i, slice):
            n_ = len(d)
            i = slice(concretize(i.start, range(0, n_ + UNWIND)), concretize(i.stop, range(0, n_ + UNWIND)),
                      concretize(i.step, range(1, 4)))
            if not self.boundscheck and ((i.stop is not None and i.stop > n_) or (i.start is not None and i.start > n_)):
                raise MemorySafety(f"slice {i.start}:{i.stop} outside [0,{n_}] on {self.name}")
            rng = range(*i.indices(len(d)))
            if len(idx) == 1:
                if isinstance(v, list):
                    if len(v) != len(rng):
                        raise ValueError("slice assignment length mismatch")
                    for j, x in zip(rng, v):
                        d[j] = coerce(self.t, x) if self.t is not None else x
                else:
                    for j in rng:
                        d[j] = v
            else:
                for j in rng:
                    self._set(d[j], idx[1:], v)
            return
        k = self._norm(i, len(d))
        if isinstance(k, int):
            if len(idx) == 1:
                d[k] = v
            else:
                self._set(d[k], idx[1:], v)
            return
        for j in range(len(d)):
            hit = k == j
            if len(idx) == 1:
                d[j] = _merge(hit, v, d[j])
            else:
                # nested symbolic store: fork on the row
                if bool(hit):
                    self._set(d[j], idx[1:], v)
                    return

    def tolist(self):
        return self.data


class ZArray:
    """1-D C array backed by a z3 array term (used for large tables indexed by symbolic values,
    e.g. `cdef uint8 sym_to_code[256]`); bit-vector mode only"""

    def __init__(self, n, t, boundscheck=False, wraparound=False, name="carray"):
        self.n, self.t = n, ctype(t)
        self.boundscheck, self.wraparound, self.name = boundscheck, wraparound, name
        self.arr = z3.K(z3.BitVecSort(32), z3.BitVecVal(0, self.t.width))

    @property
    def shape(self):
        return (CInt.const(self.n, SSIZE),)

    def __len__(self):
        return self.n

    def _idx(self, i):
        i = CInt.lift(i)
        if i is None:
            raise Escape("non-C index into a C array")
        inb = (i >= 0) & (i < self.n) if not isinstance(i >= 0, bool) else ((i >= 0) and (i < self.n))
        ok = inb if isinstance(inb, bool) else bool(inb)
        if not ok:
            if self.boundscheck:
                raise IndexError(f"index out of bounds on {self.name}")
            raise MemorySafety(f"index outside [0,{self.n}) on {self.name} (boundscheck off)")
        return _term(i.conv(TYPES["uint32"]))

    def __getitem__(self, i):
        if isinstance(i, slice):
            raise Escape("slice read of a z3-backed C array")
        r = z3.simplify(z3.Select(self.arr, self._idx(i)))
        if z3.is_bv_value(r):
            return CInt(_wrap_py(r.as_long(), self.t), self.t)
        return CInt(r, self.t)

    def __setitem__(self, i, v):
        if isinstance(i, slice):
            rng = range(*i.indices(self.n))
            vals = v if isinstance(v, list) else [v] * len(rng)
            if len(vals) != len(rng):
                raise ValueError("slice assignment length mismatch")
            if len(rng) == self.n and all(x is vals[0] for x in vals):
                self.arr = z3.K(z3.BitVecSort(32), _term(coerce(self.t, vals[0])))
                return
            for j, x in zip(rng, vals):
                self.arr = z3.Store(self.arr, z3.BitVecVal(j, 32), _term(coerce(self.t, x)))
            return
        self.arr = z3.Store(self.arr, self._idx(i), _term(coerce(self.t, v)))


def _select(k, vals):
    """value at symbolic index k among vals (CInt of one type)"""
    r = vals[-1]
    for j in range(len(vals) - 2, -1, -1):
        r = _merge(k == j, vals[j], r)
    return r


def _merge(cond, a, b):
    """ite on values"""
    if isinstance(cond, bool):
        return a if cond else b
    c = cond.e
    if isinstance(a, CInt) or isinstance(b, CInt):
        a, b = CInt.lift(a), CInt.lift(b)
        t = a.t
        x, y = _same_rep(a, b.conv(t))
        return CInt(_ite(c, x, y), t)
    if isinstance(a, (SInt, int)) and isinstance(b, (SInt, int)) and not isinstance(a, bool):
        return SInt.mk(z3.If(c, SInt.of(a), SInt.of(b)))
    if a is b:
        return a
    if hasattr(a, "merged") and type(a) is type(b):      # C floating point values (vf/kx/fp.py, vf/kx/rat.py)
        m = a.merged(c, b)
        if m is not None:
            return m
    # fall back to forking
    return a if bool(cond) else b


def concretize(x, candidates):
    """fork a symbolic C integer over a finite candidate list (deterministic order)"""
    if isinstance(x, CInt):
        if x.concrete:
            return x.e
        for v in candidates:
            if bool(x == v):
                return v
        raise PathAbort()
    return x


def coerce(t, v):
    """store value v into a variable / element of C type t"""
    t = ctype(t)
    if isinstance(v, CInt):
        return v.conv(t)
    if isinstance(v, bool):
        return CInt(int(v), t) if t.is_bool else CInt.const(int(v)).conv(t)
    if isinstance(v, SBool):
        return CInt.lift(v).conv(t)
    if isinstance(v, int):
        # Python object -> C: checked conversion
        if t.is_bool:
            return CInt(int(v != 0), t)
        if not t.lo <= v <= t.hi:
            raise OverflowError(f"value too large to convert to {t.name}")
        return CInt(v, t)
    if isinstance(v, SInt):
        if MODE != "int":
            raise Escape("python-object integer stored into a C variable in bv mode")
        if not _b(z3.And(v.e >= t.lo, v.e <= t.hi)):
            raise OverflowError(f"value too large to convert to {t.name}")
        return CInt(v.e, t)
    if v is None:
        return None
    raise Escape(f"cannot store {type(v).__name__} into C type {t.name}")


def crange(*a):
    """range() over C / symbolic integers with bounded unwinding"""
    vals = [x.e if isinstance(x, CInt) and x.concrete else x for x in a]
    if all(isinstance(x, int) for x in vals):
        yield from range(*vals)
        return
    if len(a) == 1:
        start, stop, step = 0, a[0], 1
    elif len(a) == 2:
        start, stop, step = a[0], a[1], 1
    else:
        start, stop, step = a
    step = step.e if isinstance(step, CInt) else step
    if not isinstance(step, int):
        raise Escape("symbolic range step")
    i = start
    n = 0
    while bool(i < stop) if step > 0 else bool(i > stop):
        yield i
        i = i + step
        n += 1
        if n > UNWIND:
            raise UnwindExceeded(f"loop exceeded the unwinding bound {UNWIND}")


def sym_view(name, shape, t, **kw):
    """view of fresh symbolic elements; returns (View, [vars as CInt], [domain constraints])"""
    t = ctype(t)
    vs, cons = [], []

    def build(dims, prefix):
        if len(dims) == 1:
            row = []
            for i in range(dims[0]):
                c = CInt.sym(f"{prefix}_{i}", t)
                vs.append(c)
                cons.extend(c.domain())
                row.append(c)
            return row
        return [build(dims[1:], f"{prefix}_{i}") for i in range(dims[0])]
    return View(build(list(shape), name), t, **kw), vs, cons


def const_view(values, t, **kw):
    t = ctype(t)

    def conv(x):
        return [conv(y) for y in x] if isinstance(x, (list, tuple)) else CInt.const(int(x), t)
    return View(conv(values), t, **kw)
