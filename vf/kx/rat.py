"""Exact rational stand-in for C floating point values: numerator = z3 Int term (or int), denominator = positive
Python int.  Used to run lowered float kernels under REAL-number semantics (no rounding): the algorithmic layer of a
float kernel is then decided in integer arithmetic, while rounding is analysed separately with vf/kx/fp.py.

Supported: + - * between values, / by a value with concrete numerator (a constant), comparisons, truncation (<int>),
ceil/floor.  Division by a symbolic value is outside this abstraction (Escape)."""
from fractions import Fraction

import z3

from ..sx.core import SBool, mkbool, Escape
from . import rt
from .rt import CInt


FLOOR_BY_FRESH_VAR = False


class CRat:
    __slots__ = ("n", "d")

    def __init__(self, n, d=1):
        if isinstance(n, float):
            f = Fraction(n)
            n, d = f.numerator, f.denominator * d
        if isinstance(n, Fraction):
            n, d = n.numerator, n.denominator * d
        if d <= 0:
            raise ValueError("denominator must be positive")
        self.n, self.d = n, d

    @property
    def concrete(self):
        return isinstance(self.n, int)

    def _lift(self, o):
        if isinstance(o, CRat):
            return o
        if isinstance(o, bool):
            o = int(o)
        if isinstance(o, (int, float, Fraction)):
            return CRat(o)
        if isinstance(o, CInt):
            return CRat(o.e if isinstance(o.e, int) else o.as_int_term())
        raise Escape(f"rational arithmetic with {type(o).__name__}")

    def __add__(self, o):
        o = self._lift(o)
        if o.d == self.d:
            return CRat(self.n + o.n, self.d)
        return CRat(self.n * o.d + o.n * self.d, self.d * o.d)
    __radd__ = __add__

    def __sub__(self, o):
        o = self._lift(o)
        if o.d == self.d:
            return CRat(self.n - o.n, self.d)
        return CRat(self.n * o.d - o.n * self.d, self.d * o.d)

    def __rsub__(self, o):
        return self._lift(o) - self

    def __mul__(self, o):
        o = self._lift(o)
        return CRat(self.n * o.n, self.d * o.d)
    __rmul__ = __mul__

    def __truediv__(self, o):
        o = self._lift(o)
        if not o.concrete:
            raise Escape("division by a symbolic value under real semantics")
        if o.n == 0:
            raise ZeroDivisionError("float division")
        if o.n < 0:
            return CRat(-self.n * o.d, self.d * -o.n)
        return CRat(self.n * o.d, self.d * o.n)

    def __rtruediv__(self, o):
        return self._lift(o) / self

    def __neg__(self):
        return CRat(-self.n, self.d)

    def _cmp(self, o, f):
        o = self._lift(o)
        a, b = (self.n, o.n) if self.d == o.d else (self.n * o.d, o.n * self.d)
        r = f(a, b)
        return r if isinstance(r, bool) else mkbool(r)

    def __lt__(self, o): return self._cmp(o, lambda a, b: a < b)
    def __le__(self, o): return self._cmp(o, lambda a, b: a <= b)
    def __gt__(self, o): return self._cmp(o, lambda a, b: a > b)
    def __ge__(self, o): return self._cmp(o, lambda a, b: a >= b)
    def __eq__(self, o): return self._cmp(o, lambda a, b: a == b)
    def __ne__(self, o): return self._cmp(o, lambda a, b: a != b)
    __hash__ = None

    def __bool__(self):
        raise Escape("truth value of a symbolic number")

    def floor_term(self):
        if self.concrete:
            return self.n // self.d
        if self.d == 1:
            return self.n
        if FLOOR_BY_FRESH_VAR:
            # k = floor(n / d) as a fresh integer with d*k <= n < d*(k+1): keeps later products free of `div`
            from ..sx.core import cur
            ex = cur()
            k = ex.fresh("floor")
            ex.add(self.d * k <= self.n, self.n < self.d * (k + 1))
            return k
        return self.n / self.d          # z3 Int division: floor for a positive divisor

    def to_cint(self, t, mode=None):
        """(int)x: truncation toward zero (value assumed to fit: the harness bounds the inputs)"""
        t = rt.ctype(t)
        if self.concrete:
            q = abs(self.n) // self.d
            return CInt(q if self.n >= 0 else -q, t)
        e = z3.If(self.n >= 0, self.n / self.d, -((-self.n) / self.d)) if self.d != 1 else self.n
        if rt.MODE == "int":
            return CInt(e, t)
        return CInt(z3.Int2BV(e, t.width), t)

    def ceil(self):
        if self.concrete:
            return CRat(-((-self.n) // self.d))
        return CRat(-((-self.n) / self.d) if self.d != 1 else self.n)

    def floor(self):
        return CRat(self.floor_term())

    def conv(self, s):
        return self

    def merged(self, c, other):
        if self.d == other.d:
            return CRat(z3.If(c, self.n, other.n), self.d)
        return CRat(z3.If(c, self.n * other.d, other.n * self.d), self.d * other.d)

    def min(self, o):
        o = self._lift(o)
        if self.d == o.d:
            if isinstance(self.n, int) and isinstance(o.n, int):
                return self if self.n <= o.n else o
            return CRat(z3.If(self.n <= o.n, self.n, o.n), self.d)
        a, b = self.n * o.d, o.n * self.d
        if isinstance(a, int) and isinstance(b, int):
            return self if a <= b else o
        return CRat(z3.If(a <= b, a, b), self.d * o.d)

    def __repr__(self):
        return f"CRat({self.n}/{self.d})"
