"""KX kernels: lowered Cython functions bound to the typed runtime, ready to be executed under the SX
explorer (symbolic mode) or on concrete values (translator validation)."""
import ast
import builtins
import os
import re

import z3

from ..common import SRC
from ..sx import pyload
from ..sx.core import SBool, SInt, SStr, Escape, cur, mkbool
from . import rt
from .lower import LoweringError, Module, lower_function
from .rt import CInt, View, coerce, ctype, is_ctype


from .fp import CFloat, F32, F64
_FLOAT_TYPES = {"float": F32, "float32": F32, "np.float32_t": F32, "double": F64, "float64": F64}


class KBytes:
    """bytes / bytearray of C unsigned chars (concrete length)"""

    def __init__(self, n_or_items=0):
        if isinstance(n_or_items, CInt) and n_or_items.concrete:
            n_or_items = n_or_items.e
        if isinstance(n_or_items, int):
            self.items = [CInt.const(0, "unsigned char" if False else rt.TYPES["unsigned char"]) for _ in range(n_or_items)]
        else:
            self.items = list(n_or_items)

    @staticmethod
    def from_codes(cs):
        t = rt.TYPES["unsigned char"]
        return KBytes([CInt(c, t) if isinstance(c, int) else CInt(c if rt.MODE == "int" else z3.Int2BV(c, 8), t) for c in cs])

    def __len__(self):
        return len(self.items)

    def decode(self, *a):
        cs = []
        for c in self.items:
            if c.concrete:
                cs.append(c.e)
            elif rt.MODE == "int":
                cs.append(c.e)
            else:
                raise Escape("decode of symbolic bit-vector bytes")
        return SStr.mk(cs)


def _sstr_encode(self, *a):
    return KBytes.from_codes(self.cs)


SStr.encode = _sstr_encode


class _MemView:
    RE = re.compile(r"^(?:const\s+)?(.+?)\s*\[\s*:\s*(?:,\s*:\s*)*(?:,\s*:\s*:\s*1\s*)?\]$")


def _viewtype(ty):
    """'const unsigned char[:]' -> ('unsigned char', ndim) or None"""
    s = " ".join(ty.split())
    m = re.match(r"^(?:const )?(.+?) ?\[ ?:(.*)\]$", s)
    if not m:
        return None
    return m.group(1).strip(), m.group(2).count(":") + 1 if m.group(2).strip() else 1


class Kernel:
    def __init__(self, rel_path, functions, fused=None, mode="bv", pxd=None, extra_ns=None, package=None,
                 unwind=64, extra_passes=None):
        """rel_path: path below src/biotite; functions: names or (cls, name) tuples"""
        self.path = os.path.join(SRC, rel_path)
        self.mod = Module(self.path, os.path.join(SRC, pxd) if pxd else None)
        self.mode, self.unwind = mode, unwind
        self.fused = dict(fused or {})
        self.meta = {}
        self.flags = {}
        ns = self.ns = {}
        ns.update(pyload.RUNTIME)
        ns.update(__arg__=self._arg, __decl__=self._decl, __cast__=self._cast, __coerce__=self._coerce,
                  __carray__=self._carray, __addr__=self._addr, __range__=rt.crange,
                  bytearray=KBytes, chr=_chr, repr=_repr, len=_len, min=_min, max=_max, abs=builtins.abs,
                  reversed=_reversed,
                  np=SymNP, cython=None, __name__="biotite." + (package or os.path.dirname(rel_path).replace("/", ".")),
                  __package__="biotite." + (package or os.path.dirname(rel_path).replace("/", ".")))
        for k, v in self.mod.constants.items():
            ns[k] = CInt.const(v)
        for en, members in self.mod.enums.items():
            ns[en] = type(en, (), {k: CInt.const(v) for k, v in members.items()})
            for k, v in members.items():
                ns.setdefault(k, CInt.const(v))
        if extra_ns:
            ns.update(extra_ns)
        for f in functions:
            cls, name = f if isinstance(f, tuple) else (None, f)
            tree, meta = lower_function(self.mod, name, cls, extra_passes=(extra_passes or {}).get(name, ()))
            self.meta[name] = meta
            self.flags[name] = dict(boundscheck=not any("boundscheck(False)" in x for x in meta["flags"]),
                                    wraparound=not any("wraparound(False)" in x for x in meta["flags"]),
                                    cdivision=any("cdivision(True)" in x for x in meta["flags"]))
            code = compile(tree, f"<lowered {rel_path}:{name}>", "exec")
            exec(code, ns)
            ns[name] = self._wrap(name, ns[name])

    # the per-function flags are dynamically scoped (set while the function runs)
    def _wrap(self, name, fn):
        flags = self.flags[name]
        kernel = self

        def call(*a, **k):
            kernel._activate()
            old = (getattr(kernel, "cur_flags", None), rt.CDIVISION)
            kernel.cur_flags = flags
            rt.CDIVISION = flags["cdivision"]
            try:
                return fn(*a, **k)
            finally:
                kernel.cur_flags, rt.CDIVISION = old
        call.__name__ = name
        return call

    def _activate(self):
        rt.set_mode(self.mode, self.unwind)
        rt.ALIASES.clear()
        for k, v in self.mod.typedefs.items():
            if is_ctype(v):
                rt.ALIASES[k] = ctype(v)
        for k, v in self.fused.items():
            rt.ALIASES[k] = ctype(v)

    def __getitem__(self, name):
        return self.ns[name]

    def functions_info(self):
        return [f"{os.path.relpath(self.path, os.path.dirname(SRC))}:{n} (lines {m['lineno']}-{m['lineno'] + m['nlines'] - 1}, sha1 {m['sha1']})"
                for n, m in self.meta.items()]

    # ------------------------------------------------------------------ runtime hooks
    def _flags(self):
        return getattr(self, "cur_flags", None) or dict(boundscheck=True, wraparound=True)

    def _typed(self, ty, v, checked):
        vt = _viewtype(ty)
        fl = self._flags()
        if vt is not None:
            et, nd = vt
            if isinstance(v, View):
                return View(v.data, ctype(et) if is_ctype(et) else v.t, fl["boundscheck"], fl["wraparound"], v.name)
            if isinstance(v, KBytes):
                return View(v.items, ctype(et), fl["boundscheck"], fl["wraparound"], "bytes")
            if isinstance(v, (bytes, builtins.bytearray)):
                return View([CInt.const(b, ctype(et)) for b in v], ctype(et), fl["boundscheck"], fl["wraparound"], "bytes")
            if isinstance(v, SymArray):
                return View(v.data, ctype(et) if is_ctype(et) else v.t, fl["boundscheck"], fl["wraparound"], "array")
            if v is None:
                return None
            raise Escape(f"cannot view {type(v).__name__} as {ty}")
        if is_ctype(ty):
            if hasattr(v, "to_cint"):
                return v.to_cint(ty)
            return coerce(ty, v) if checked or isinstance(v, (CInt, bool, SBool)) else coerce(ty, v)
        fs = _FLOAT_TYPES.get(" ".join(ty.split())) if isinstance(ty, str) else None
        if fs is not None and isinstance(v, (CFloat, CInt)):
            return v.conv(fs) if isinstance(v, CFloat) else CFloat(0, fs)._lift(v)
        return v          # object, str, bytes, list, concrete double ... : python value as is

    def _arg(self, ty, v):
        return self._typed(ty, v, True)

    def _decl(self, ty, v=None):
        if v is None:
            return None
        return self._typed(ty, v, True)

    def _coerce(self, ty, v):
        return self._typed(ty, v, True)

    def _cast(self, ty, v):
        if hasattr(v, "to_cint"):
            return self._typed(ty, v, True)
        if is_ctype(ty):
            if isinstance(v, CInt):
                return v.conv(ty)
            if isinstance(v, (int, bool)):
                return CInt.const(int(v)).conv(ty) if not (ctype(ty).lo <= int(v) <= ctype(ty).hi) else CInt(int(v), ctype(ty))
            return coerce(ty, v)
        return v

    def _carray(self, ty, n):
        n = n.e if isinstance(n, CInt) else n
        if n > 16 and rt.MODE == "bv":
            return rt.ZArray(n, ty)
        return View([CInt.const(0, ctype(ty)) for _ in range(n)], ctype(ty), False, False, "carray")

    def _addr(self, x):
        raise LoweringError("address-of expression other than a plain variable")


# ---------------------------------------------------------------------- builtins over symbols
def _reversed(x):
    return builtins.reversed(x) if hasattr(x, "__reversed__") or hasattr(x, "__len__") else iter(list(x)[::-1])


def _chr(x):
    if isinstance(x, CInt):
        if x.concrete:
            return chr(x.e)
        return "?"
    return chr(x)


def _repr(x):
    try:
        return repr(x)
    except Exception:
        return "<sym>"


def _len(x):
    return len(x)


def _min(*a, **k):
    if len(a) == 1:
        a = tuple(a[0])
    r = a[0]
    for x in a[1:]:
        r = rt._merge(x < r, x, r) if isinstance(x, (CInt, SInt)) or isinstance(r, (CInt, SInt)) else min(r, x)
    return r


def _max(*a, **k):
    if len(a) == 1:
        a = tuple(a[0])
    r = a[0]
    for x in a[1:]:
        r = rt._merge(x > r, x, r) if isinstance(x, (CInt, SInt)) or isinstance(r, (CInt, SInt)) else max(r, x)
    return r


# ---------------------------------------------------------------------------- numpy shim
class SymArray:
    """what np.empty/zeros/full return inside a kernel: nested lists of C values + dtype"""

    def __init__(self, data, t):
        self.data, self.t = data, t

    @property
    def shape(self):
        dims, d = [], self.data
        while isinstance(d, list):
            dims.append(len(d))
            d = d[0] if d else None
        return tuple(dims)

    def __len__(self):
        return len(self.data)

    def tolist(self):
        return self.data

    @property
    def dtype(self):
        return _DType(self.t.name)

    def __ne__(self, o):
        return _BoolMask([x != o for x in self.data])

    def __eq__(self, o):
        return _BoolMask([x == o for x in self.data])

    __hash__ = None

    def __getitem__(self, i):
        if isinstance(i, tuple) and len(i) == 2 and isinstance(i[0], slice) and i[0] == slice(None) and isinstance(i[1], int):
            return SymArray([row[i[1]] for row in self.data], self.t)
        if isinstance(i, _BoolMask):
            keep = []
            for row, m in zip(self.data, i.bits):
                nz = m if isinstance(m, (bool, SBool)) else (m != 0)
                if nz if isinstance(nz, bool) else bool(nz):
                    keep.append(row)
            return SymArray(keep, self.t)
        if isinstance(i, slice):
            def c(x):
                if isinstance(x, CInt):
                    if not x.concrete:
                        raise Escape("symbolic slice bound on an array")
                    return x.e
                return x
            return SymArray(self.data[slice(c(i.start), c(i.stop), c(i.step))], self.t)
        return View(self.data, self.t)[i]

    def astype(self, dtype, copy=True):
        if dtype is bool:
            return _BoolMask(self.data)
        t = ctype(dtype.name if isinstance(dtype, _DType) else (dtype.name if isinstance(dtype, rt.CType) else str(dtype)))
        return SymArray([coerce(t, x) for x in self.data], t)

    # elementwise arithmetic with numpy's same-dtype (wrapping) semantics; the other operand must be a scalar
    # of the same dtype (numpy scalar) or an array of the same dtype
    def _elem(self, o, f):
        if isinstance(o, SymArray):
            if o.t is not self.t:
                raise Escape("array arithmetic between different dtypes")
            return SymArray([coerce(self.t, f(a, b)) for a, b in zip(self.data, o.data)], self.t)
        if isinstance(o, CInt):
            if o.t is not self.t:
                raise Escape("array/scalar arithmetic between different dtypes")
            return SymArray([coerce(self.t, f(a, o)) for a in self.data], self.t)
        if isinstance(o, int) and self.t.lo <= o <= self.t.hi:
            return SymArray([coerce(self.t, f(a, CInt.const(o, self.t))) for a in self.data], self.t)
        raise Escape("unsupported array operand")

    def __sub__(self, o):
        return self._elem(o, lambda a, b: a - b)

    def __add__(self, o):
        return self._elem(o, lambda a, b: a + b)

    def __iadd__(self, o):
        r = self._elem(o, lambda a, b: a + b)
        self.data[:] = r.data
        return self


class _BoolMask:
    def __init__(self, bits):
        self.bits = bits

    def __or__(self, o):
        from .ifconv import g_or
        return _BoolMask([g_or(a, b) for a, b in zip(self.bits, o.bits)])

    def __and__(self, o):
        from .ifconv import g_and
        return _BoolMask([g_and(a, b) for a, b in zip(self.bits, o.bits)])


class _DType:
    def __init__(self, name):
        self.name = name


class _SymNP:
    int8, int16, int32, int64 = _DType("int8"), _DType("int16"), _DType("int32"), _DType("int64")
    uint8, uint16, uint32, uint64 = _DType("uint8"), _DType("uint16"), _DType("uint32"), _DType("uint64")
    ubyte = uint8
    intp = int64

    @staticmethod
    def _mk(shape, dtype, fill):
        t = ctype(dtype.name if isinstance(dtype, _DType) else str(dtype))
        if isinstance(shape, (int, CInt)):
            shape = (shape,)
        dims = []
        for s in shape:
            if isinstance(s, CInt):
                s = rt.concretize(s, range(0, rt.UNWIND + 1))
            dims.append(int(s))

        def build(ds):
            if len(ds) == 1:
                return [coerce(t, fill) for _ in range(ds[0])]
            return [build(ds[1:]) for _ in range(ds[0])]
        return SymArray(build(dims), t)

    def empty(self, shape, dtype=None):
        return self._mk(shape, dtype, 0)

    def zeros(self, shape, dtype=None):
        return self._mk(shape, dtype, 0)

    def full(self, shape, fill, dtype=None):
        return self._mk(shape, dtype, fill)

    def asarray(self, x, dtype=None):
        if isinstance(x, View):
            return SymArray(x.data, x.t)
        return x

    def diff(self, a, prepend=None):
        xs = list(a.data)
        if prepend is not None:
            xs = [coerce(a.t, prepend)] + xs
        return SymArray([coerce(a.t, xs[i + 1] - xs[i]) for i in range(len(xs) - 1)], a.t)

    def cumsum(self, a, dtype=None):
        t = a.t if dtype is None else ctype(dtype.name if isinstance(dtype, _DType) else (dtype.name if isinstance(dtype, rt.CType) else str(dtype)))
        out, acc = [], None
        for x in a.data:
            x = coerce(t, x) if isinstance(x, CInt) else coerce(t, x)
            acc = x if acc is None else coerce(t, acc + x)
            out.append(acc)
        return SymArray(out, t)

    def copy(self, a):
        import copy as _copy
        if isinstance(a, View):
            return View([list(r) if isinstance(r, list) else r for r in a.data], a.t, a.boundscheck, a.wraparound, a.name)
        return SymArray([list(r) if isinstance(r, list) else r for r in a.data], a.t)

    def iinfo(self, dtype):
        t = ctype(dtype.name if isinstance(dtype, _DType) else (dtype.name if isinstance(dtype, rt.CType) else str(dtype)))
        return type("iinfo", (), {"min": t.lo, "max": t.hi})()

    def ones(self, shape, dtype=None):
        return self._mk(shape, dtype, 1)

    def array(self, rows, dtype=None):
        t = ctype(dtype.name if isinstance(dtype, _DType) else str(dtype))
        return SymArray([[coerce(t, _plain(x)) for x in r] if isinstance(r, (list, tuple)) else coerce(t, _plain(r)) for r in rows], t)

    def append(self, a, b, axis=0):
        assert axis == 0
        return SymArray(list(a.data) + [[coerce(a.t, x) for x in row] for row in b.data], a.t)

    def delete(self, a, i, axis=0):
        assert axis == 0
        i = i.e if isinstance(i, CInt) else i
        if not isinstance(i, int):
            raise Escape("np.delete with symbolic index")
        return SymArray([r for k, r in enumerate(a.data) if k != i], a.t)

    def max(self, a, axis=None):
        xs = a.data if isinstance(a, (View, SymArray)) else list(a)
        if axis is not None:
            if axis not in (-1, 1) or not xs or not isinstance(xs[0], list):
                raise Escape("np.max over this axis")
            return SymArray([_max(*row) for row in xs], a.t)
        return _max(*xs)

    def min(self, a):
        xs = a.data if isinstance(a, (View, SymArray)) else list(a)
        return _min(*xs)


def _plain(x):
    return x


SymNP = _SymNP()
