"""KX lowering: Cython (.pyx) function text -> Python AST executable over the typed runtime.

Nothing is modelled by hand: the function body is the repository's text with the C-only syntax
rewritten token by token
    cdef T a, b = e        ->  a = __decl__('T');  b = __decl__('T', e)
    cdef T x[256]          ->  x = __carray__('T', 256)
    typed parameters       ->  p = __arg__('T', p)            (first statements of the body)
    <T>e                   ->  __cast__('T', e)
    &x                     ->  __addr__(x)
    with nogil:            ->  if True:
and three AST passes: every assignment to a declared C variable is coerced to its type,
range() becomes a bounded-unwinding range over C values, and the SX rewrite redirects str/int/
isinstance/f-string built-ins.  Functions that use constructs outside this subset raise
LoweringError (the obligation is then inconclusive, never a pass).
"""
import ast
import hashlib
import io
import re
import tokenize

from ..sx.pyload import Rewrite


class LoweringError(Exception):
    pass


BASE_TYPE_WORDS = {
    "int", "long", "short", "char", "unsigned", "signed", "float", "double", "bint", "const",
    "size_t", "Py_ssize_t", "ptrdiff_t", "object", "list", "dict", "tuple", "str", "bytes", "bytearray", "void",
    "int8", "int16", "int32", "int64", "uint8", "uint16", "uint32", "uint64", "float32", "float64", "ptr", "np",
    "bool",
}


class Module:
    """Parsed view of one .pyx (+ optional .pxd): constants, ctypedefs, fused types, enums."""

    def __init__(self, path, pxd=None):
        self.path = path
        self.text = open(path).read()
        self.lines = self.text.split("\n")
        self.typedefs = {}      # alias -> base type text
        self.fused = {}         # name -> [alternatives]
        self.constants = {}     # module-level cdef int NAME = value
        self.enums = {}         # enum name -> {member: int}
        self.type_words = set(BASE_TYPE_WORDS)
        self._scan(self.lines)
        if pxd:
            self._scan(open(pxd).read().split("\n"))

    def _scan(self, lines):
        i = 0
        while i < len(lines):
            l = lines[i]
            m = re.match(r"^ctypedef\s+fused\s+(\w+)\s*:", l)
            if m:
                alts = []
                i += 1
                while i < len(lines) and (lines[i].startswith((" ", "\t")) or not lines[i].strip()):
                    if lines[i].strip() and not lines[i].strip().startswith("#"):
                        alts.append(lines[i].strip())
                    i += 1
                self.fused[m.group(1)] = alts
                self.type_words.add(m.group(1))
                continue
            m = re.match(r"^ctypedef\s+(.+?)\s+(\w+)\s*$", l)
            if m:
                self.typedefs[m.group(2)] = m.group(1).strip()
                self.type_words.add(m.group(2))
            m = re.match(r"^cdef\s+(?:int|long|unsigned int|size_t|Py_ssize_t|u?int\d+)\s+(\w+)\s*=\s*(.+?)\s*(#.*)?$", l)
            if m:
                try:
                    self.constants[m.group(1)] = int(eval(m.group(2), {}, dict(self.constants)))
                except Exception:
                    pass
            m = re.match(r"^cdef\s+enum\s+(\w+)\s*:", l)
            if m:
                members = {}
                nxt = 0
                i += 1
                while i < len(lines) and (lines[i].startswith((" ", "\t")) or not lines[i].strip()):
                    s = lines[i].split("#")[0].strip().rstrip(",")
                    if s:
                        mm = re.match(r"(\w+)\s*(?:=\s*(.+))?$", s)
                        if mm:
                            if mm.group(2) is not None:
                                nxt = int(eval(mm.group(2), {}, dict(members)))
                            members[mm.group(1)] = nxt
                            nxt += 1
                    i += 1
                self.enums[m.group(1)] = members
                self.type_words.add(m.group(1))
                continue
            i += 1

    # ---------------------------------------------------------------------- extraction
    def extract(self, name, cls=None):
        """-> (first line no, indent, [lines]) of the def/cdef/cpdef `name` (inside class `cls` if given)"""
        pat = re.compile(r"^(\s*)(?:cdef|cpdef|def)\b[^#=\n(]*?\b" + re.escape(name) + r"\s*\(")
        lines = self.lines
        lo, hi, cind = 0, len(lines), -1
        if cls:
            cp = re.compile(r"^(\s*)(?:cdef\s+)?class\s+" + re.escape(cls) + r"\b")
            for i, l in enumerate(lines):
                m = cp.match(l)
                if m:
                    lo, cind = i + 1, len(m.group(1))
                    # decorators of the class apply to all of its methods
                    self.class_flags = []
                    q = i - 1
                    while q >= 0 and lines[q].strip().startswith("@"):
                        self.class_flags.append(lines[q].strip())
                        q -= 1
                    hi = len(lines)
                    for j in range(lo, len(lines)):
                        s = lines[j]
                        if s.strip() and not s.lstrip().startswith("#") and len(s) - len(s.lstrip()) <= cind:
                            hi = j
                            break
                    break
            else:
                raise LoweringError(f"class {cls} not found in {self.path}")
        for i in range(lo, hi):
            m = pat.match(lines[i])
            if m and (cls is None or len(m.group(1)) > cind) and (cls is not None or len(m.group(1)) == 0):
                indent = len(m.group(1))
                start = i
                while start > 0 and lines[start - 1].strip().startswith("@"):
                    start -= 1
                j = i + 1
                while j < len(lines):
                    l = lines[j]
                    if l.strip() == "" or l.lstrip().startswith("#"):
                        j += 1
                        continue
                    cur = len(l) - len(l.lstrip())
                    if cur <= indent and not _open_brackets(lines, i, j):
                        break
                    j += 1
                while j > i and not lines[j - 1].strip():
                    j -= 1
                return start + 1, indent, lines[start:j]
        raise LoweringError(f"function {name} not found in {self.path}")


def _open_brackets(lines, i, j):
    depth = 0
    for l in lines[i:j]:
        l = l.split("#")[0]
        for ch in l:
            if ch in "([{":
                depth += 1
            elif ch in ")]}":
                depth -= 1
    return depth > 0


# ------------------------------------------------------------------------ token helpers
def _toks(src):
    return [t for t in tokenize.generate_tokens(io.StringIO(src).readline)]


def _split_top(tokens, sep=","):
    parts, cur, depth = [], [], 0
    for t in tokens:
        if t.string in "([{":
            depth += 1
        elif t.string in ")]}":
            depth -= 1
        if depth == 0 and t.string == sep:
            parts.append(cur)
            cur = []
        else:
            cur.append(t)
    parts.append(cur)
    return parts


def _untok(tokens):
    return " ".join(t.string for t in tokens)


_KW = {"return", "in", "and", "or", "not", "if", "else", "is", "elif", "while", "yield", "for", "assert", "del", "raise"}


def _is_operand_end(t):
    return t is not None and ((t.type in (tokenize.NAME, tokenize.NUMBER, tokenize.STRING) and t.string not in _KW)
                              or t.string in (")", "]"))


class _Lowerer:
    def __init__(self, mod, name):
        self.mod, self.name = mod, name
        self.types = {}          # declared C variables -> type text
        self.tw = mod.type_words

    def type_tok(self, t):
        return t.string in self.tw or re.fullmatch(r"u?int\d+_t|float\d+_t", t.string) is not None

    def expr(self, tokens):
        out = []
        i, n = 0, len(tokens)
        prev = None
        while i < n:
            t = tokens[i]
            if t.string == "<" and not _is_operand_end(prev):
                j = i + 1
                ty = []
                while j < n and (self.type_tok(tokens[j]) or tokens[j].string in (".", "*", "[", "]", ":", ",")):
                    ty.append(tokens[j])
                    j += 1
                if j < n and tokens[j].string == ">" and ty:
                    operand, k = self.unary(tokens, j + 1)
                    out.append(f"__cast__({_untok(ty)!r}, {self.expr(operand)})")
                    i = k
                    prev = tokens[k - 1]
                    continue
            if t.string == "&" and not _is_operand_end(prev):
                operand, k = self.unary(tokens, i + 1)
                out.append(f"__addr__({self.expr(operand)})")
                i = k
                prev = tokens[k - 1]
                continue
            if t.type == getattr(tokenize, "FSTRING_START", -1):
                # keep f-strings verbatim (token-wise joining would change their text)
                depth, j = 0, i
                while j < n:
                    if tokens[j].type == tokenize.FSTRING_START:
                        depth += 1
                    elif tokens[j].type == tokenize.FSTRING_END:
                        depth -= 1
                        if depth == 0:
                            break
                    j += 1
                out.append(self.slice_src(tokens[i], tokens[j]))
                prev = tokens[j]
                i = j + 1
                continue
            out.append(t.string)
            prev = t
            i += 1
        return " ".join(out)

    def slice_src(self, t0, t1):
        (r0, c0), (r1, c1) = t0.start, t1.end
        L = self.src_lines
        if r0 == r1:
            return L[r0 - 1][c0:c1]
        return "\n".join([L[r0 - 1][c0:]] + L[r0:r1 - 1] + [L[r1 - 1][:c1]])

    def unary(self, tokens, i):
        n = len(tokens)
        start = i
        while i < n and tokens[i].string in ("-", "+", "~"):
            i += 1
        if i < n and tokens[i].string == "<":
            while tokens[i].string != ">":
                i += 1
            i += 1
            _, i = self.unary(tokens, i)
            return tokens[start:i], i
        if i < n and tokens[i].string in "([":
            i = _skip_group(tokens, i)
        else:
            i += 1
        while i < n and tokens[i].string in ("(", "[", "."):
            if tokens[i].string == ".":
                i += 2
            else:
                i = _skip_group(tokens, i)
        return tokens[start:i], i

    def param(self, ptoks):
        ptoks = [t for t in ptoks if t.type not in (tokenize.NL, tokenize.NEWLINE, tokenize.COMMENT, tokenize.INDENT, tokenize.DEDENT)]
        if [t.string for t in ptoks[-2:]] == ["not", "None"]:
            ptoks = ptoks[:-2]
        default = None
        parts = _split_top(ptoks, "=")
        if len(parts) == 2:
            ptoks, default = parts
        if ptoks and ptoks[0].string in ("*", "**"):
            return ptoks[0].string + ptoks[1].string, "", None
        names = [i for i, t in enumerate(ptoks) if t.type == tokenize.NAME]
        name_i = names[-1]
        name = ptoks[name_i].string
        ty = _untok(ptoks[:name_i] + ptoks[name_i + 1:])
        return name, ty, (self.expr(default) if default else None)

    def cdef(self, ltoks):
        segs = _split_top(ltoks, ",")
        first = segs[0]
        eq = _split_top(first, "=")
        lhs = eq[0]
        if lhs[-1].string == "]" and len(lhs) >= 4 and lhs[-3].string == "[" and lhs[-4].type == tokenize.NAME \
                and not self.type_tok(lhs[-4]):
            name = lhs[-4].string
            ty = _untok(lhs[:-4])
            self.types[name] = ty + "[]"
            return [f"{name} = __carray__({ty!r}, {lhs[-2].string})"]
        name_i = len(lhs) - 1
        if lhs[name_i].type != tokenize.NAME:
            raise LoweringError("unsupported cdef: " + _untok(ltoks))
        ty = _untok(lhs[:name_i])
        if "*" in ty and "[" not in ty:
            raise LoweringError("pointer declaration: " + _untok(ltoks))
        decls = [(lhs[name_i].string, eq[1] if len(eq) > 1 else None)]
        for seg in segs[1:]:
            e = _split_top(seg, "=")
            nm = [t for t in e[0] if t.type == tokenize.NAME][-1].string
            decls.append((nm, e[1] if len(e) > 1 else None))
        outs = []
        for nm, init in decls:
            self.types[nm] = ty
            outs.append(f"{nm} = __decl__({ty!r})" if init is None else f"{nm} = __decl__({ty!r}, {self.expr(init)})")
        return outs

    def lower(self):
        lineno, indent, lines = self.mod.extract(self.name, getattr(self, "cls", None))
        raw = "\n".join(lines)
        lines = [l[indent:] if l.strip() else "" for l in lines]
        flags = [l.strip() for l in lines if l.strip().startswith("@")]
        if getattr(self, "cls", None):
            flags = flags + list(getattr(self.mod, "class_flags", []))
        lines = [l for l in lines if not l.strip().startswith("@")]
        h_end = 0
        while _open_brackets(lines, 0, h_end + 1) or not lines[h_end].split("#")[0].rstrip().endswith(":"):
            h_end += 1
        header = " ".join(l.split("#")[0].strip() for l in lines[: h_end + 1])
        body = lines[h_end + 1:]
        m = re.match(r"(cdef|cpdef|def)\s+(.*?)\b" + re.escape(self.name) + r"\s*\((.*)\)\s*(.*):$", header)
        if not m:
            raise LoweringError("cannot parse header: " + header)
        kind, rettype, params, tail = m.groups()
        rettype = rettype.replace("inline", "").strip()
        self.src_lines = (params + "\n").split("\n")
        ptoks = [t for t in _toks(params + "\n") if t.type not in (tokenize.NEWLINE, tokenize.ENDMARKER, tokenize.NL)]
        plist = [self.param(p) for p in _split_top(ptoks, ",") if p]
        sig = ", ".join(n if d is None else f"{n}={d}" for n, _, d in plist)
        out = [f"def {self.name}({sig}):"]
        for n, t, _ in plist:
            if t and t not in ("object", "self") and not n.startswith("*"):
                self.types[n] = t
                out.append(f"    {n} = __arg__({t!r}, {n})")
        out.append("    pass")
        body_src = "\n".join(body) + "\n"
        self.src_lines = body_src.split("\n")
        for ind, ltoks in _logical_lines(body_src):
            if not ltoks:
                continue
            first = ltoks[0]
            if first.type == tokenize.STRING and len(ltoks) == 1:
                continue
            pad = " " * (ind + 4 - _first_indent(body_src))
            if first.string == "cdef":
                out.extend(pad + s for s in self.cdef(ltoks[1:]))
            elif first.string == "with" and [t.string for t in ltoks[1:3]] == ["nogil", ":"]:
                out.append(pad + "if True:")
            elif first.string in ("cimport",) or (first.string == "from" and any(t.string == "cimport" for t in ltoks)):
                continue
            else:
                out.append(pad + self.expr(ltoks))
        src = "\n".join(out) + "\n"
        return src, dict(kind=kind, ret=rettype, tail=tail, flags=flags, types=dict(self.types), lineno=lineno,
                         nlines=len(lines), sha1=hashlib.sha1(raw.encode()).hexdigest()[:12],
                         params=[(n, t) for n, t, _ in plist])


def _first_indent(src):
    for l in src.split("\n"):
        if l.strip() and not l.lstrip().startswith("#"):
            return len(l) - len(l.lstrip())
    return 0


def _skip_group(tokens, i):
    depth = 0
    while True:
        if tokens[i].string in "([{":
            depth += 1
        elif tokens[i].string in ")]}":
            depth -= 1
            if depth == 0:
                return i + 1
        i += 1


def _logical_lines(src):
    res, cur = [], []
    level = [0]
    for t in tokenize.generate_tokens(io.StringIO(src).readline):
        if t.type == tokenize.INDENT:
            level.append(len(t.string.expandtabs()))
            continue
        if t.type == tokenize.DEDENT:
            level.pop()
            continue
        if t.type in (tokenize.COMMENT, tokenize.NL):
            continue
        if t.type in (tokenize.NEWLINE, tokenize.ENDMARKER):
            if cur:
                res.append((level[-1], cur))
            cur = []
            continue
        cur.append(t)
    return res


# ----------------------------------------------------------------------------- AST passes
class Coerce(ast.NodeTransformer):
    """every store into a declared C variable converts to its type; range -> __range__"""

    def __init__(self, types):
        self.types = {k: v for k, v in types.items() if not v.endswith("[]")}

    def _co(self, name, value):
        return ast.Call(ast.Name("__coerce__", ast.Load()), [ast.Constant(self.types[name]), value], [])

    def visit_Assign(self, node):
        self.generic_visit(node)
        if len(node.targets) == 1 and isinstance(node.targets[0], ast.Name) and node.targets[0].id in self.types:
            v = node.value
            if isinstance(v, ast.Call) and isinstance(v.func, ast.Name) and v.func.id in ("__decl__", "__arg__", "__carray__"):
                return node
            node.value = self._co(node.targets[0].id, v)
            return node
        if len(node.targets) == 1 and isinstance(node.targets[0], ast.Tuple):
            names = [e.id for e in node.targets[0].elts if isinstance(e, ast.Name) and e.id in self.types]
            if names:
                return [node] + [ast.Assign([ast.Name(n, ast.Store())], self._co(n, ast.Name(n, ast.Load()))) for n in names]
        return node

    def visit_AugAssign(self, node):
        self.generic_visit(node)
        if isinstance(node.target, ast.Name) and node.target.id in self.types:
            n = node.target.id
            return ast.Assign([ast.Name(n, ast.Store())], self._co(n, ast.BinOp(ast.Name(n, ast.Load()), node.op, node.value)))
        return node

    def visit_For(self, node):
        self.generic_visit(node)
        names = []
        tg = node.target
        for e in (tg.elts if isinstance(tg, ast.Tuple) else [tg]):
            if isinstance(e, ast.Name) and e.id in self.types:
                names.append(e.id)
        node.body = [ast.Assign([ast.Name(n, ast.Store())], self._co(n, ast.Name(n, ast.Load()))) for n in names] + node.body
        return node

    def visit_Call(self, node):
        self.generic_visit(node)
        if isinstance(node.func, ast.Name) and node.func.id == "range":
            node.func = ast.Name("__range__", ast.Load())
        return node


class Box(ast.NodeTransformer):
    """variables whose address is taken live in a one-element cell for the whole function"""

    def __init__(self, names):
        self.names = names

    def visit_Call(self, node):
        if isinstance(node.func, ast.Name) and node.func.id == "__addr__" and isinstance(node.args[0], ast.Name) \
                and node.args[0].id in self.names:
            return ast.Name(node.args[0].id + "__cell", ast.Load())
        return self.generic_visit(node)

    def visit_Name(self, node):
        if node.id in self.names:
            return ast.Subscript(ast.Name(node.id + "__cell", ast.Load()), ast.Constant(0), node.ctx)
        return node


def lower_function(mod, name, cls=None, extra_passes=()):
    """-> (python source of the lowered function, meta)"""
    lw = _Lowerer(mod, name)
    lw.cls = cls
    src, meta = lw.lower()
    try:
        tree = ast.parse(src)
    except SyntaxError as e:
        raise LoweringError(f"{name}: lowered text is not valid Python: {e}")
    fn = tree.body[0]
    addr = {n.args[0].id for n in ast.walk(fn) if isinstance(n, ast.Call) and isinstance(n.func, ast.Name)
            and n.func.id == "__addr__" and n.args and isinstance(n.args[0], ast.Name)}
    fn = Coerce(meta["types"]).visit(fn)
    if addr:
        fn = Box(addr).visit(fn)
        fn.body = [ast.parse(f"{a}__cell = [None]").body[0] for a in sorted(addr)] + fn.body
        # parameters that are boxed need their incoming value stored in the cell
        for n, _ in meta["params"]:
            if n in addr:
                raise LoweringError("address of a parameter")
    fn = Rewrite().visit(fn)
    for p in extra_passes:
        fn = p(fn)
    tree.body[0] = fn
    ast.fix_missing_locations(tree)
    meta["python"] = ast.unparse(tree)
    meta["boxed"] = sorted(addr)
    return tree, meta
