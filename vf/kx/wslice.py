"""Symbolic evaluation of a small slice of wrapper code taken from the CURRENT .pyx source.

The Python-level wrappers around the lowered kernels (align_optimal, align_banded) compute a few scalars - notably the
'negative infinity' sentinel of the affine tables - before they call the kernel.  Harnesses used to transcribe these
formulas; a change to them was then invisible to the symbolic obligations.  This module cuts the statements that define
such a scalar out of the live function text and evaluates them over z3 integers (no forking: conditionals become ite),
so the encoding follows the source.

Supported: assignments / augmented assignments to plain names, `if` with a comparison test, conditional expressions,
+ - unary minus, comparisons, min(...) / max(...) over scalars or one tuple, tuple subscripts with constant index,
np.iinfo(np.int32).min / .max, and calls registered by the harness as opaque values (e.g. np.min(matrix.score_matrix())).
Anything else raises SliceError, which the runner reports as a machinery failure (never as a pass)."""
import ast
import os
import re
import textwrap

import z3

from ..common import REPO


class SliceError(Exception):
    pass


def function_text(pyx_rel, func):
    path = os.path.join(REPO, "src", "biotite", pyx_rel)
    lines = open(path).read().split("\n")
    start = None
    for i, l in enumerate(lines):
        if re.match(rf"^(def|cpdef|cdef)\s+.*\b{re.escape(func)}\s*\(", l):
            start = i
            break
    if start is None:
        raise SliceError(f"{func} not found in {pyx_rel}")
    end = len(lines)
    for j in range(start + 1, len(lines)):
        if re.match(r"^(def|cpdef|cdef|class|@)\b", lines[j]):
            end = j
            break
    return lines[start:end], start + 1


def cut(pyx_rel, func, first_target, names):
    """the statements from the first assignment to `first_target` onwards that only define `names` (AST statements)"""
    lines, lineno = function_text(pyx_rel, func)
    k = None
    for i, l in enumerate(lines):
        if re.match(rf"^\s*{re.escape(first_target)}\s*=", l):
            k = i
            break
    if k is None:
        raise SliceError(f"no assignment to {first_target} in {func}")
    indent = len(lines[k]) - len(lines[k].lstrip())
    block = []
    for l in lines[k:]:
        if l.strip() and (len(l) - len(l.lstrip())) < indent:
            break
        block.append(l)
    # the rest of the function may contain Cython-only syntax: grow the slice statement by statement (a statement ends
    # where the next non-blank line is back at the base indentation) and stop at the first one that defines something else
    block = [l for l in textwrap.dedent("\n".join(block)).split("\n")]
    out = []
    for end in range(1, min(len(block), 80) + 1):
        nxt = next((l for l in block[end:] if l.strip() and not l.strip().startswith("#")), None)
        if nxt is not None and nxt[0] in " \t":
            continue                      # inside an indented body
        try:
            tree = ast.parse("\n".join(block[:end]))
        except SyntaxError:
            break
        if all(_defines_only(st, set(names)) for st in tree.body):
            out = tree.body
        else:
            break
    if not out:
        raise SliceError(f"empty slice for {first_target} in {func}")
    text = "\n".join(ast.unparse(s) for s in out)
    return out, text, lineno + k


def _defines_only(st, names):
    if isinstance(st, ast.Assign):
        return all(isinstance(t, ast.Name) and t.id in names for t in st.targets)
    if isinstance(st, ast.AugAssign):
        return isinstance(st.target, ast.Name) and st.target.id in names
    if isinstance(st, ast.If):
        return all(_defines_only(s, names) for s in st.body + st.orelse)
    return False


def _ite(c, a, b):
    if isinstance(c, bool):
        return a if c else b
    return z3.If(c, _z(a), _z(b))


def _z(v):
    return z3.IntVal(v) if isinstance(v, int) and not isinstance(v, bool) else v


class Evaluator:
    def __init__(self, env, opaque):
        self.env = dict(env)
        self.opaque = dict(opaque)          # source text of a call -> value

    def run(self, stmts):
        for st in stmts:
            self.stmt(st)
        return self.env

    def stmt(self, st):
        if isinstance(st, ast.Assign):
            v = self.expr(st.value)
            for t in st.targets:
                self.env[t.id] = v
        elif isinstance(st, ast.AugAssign):
            cur = self.env[st.target.id]
            v = self.expr(st.value)
            self.env[st.target.id] = self.binop(st.op, cur, v)
        elif isinstance(st, ast.If):
            c = self.expr(st.test)
            if isinstance(c, bool):
                for s in (st.body if c else st.orelse):
                    self.stmt(s)
                return
            a, b = Evaluator(self.env, self.opaque), Evaluator(self.env, self.opaque)
            a.run(st.body)
            b.run(st.orelse)
            for name in set(a.env) | set(b.env):
                va, vb = a.env.get(name), b.env.get(name)
                if va is None or vb is None:
                    raise SliceError(f"{name} is defined on one branch only")
                self.env[name] = va if va is vb else _ite(c, va, vb)
        else:
            raise SliceError(f"statement {ast.dump(st)[:80]}")

    def binop(self, op, a, b):
        if isinstance(op, ast.Add):
            return a + b
        if isinstance(op, ast.Sub):
            return a - b
        raise SliceError(f"operator {type(op).__name__}")

    def sym_min(self, vals, want_max=False):
        r = vals[0]
        for v in vals[1:]:
            if isinstance(r, int) and isinstance(v, int):
                r = (max if want_max else min)(r, v)
            else:
                r = z3.If((_z(v) > _z(r)) if want_max else (_z(v) < _z(r)), _z(v), _z(r))
        return r

    def expr(self, e):
        text = ast.unparse(e)
        if text in self.opaque:
            return self.opaque[text]
        if isinstance(e, ast.Constant) and isinstance(e.value, (int, bool)):
            return e.value
        if isinstance(e, ast.Name):
            if e.id not in self.env:
                raise SliceError(f"name {e.id} is not provided by the harness")
            return self.env[e.id]
        if isinstance(e, ast.UnaryOp) and isinstance(e.op, ast.USub):
            return -self.expr(e.operand)
        if isinstance(e, ast.UnaryOp) and isinstance(e.op, ast.Not):
            v = self.expr(e.operand)
            return (not v) if isinstance(v, bool) else z3.Not(v)
        if isinstance(e, ast.BinOp):
            return self.binop(e.op, self.expr(e.left), self.expr(e.right))
        if isinstance(e, ast.Compare) and len(e.ops) == 1:
            a, b = self.expr(e.left), self.expr(e.comparators[0])
            op = e.ops[0]
            f = {ast.Lt: lambda: a < b, ast.LtE: lambda: a <= b, ast.Gt: lambda: a > b, ast.GtE: lambda: a >= b,
                 ast.Eq: lambda: a == b, ast.NotEq: lambda: a != b}.get(type(op))
            if f is None:
                raise SliceError(f"comparison {type(op).__name__}")
            return f()
        if isinstance(e, ast.IfExp):
            c = self.expr(e.test)
            if isinstance(c, bool):
                return self.expr(e.body if c else e.orelse)
            return _ite(c, self.expr(e.body), self.expr(e.orelse))
        if isinstance(e, ast.Subscript) and isinstance(e.slice, ast.Constant):
            v = self.expr(e.value)
            return v[e.slice.value]
        if isinstance(e, ast.Attribute) and text in ("np.iinfo(np.int32).min", "numpy.iinfo(numpy.int32).min"):
            return -(2 ** 31)
        if isinstance(e, ast.Attribute) and text in ("np.iinfo(np.int32).max", "numpy.iinfo(numpy.int32).max"):
            return 2 ** 31 - 1
        if isinstance(e, ast.Call) and isinstance(e.func, ast.Name) and e.func.id in ("min", "max") and not e.keywords:
            args = [self.expr(a) for a in e.args]
            if len(args) == 1 and isinstance(args[0], (tuple, list)):
                args = list(args[0])
            return self.sym_min(args, want_max=e.func.id == "max")
        raise SliceError(f"expression {text[:80]}")


def evaluate(pyx_rel, func, first_target, names, env, opaque, result):
    """-> (value of `result`, source text of the slice, line number)"""
    stmts, text, line = cut(pyx_rel, func, first_target, names)
    ev = Evaluator(env, opaque)
    ev.run(stmts)
    if result not in ev.env:
        raise SliceError(f"{result} not defined by the slice")
    return ev.env[result], text, line
