"""Shared paths and small helpers."""
import hashlib
import os
import sys

VERIF = os.path.dirname(os.path.dirname(os.path.abspath(__file__)))
REPO = os.environ.get("VERIF_REPO", "/repo")
SRC = os.path.join(REPO, "src", "biotite")
PY = os.path.join(VERIF, ".venv", "bin", "python")
CROSSHAIR = os.path.join(VERIF, ".venv", "bin", "crosshair")
WORK = os.path.join(VERIF, ".work")
OBL = os.path.join(VERIF, "obligations")
NPROC = int(os.environ.get("VERIF_JOBS", os.cpu_count() or 4))

# exit codes
EXIT_OK = 0
EXIT_VIOLATION = 1
EXIT_HARNESS = 3


def sha1(text):
    return hashlib.sha1(text.encode("utf-8", "replace")).hexdigest()[:12]


def child_env():
    env = dict(os.environ)
    pp = [VERIF, OBL]
    if env.get("PYTHONPATH"):
        pp.append(env["PYTHONPATH"])
    env["PYTHONPATH"] = os.pathsep.join(pp)
    env["PYTHONDONTWRITEBYTECODE"] = "1"
    env["PYTHONHASHSEED"] = "0"
    env.setdefault("OMP_NUM_THREADS", "1")
    env.setdefault("OPENBLAS_NUM_THREADS", "1")
    env.setdefault("MKL_NUM_THREADS", "1")
    return env


def log(*a):
    print(*a, file=sys.stderr, flush=True)
