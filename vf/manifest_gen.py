"""Regenerates MANIFEST.json from the table below (run: .venv/bin/python -m vf.manifest_gen)."""
import json
import os

from .common import VERIF

CLAIMED = {
    # id: (technique, level text, level_note, design_ref)
    "C13": (
        "bounded symbolic execution of annotation.py with CrossHair/z3 (positions symbolic in +-2^40), per-base reference model, reachability twins, concrete replay",
        "Bounded model checking of the real Annotation/AnnotatedSequence code: for every obligation CrossHair explores all paths of the pure-Python integer logic with symbolic positions, slice bounds, strands and defect flags and z3 shows the per-base model assertion cannot fail ('Confirmed over all paths'), or returns inputs that are replayed on the plain interpreter. Bounds: <= 2 locations / 2 features per obligation, sequence of 6 bases, sequence_start <= 2^30. E-class additions (SX case split): equality / hashing / qualifier independence of locations and features; feature indexing, assignment and reverse complement over a sequence of all 15 IUPAC letters with disjoint and nested locations.",
        "Trusted: CrossHair's int/bool/container models and z3; numpy slicing of the 6-base sequence (symbolic offsets are case-split exhaustively); the per-base model in obligations/c13_annot.py. Outside: > 2 locations per feature, > 2 features, sequences other than the fixed 6-base one and the 15-letter IUPAC one.",
        "DESIGN.md §4 C13"),
}

CLAIMED["C06"] = (
    "symbolic execution of the transformed cif.py source over symbolic characters (SX engine: fork by re-execution, z3 decides every branch and the round-trip assertion), concrete replay through the unmodified classes; mapping behaviour by solver-driven case split of op sequences",
    "Bounded model checking of the CIF text layer: the real serialize/deserialize code of CIFFile/CIFBlock/CIFCategory (AST-redirected only where CPython hard-wires str built-ins) is executed over strings whose characters are z3 variables (printable ASCII + tab + LF); for each path z3 shows the parsed table equals the written one or returns a value that is replayed on the unmodified classes. Bounds: value length <= 4 (thorough 5) single-row, <= 3 (4) in a 2x2 loop at every position, reserved words with symbolic neighbours; mapping op sequences of length 2 (3) on both flavours.",
    "Trusted: the SStr model of Python str (differentially tested against CPython on every run), z3. Stubs: CIFColumn -> value holder, 3 numpy attributes in _serialize_looped -> shim (mask convention and real numpy path covered by cif_masks and by every replay). Outside: non-ASCII, values longer than the bound, more than one awkward cell per table, tables > 2x2. Two known findings (text-field content lines starting with ';' or with '_'/'loop_'/'data_') are listed in known_findings.json.",
    "DESIGN.md §4 C06")

CLAIMED["C12"] = (
    "SX symbolic execution of the transformed GenBank-location, FASTQ and GFF3 code over symbolic positions, scores and characters (z3 decides branches and the round-trip assertion; concrete replay on the unmodified modules); edit histories of GenBankFile/FastaFile by solver-driven case split",
    "Bounded model checking: (1) GenBank location strings: format->parse identity for symbolic positions up to 10^5 (10^8) with every expressible defect/strand combination, 1-2 locations; (2) FASTQ: write->read identity with every score symbolic over the full valid range of both offsets (so '@' and '+' may start any line), wrapping 1-3/None, 2 entries, edits; (3) GFF3: one symbolic field (value/key/seqid/source, length <= 3 (4)) through percent quoting and the line parser; (4) all edit sequences of length 2 (3) on GenBankFile vs a list model incl. out-of-range indices; (5) FASTA objects/convert on a sequence menu; (6) annotations through the GenBank feature table and GFF3 (15-character keys, joins with mixed strands, every defect, qualifiers with spaces / slashes / '=' / several values / no value, annotated sequences with a sequence start, GenPept proteins with stop symbols); (7) all edit sequences of length 2 (3) on GFFFile incl. directives; FASTA headers from a menu with '>' / ';' / tabs / surrounding blanks.",
    "Trusted: SStr/SInt models (validated against CPython/urllib on every run), z3. Stubs: numpy int8<->bytes score conversion -> +-offset arithmetic; file objects -> symbolic text buffer; urllib quote/unquote -> models. Outside: the GenBank qualifier regex on symbolic text (menus only), sequences/headers beyond the menus, non-ASCII. One known finding (GFF3 trailing blank in the last column).",
    "DESIGN.md §4 C12")

CLAIMED["C20"] = (
    "bounded symbolic exploration of call sequences x environment behaviours: op-codes and the external program's behaviour (launch failure, hang, exit code, output kind and order) are z3 variables forked by the SX explorer over the unmodified application package with a stubbed Popen; oracle = documented life-cycle automaton + resource assertions",
    "Bounded model checking of the wrapper life cycle: every call sequence up to the bound over 12 API calls (incl. the output getters), for every behaviour of the external program, is executed on the real ClustalOmegaApp/MafftApp/MuscleApp/Muscle5App code (process replaced by a nondeterministic stub); after every call the state, the success/AppStateError outcome, the results, clean_up count, temp files, child process and working directory are compared with the automaton. Bounds: length 3 (ClustalOmega) / 2 (others) quick, 4 / 3 thorough; 3 input sequences; the program may fail with an error code, a signal or 255 before or after writing output, write garbage or nothing, or remove its output files; a launch may fail with OSError, ValueError or TypeError. E-class: generic polling join, > 10 sequences, user-defined alphabets.",
    "Trusted: the FakePopen stub as a model of subprocess (poll/communicate/kill/TimeoutExpired); the automaton in obligations/sx_c20.py. Outside: WebApp, real process timing races, join() without timeout on a hanging program, applications other than the four MSA wrappers, map_sequence/map_matrix.",
    "DESIGN.md §4 C20")

CLAIMED["C02"] = (
    "KX: bonds.pyx kernels lowered from the source text and executed over bit-vector C integers with z3 (full int32 x uint32 domain for the index conversion; one inductive step of each mutating kernel from an arbitrary state satisfying the representation invariant); plus solver-driven case split of operation sequences on the compiled class",
    "Bounded model checking of the real BondList code. (1) _to_positive_index for EVERY int32 index and uint32 atom count (unbounded within the machine types). (2) Inductive step: from any canonical table of <= 2 (3) bonds over 4 atoms with symbolic endpoints/types and any cached max_bonds_per_atom >= the true maximum, get_bonds / _get_max_bonds_per_atom / add_bond / remove_bond / remove_bonds_to with symbolic arguments keep every buffer access in bounds, re-establish the invariant and match the mapping model. (3) All operation sequences of length 2 (3) over 11 operations from 6 construction tables and 12 index objects on the compiled class, every view compared with the mapping model, results checked for aliasing.",
    "Trusted: the lowering + typed runtime (validated per run against the compiled module on concrete vectors while the binary is fresh), symnp shim, z3. Cython cannot be run here: a changed .pyx is checked at source level (source-level replay), a changed binary by (3). Outside: > 3 bonds / 4 atoms in (2), self-bonds, connect_via_*, find_rotatable_bonds, _remove_redundant_bonds internals (pointer arrays; covered only through (3)). Known finding: index < -atom_count.",
    "DESIGN.md §4 C02")
CLAIMED["C07"] = (
    "KX: hybrid36.pyx lowered from source and executed over a symbolic number / symbolic string with z3 (all values at widths 4 and 5); record layout and round trip by solver-driven case split on boundary menus through the real PDBFile code against a column table written from the PDB specification",
    "Bounded model checking. Hybrid-36 (S): for widths 4 and 5, decode(encode(n)) == n with correct width and alphabet for ALL n in 0..max, every int32 outside the range is refused, encode(decode(s)) == s for ALL strings over the alphabet with a leading letter. Records (E): 4 atoms, 1-2 models, boundary coordinates (+-999.999, 9999.999, values that round over the limit, NaN) at any atom/axis/model, boundary B-factors/occupancies, atom-name/element shapes, ids at wrap points and in the hybrid-36 range, charges, CONECT bonds (also between chains and with hybrid-36 serials), blank chain identifiers, all-HETATM models, box (also with full-width CRYST1 fields): every ATOM/HETATM record has 80 columns with each field in its standard column or the input is refused; reading back reproduces the input to format precision.",
    "Trusted: lowering + int-mode runtime (validated against the compiled module per run), SX string/int rendering model, numpy, z3. Outside: the float formatting of Python itself (format widths are observed on the written lines, not reasoned about symbolically), REMARK/assembly parsing, more than 4 atoms, non-increasing or negative atom ids together with CONECT records.",
    "DESIGN.md §4 C07")

CLAIMED["C03"] = (
    "KX: codec.pyx and kmeralphabet.pyx kernels lowered from source over symbolic bytes/codes (bit-vectors with a z3 array for the 256-entry table; mathematical ints for the radix arithmetic); alphabets, sequences, translation by solver-driven case split on the real classes against independent oracles (IUPAC table, NCBI table 1, ORF definition)",
    "Bounded model checking. Codec: for alphabets of <= 3 (5) symbolic distinct bytes and <= 2 (3) symbolic symbols/codes over all 256 byte values, decode(encode(s)) == s, foreign symbols and codes >= |A| raise, map_sequence_code is exact and rejects out-of-range codes. K-mers: code = radix sum incl. the rolling update, split inverts it, illegal codes raise (|A| in {2,4,5,20}, k <= 4, spaced models). E-class: 18 alphabets (incl. 256 / 257 / 65536 / 65537 symbols) x all pairs for mappers/extends/common_alphabet, symbols given as lists, tuples, iterators, generators; all nucleotide/protein sequences up to length 3 (4) vs Python strings and the IUPAC pairing; all 64 codons and all sequences start+4 (7) bases: ORFs vs definition, derived codon tables leave their parent unchanged, start codons in two frames keep proteins and positions paired, ambiguous sequences are refused by translate().",
    "Trusted: lowering + typed runtime (validated against the compiled modules per run), z3, numpy in the E-class parts. Outside: alphabets beyond the menu, sequences longer than the bound, codon tables other than the default and 2 derived ones. Known finding: KmerAlphabet.fuse accepts code == |A|.",
    "DESIGN.md §4 C03")

CLAIMED["C05"] = (
    "KX: RunLength / IntegerPacking / Delta encoders and decoders of encoding.pyx lowered from source and executed over fully symbolic fixed-width elements (bit-vectors, every fused instantiation); compression driver, chains, masks, strings and files by solver-driven case split on boundary menus through the real build",
    "Bounded model checking. For every fused integer instantiation (int8..uint32) and arrays of <= 3 (4) fully symbolic elements z3 shows decode(encode(x)) == x for run-length and delta encoding and, for |v| <= 3 (5) x max + 2, for integer packing into 1 and 2 bytes (or the encoder raised), with no out-of-bounds access. E-class: compress()/serialise/deserialise/read/write on all pairs (triples) of a 25-value integer boundary menu (each array also in its narrowest dtype), a 19-value float menu x 3 tolerances x float32/64 x 3 container levels, non-finite/overflowing floats in short and long float32/64 columns (every compress call bounded by an alarm: it must return), names beginning with underscores, masked columns read with placeholders without side effects, strings with masks, 6 explicit chains; integer casts between every pair of the six integer types at the type limits (out-of-range values are refused, never wrapped).",
    "Trusted: lowering + typed runtime + symnp shim (validated against the compiled module per run), z3, numpy/msgpack in the E-class part. Outside: floating-point fixed-point/interval-quantisation arithmetic on symbolic floats (menu values only), arrays longer than the bound, StringArrayEncoding internals symbolically. Known finding: FixedPointEncoding.encode wraps silently.",
    "DESIGN.md §4 C05")

CLAIMED["C08"] = (
    "KX: the DP kernels of pairwise.pyx/tracetable.pyx lowered from source, if-converted into one formula per table and compared by z3 with the maximum over all enumerated alignments (symbolic codes, fully symbolic matrix and gap penalties); follow_trace executed with forking on the symbolic trace table; wrapper end-to-end by solver-driven case split against brute force",
    "Bounded model checking of optimality. For every shape up to 3x2/2x3 (thorough 3x3), alphabet size 2 (3), linear and affine penalties, global / semi-global / local: the score computed by the real kernel text equals the maximum over ALL alignments of the documented model for EVERY int matrix with entries in +-2^20 and every non-positive gap penalty (open < extend included). Traceback: every alignment follow_trace emits from the symbolic trace table is valid, recomputes to that score, non-empty results are distinct and at most max_number. The affine sentinel formula is cut out of the live wrapper source. E-class: compiled align_optimal on all small inputs of a menu (asymmetric/zero/negative matrices in three memory layouts, 10 gap settings, uint8/uint16 alphabets) and on long thin tables (1x8 .. 6x2) with affine penalties.",
    "Trusted: lowering + if-conversion + typed runtime (validated per run: lowered kernels + transcribed initialisation give the compiled align_optimal's score on concrete vectors), the enumeration oracle, z3. The wrapper's table initialisation and trace post-processing are transcribed (stubs) in the KX part and exercised for real only in the E-class part (i.e. on the compiled binary). Outside: sequences longer than 3, |A| > 3, code widths 32/64, matrices beyond +-2^20.",
    "DESIGN.md §4 C08")

CLAIMED["C09"] = (
    "KX: ungapped seed-extension kernels and the banded table-fill kernels (linear and affine) lowered from source over symbolic codes, matrix, penalties and threshold (z3; int32 overflow modelled per operation); banded / gapped X-drop / ungapped wrappers by solver-driven case split against brute-force optima",
    "Bounded model checking. Seed extension (both kernel variants): for diagonals of length 0..4 (6), every matrix entry in +-2^20 and every threshold, the result equals the X-drop definition, its score is the prefix sum of the returned length, never exceeds the best prefix and reaches it when the threshold cannot bind. Banded fill (linear): every in-band cell <= the unbanded optimum for its end point and == the banded recurrence in sequence coordinates, for 2x2..3x3 tables and their bands; banded fill (affine): no cell of the three tables exceeds the largest reachable score (the sentinel never wraps) - refuted by the solver, recorded as known finding. E-class on the compiled align_local_ungapped / align_local_gapped / align_banded: every small input of the menus (shapes up to 3x3, asymmetric matrices, linear/affine gaps, every seed, thresholds 0..100, directions, every band incl. reversed and partly outside, local/semi-global): valid trace, reported == recomputed score, score_only consistency, seed/direction/band containment, <= brute-force optimum and == when the band covers the table / the threshold cannot bind.",
    "Trusted: lowering + typed runtime (validated against the compiled module per run), the brute-force oracles, z3. The table layout / initialisation of align_banded is transcribed in the harness (a change of the wrapper is seen by the E-class part only); the X-drop table kernels of localgapped.pyx are checked through the compiled binary only. Outside: sequences longer than 4, |A| > 2. Known findings: align_banded boundary gap columns; int32 overflow of the affine banded tables.",
    "DESIGN.md §4 C09")

CLAIMED["C01"] = (
    "SX: atoms.py executed from its transformed source with symbolic integer indices and slice bounds (Python-level dispatch and index arithmetic explored symbolically, concretised by forking at the numpy boundary); operation histories by solver-driven case split; list-of-atoms reference model",
    "Bounded model checking of AtomArray/AtomArrayStack: every index form (int, slice with symbolic bounds -5..5 and steps, masks, index arrays, ellipsis, all two-dimensional stack forms) on 3 atoms x 2 models with and without bonds/box gives the result of the list-of-atoms model; every operation sequence of length 2 (3) over 13 operations keeps annotation arrays, coordinates, boxes and the bond list consistent with the model (lengths/depths checked after each step), copies (array, stack, Atom) are equal and independent.",
    "Trusted: numpy's own indexing (the model resolves indices with Python list semantics), the compiled BondList, SInt model, z3. Outside: more than 3 atoms / 2 models / 3 steps, NaN coordinates, integer indices outside the valid range (not accepted by numpy).",
    "DESIGN.md §4 C01")

CLAIMED["C17"] = (
    "solver-driven case split over annotation patterns and bond graphs on the real segmentation code against a per-atom recomputation / union-find; KX: _find_connected lowered from bonds.pyx on a symbolic neighbour table (z3: visited == reachability closure)",
    "Bounded model checking. Every annotation pattern on 0..4 (5) atoms generated by the 24 possible changes per boundary: starts, counts, masks, starts-for, positions, apply (scalar / float / string / array-valued results with dtype, functions taking the axis as keyword, 2-D data without axis), spread (scalar and array-valued), iteration + concatenation, names equal the per-atom recomputation for residues and chains, independent of hetero flags; out-of-range indices are refused. Every bond graph on up to 4 (5) atoms: molecules == connected components, find_connected from every root. KX: for every symmetric neighbour table with <= 2 neighbours per atom on 2..3 (4) atoms and every root the lowered recursive search marks exactly the reachable atoms. Structures of 9000..12000 (70000) atoms with isolated atoms and long-range bonds vs union-find. Resource part: chains of 10..200000 atoms in fresh interpreters.",
    "Trusted: numpy (searchsorted, repeat ...) in the E-class parts, lowering + runtime for the KX part, z3. Outside: arrays longer than 5 atoms, neighbour tables with > 2 slots. Known finding: recursion depth of find_connected (SIGSEGV on a 200000-atom chain).",
    "DESIGN.md §4 C17")

CLAIMED["C11"] = (
    "bounded symbolic execution of the alignment text layer (cigar.py text codec over symbolic repeat counts and symbolic CIGAR text, Alignment.trace_from_strings/_gapped_str over symbolic gapped strings; real modules loaded through the SX rewrite, z3) plus solver-driven case split over traces on the real alignment / CIGAR / FASTA code and the compiled align_multiple",
    "Bounded model checking. Class S (SX engine): _cigar_from_op_tuples -> _op_tuples_from_cigar with symbolic counts 0..9999 (decimal rendering/parsing of symbolic integers) and every operation code; _op_tuples_from_cigar on every well-formed text of length <= 3 (4) over symbolic characters; trace_from_strings on EVERY gapped string set of 2x3..4(5) and 3x3(4) symbolic characters and _gapped_str as its inverse. Class E: every trace of up to 4 (5) columns over 2 sequences and 3 (4) over 3 sequences through gapped strings, code/symbol matrices, slicing, gap removal, terminal-gap detection, identity and score helpers; every pairwise trace x clipping x offset x all 16 CIGAR writer option combinations through write/read; rows over different alphabets; every identity mode of both identity functions on alignments and column slices; FASTA alignment round trip with several gap characters (tuple, list and string form) and explicit sequence types; align_multiple on all tuples of an 8-sequence menu.",
    "Trusted: numpy, the recomputation oracles in obligations/sx_c11.py, the list-backed numpy shim of the S obligations, z3. The numpy-vectorised parts (read_alignment_from_cigar / write_alignment_to_cigar proper, _aggregate_consecutive, _find_clipped_bases, the helper functions of alignment.py) and multiple.pyx are executed concretely per path (class E only). Malformed CIGAR text is outside the property. Outside: traces longer than 5 columns, multiple.pyx internals. Known finding: degenerate distance in align_multiple.",
    "DESIGN.md §4 C11")

CLAIMED["C04"] = (
    "solver-driven case split over menu-built structures through the real convert.py / cif.py / bcif.py / compress.py (write -> text/binary/compressed -> read -> field-wise comparison); the model number of get_structure is a z3 variable explored over -5..5 and None against a row-filter model",
    "Bounded model checking (thin S + E). Model/altloc selection: for files with 1..3 models every model number in -5..5 and None and every altloc policy returns exactly the matching rows, 0 and out-of-range numbers are rejected. Round trip: 2 residues x 3 atoms (also two residues of one type differing by insertion code only; three residues with the bonded ones separated by another chain) with residue types incl. hetero ligands with quote/prime atom names, 4 chain ids (multi-letter, prime), negative and large residue ids (-300 .. 128), insertion codes, optional fields incl. a free-text field with quotes/blanks and non-canonical entity ids, 8 intra- and 5 inter-residue bond types, link partners, 3 box kinds, 1-2 models; CIF, BinaryCIF and compressed BinaryCIF read back equal to the input and to each other, also through the dictionary-based struct_conn matcher. Both matcher implementations on every small table (unique match incl. row 0, no match, ambiguity). Six occupancy patterns (ties, all zero) for the occupancy altloc policy.",
    "Trusted: numpy, the synthetic CCD fixture, z3 as case-split driver (the conversion layer is numpy-vectorised: apart from the model arithmetic everything is executed concretely per path, class E). Assumptions: adjacent canonical residues carry exactly the implicit peptide bond; inter-residue bond types limited to what struct_conn expresses. Outside: real CCD content, > 6 atoms, float coordinates beyond exactly representable menu values, assemblies.",
    "DESIGN.md §4 C04")

CLAIMED["C18"] = (
    "KX-pyre: the SDF metadata key regexes are read from the live class, translated to z3 regexes and the round-trip of every admitted name is decided in z3's string theory; MOL/SDF/RDKit round trips by solver-driven case split on menus",
    "Bounded model checking. Key grammar (S): every ASCII name of length <= 6 (12) admitted by Metadata.Key serialises to a single whitespace-free token that the component grammar maps back to the same name (counterexamples are replayed through Metadata.serialize/deserialize). E-class: molecules of 1..3 atoms with boundary coordinates, charges 0..15 of both signs, every bond type the CTAB tables express, V2000/V3000/auto, MOL and multi-record SDF with header and multi-part metadata; atom/bond counts around the 999 limit (V2000 only when counts fit; fixed-width lines); RDKit bridge with 1..3 models as conformers.",
    "Trusted: pyre translation (validated against Python re per run), z3 string solver, numpy; RDKit's C++ is a black box (only the bridge's bookkeeping is exercised). Outside: molecules with more than 3 atoms except the count-limit cases, non-ASCII header/metadata text, keys with several components symbolically (covered by one concrete multi-part key).",
    "DESIGN.md §4 C18")

CLAIMED["C19"] = (
    "bounded symbolic execution of upgma.pyx / nj.pyx over exact rationals (real-number semantics) and of the Newick writer/parser of tree.pyx over symbolic label strings, lowered from the .pyx source (z3), plus solver-driven case split over the compiled phylo extensions",
    "Bounded model checking. Class S (KX engine, source level): UPGMA on EVERY symmetric matrix over n <= 4 (5) taxa with symbolic entries: each index one leaf, ultrametric, each node at half the average-linkage distance of its clusters over the original matrix, merged pair minimal; neighbour joining on EVERY additive matrix of all 4-leaf and four 5-leaf topologies with symbolic edge lengths (zero lengths = ties included): all leaf-to-leaf path lengths reproduced; TreeNode.to_newick -> from_newick with symbolic labels (every printable ASCII character the writer accepts, lengths 1..2 (3)) on 4 tree shapes with and without distances (this is where the solver found the recorded whitespace-label defect). Class E (compiled modules): 10 tree shapes x labelings through Newick (labels, digit-string labels, blanks, line breaks, tabs)/copy/as_binary/get_distance/LCA/==/hash; UPGMA and NJ on matrix menus (input matrices left unchanged), UPGMA on 300 / 600 taxa.",
    "Trusted: the plain node model standing for the compiled TreeNode/Tree in the S obligations, the rational abstraction (float32 rounding of upgma/nj is outside; the E obligations run the compiled code with a 1e-4 tolerance), the path-sum oracle, z3, the kx lowering (validated against the compiled functions on concrete matrices each run). tree.pyx distance/LCA/copy/as_binary code is checked as a compiled black box only. Outside: n > 5, label lengths > 3, non-ASCII labels, Newick strings not produced by the writer.",
    "DESIGN.md §4 C19")

CLAIMED["C10"] = (
    "bounded symbolic execution of the selector / mask / similarity kernels lowered from the .pyx source (z3, symbolic int64 sort keys, masks, score matrices) plus solver-driven case split over the compiled k-mer tables and selectors against set/loop definitions",
    "Bounded model checking. Class S (KX engine, source level): selector.pyx:_minimize with both argcummin passes (2..4 (6) k-mers, every window, symbolic int64 keys: leftmost minimum per window, duplicates handling, memory safety); kmertable.pyx:_to_kmer_mask (symbolic masks, contiguous and spaced models, reads stay inside the buffer); kmersimilarity.pyx:similar_kmers (symbolic symmetric matrices -64..64, symbolic threshold: result == brute-force set, i.e. the pruning bound is admissible); kmeralphabet.pyx k-mer decomposition (shared with C03). Class E (compiled modules): every pair of reference sequences up to the stated length x masks x bucket counts through all six builders and pickling; every query up to the stated length against a menu of references (match / match_table / match_kmer_selection, masks); ScoreThresholdRule for every threshold over a matrix menu in both table kinds, also together with an ignore mask; spacing models as strings and as position lists in any order; the four selectors with four permutations on every sequence up to the stated length; codes >= 2^32 in the bucketed table.",
    "Trusted: the set/loop models in obligations/sx_c10.py, the kx lowering (validated against the compiled module on concrete vectors each run), z3. kmertable.pyx pointer-array code (_count_kmers/_add_kmers/_append_entries/_pickle_c_arrays, C++ with raw pointers) is NOT lowered: it is covered as a compiled black box only, so an edit there is seen only after the extension is rebuilt. Outside: sequences and windows longer than the bounds, alphabets > 4 symbols (except the 200-symbol large-code obligation), float rounding of the min-code threshold (codes whose float64 image equals the threshold), hash quality of bucket_number.",
    "DESIGN.md §4 C10")

CLAIMED["C14"] = (
    "bounded symbolic execution of CellList.get_atoms / _get_cell_index / squared_distance lowered from celllist.pyx, once over exact rationals (real-number semantics, z3 integer arithmetic) and once over IEEE-754 binary32 terms (z3 QF_BVFP), plus solver-driven case split over the compiled CellList on dyadic coordinates against exact rational minimum-image distances",
    "Bounded model checking. Class S (KX engine, source level): (1) real semantics: 2-3 atoms, one query, all coordinates and the radius symbolic multiples of 1/8 in 3-D, 5-7 constant cell sizes, scalar and per-query radius: atom listed <=> distance <= radius; (2) float32 semantics on one axis with arbitrary finite values |x| <= 1024: an atom passing the source's float32 distance test and strictly inside the radius in float64 is returned (this is where the solver found the recorded cell-border rounding defect); (3) cell index inside the allocated grid for arbitrary float32 min <= x <= max. Class E (compiled module): every configuration of 1..3 atoms over a position menu x cell sizes x 6 box kinds (incl. a rotated orthorhombic one) x selections, 18 queries x 7 radii through get_atoms (index / mask, single / batch / per-query radii, non-finite positions inside a batch), create_adjacency_matrix, get_atoms_in_cells; periodic images of box.py; radii far beyond the extent.",
    "Trusted: the contract that stands for the pointer-array scan (_find_adjacent_atoms: the cells within +-cell_radius of the query's cell are visited) - that C code itself is only exercised as a compiled black box; the exact-rational oracle in obligations/sx_c14.py; z3's floating-point theory; the kx lowering (validated against the compiled module on concrete vectors each run, including the rounding counterexample). Outside: more than 3 atoms per configuration, float32 rounding in 3-D (the float obligation is one axis), periodic boxes in the S-class part, pairs within 1e-4 of the radius in periodic boxes whose fractional transformation is inexact, |x| > 1024.",
    "DESIGN.md §4 C14")

CLAIMED["C15"] = (
    "bounded symbolic execution of geometry.displacement / _displacement_orthogonal_box / _displacement_triclinic_box and the box.py fraction helpers (real modules loaded through the SX rewrite) over exact rationals and reals with z3 (linear integer and nonlinear real arithmetic)",
    "Bounded model checking of the PERIODIC clauses of the property only. Class S: for 5-6 concrete cells, displacement(0, q) for every grid point q differs from q by a lattice vector, and is the shortest image for orthorhombic cells; the triclinic kernel on EVERY real fraction vector in [0,1)^3 returns one of its eight candidates and no other image is shorter than half the smallest cell height; move_inside_box lands in [0,1) fractional and moves by lattice vectors; fraction conversion is inverse. Class E (real numpy on solver-selected concrete inputs, tolerance 2e-4): distance / angle / dihedral / displacement / index variants / centroid equal their float64 definitions and are unchanged by 25 rigid motions and by the library's own rigid motions (translate / rotate* / align_vectors / orient_principal_components), for every argument-shape combination; periodic index variants equal the coordinate functions with the same box; unit cell <-> box vectors; remove_pbc_from_coord on wrapped chains incl. stacks; remove_pbc on structures with molecules, selections and stacks.",
    "Trusted: vf/sx/rnp.py, the rational numpy stand-in (counterexamples are replayed on real numpy before they count); exact inverse for numpy.linalg.inv; z3 nlsat. Not decided SYMBOLICALLY (trigonometry, LAPACK, float rounding have no encodable arithmetic): the definitions / invariance / cell conversion / reassembly clauses are exercised on concrete menus only (class E); per-model boxes in displacement and symbolic cell vectors are not covered at all.",
    "DESIGN.md §4 C15")

CLAIMED["C16"] = (
    "bounded symbolic execution of AffineTransformation (apply / as_matrix) and of superimpose()'s centring and mask logic (superimpose.py loaded through the SX rewrite, rotation solver replaced by an arbitrary symbolic matrix) over exact rationals with z3 (polynomial identities)",
    "Bounded model checking of the ALGEBRAIC clauses of the property only. Class S: for any 3x3 matrix, translations and coordinates (symbolic rationals), apply(x) = R(x + c) + t per model, equal to the 4x4 matrix form; superimpose() with any rotation places the anchor centroid of the mobile structure on that of the fixed one, for every anchor mask of the bound, for arrays and stacks, and the returned transformation reproduces the fitted coordinates. Class E (real numpy / LAPACK on solver-selected concrete inputs): rigid copies of 7 degenerate and regular point sets under 25 rotations are fitted back with a proper orthonormal rotation and RMSD ~ 0 (off-plane atoms are not mirrored); superimpose_without_outliers returns the fit that belongs to its returned anchors (72 parameter combinations); superimpose_homologs on synthetic peptides (120 combinations of sequence edit, displaced residues, chains, stack) pairs anchor atoms of corresponding residues and returns the fit that belongs to them; apply() acts alike on integer / float arrays, stack-shaped arrays and atom arrays.",
    "Trusted: vf/sx/rnp.py, the rational numpy stand-in (counterexamples are replayed on real numpy), z3; numpy/LAPACK in the E part. NOT decided symbolically: RMSD-optimality of the rotation (LAPACK behind FFI); it is checked on the class-E menus only (rigid copies recovered, deformed copies fitted no worse than the closed-form optimum computed in float64).",
    "DESIGN.md §4 C16")

NOT_APPLICABLE = {
}

PENDING = {}


def build():
    props = [json.loads(l) for l in open(os.path.join(VERIF, "properties.jsonl"))]
    checks = []
    na = []
    for p in props:
        pid = p["id"]
        if pid in CLAIMED:
            tech, text, note, ref = CLAIMED[pid]
            checks.append(dict(
                property_id=pid,
                quick_cmd=f"./check {pid} --tier quick",
                thorough_cmd=f"./check {pid} --tier thorough",
                evidence_file=f"/verif/evidence/{pid}.json",
                replay_cmd_template="./check --replay {path}",
                engine="vf",
                level_claimed=dict(category="model_checking", text=text, design_ref=ref),
                level_note=note,
                technique=tech,
            ))
        elif pid in NOT_APPLICABLE:
            na.append(dict(property_id=pid, reason=NOT_APPLICABLE[pid]))
        else:
            na.append(dict(property_id=pid, reason=PENDING.get(pid, "check not built yet in this round (planned in DESIGN.md §4); not claimed until its obligations exist and pass their twins")))
    man = dict(
        version=1,
        setup_cmd="./setup.sh",
        hooks=dict(guard="BIOTITE_VERIF_HOOKS", enable="no hooks: harnesses construct state directly and stub only from the harness side",
                   baseline_off_cmd="cd /repo && /venv/bin/python -m pytest -ra -q -p no:cacheprovider --timeout=900 --continue-on-collection-errors",
                   source_commits=[], add_only=True),
        engines=[dict(name="vf", path="/verif/vf", serves_properties=sorted(CLAIMED),
                      kind_free_text="solver-based bounded checking of the real code: CrossHair (symbolic execution of Python with z3) harnesses + KX (Cython/Python kernel source lowered to z3 terms), reachability twins, concrete replay")],
        checks=checks,
        notes="See DESIGN.md. Exit codes: 0 ok, 1 violation (VIOLATION line), 3 machinery error.",
        not_applicable=na,
    )
    with open(os.path.join(VERIF, "MANIFEST.json"), "w") as f:
        json.dump(man, f, indent=1)
    try:
        import jsonschema
        jsonschema.validate(man, json.load(open("/root/.vp/MANIFEST.schema.json")))
        print("MANIFEST.json valid;", len(checks), "checks,", len(na), "not_applicable")
    except ImportError:
        print("jsonschema missing; not validated")


if __name__ == "__main__":
    build()
