"""Regenerates MANIFEST.json from the table below (run: .venv/bin/python -m vf.manifest_gen)."""
import json
import os

from .common import VERIF

CLAIMED = {
    # id: (technique, level text, level_note, design_ref)
    "C13": (
        "bounded symbolic execution of annotation.py with CrossHair/z3 (positions symbolic in +-2^40), per-base reference model, reachability twins, concrete replay",
        "Bounded model checking of the real Annotation/AnnotatedSequence code: for every obligation CrossHair explores all paths of the pure-Python integer logic with symbolic positions, slice bounds, strands and defect flags and z3 shows the per-base model assertion cannot fail ('Confirmed over all paths'), or returns inputs that are replayed on the plain interpreter. Bounds: <= 2 locations / 2 features per obligation, sequence of 6 bases, sequence_start <= 2^30.",
        "Trusted: CrossHair's int/bool/container models and z3; numpy slicing of the 6-base sequence (symbolic offsets are case-split exhaustively); the per-base model in obligations/c13_annot.py. Outside: > 2 locations per feature, > 2 features, sequences other than the fixed 6-base one.",
        "DESIGN.md §4 C13"),
}

CLAIMED["C06"] = (
    "symbolic execution of the transformed cif.py source over symbolic characters (SX engine: fork by re-execution, z3 decides every branch and the round-trip assertion), concrete replay through the unmodified classes; mapping behaviour by solver-driven case split of op sequences",
    "Bounded model checking of the CIF text layer: the real serialize/deserialize code of CIFFile/CIFBlock/CIFCategory (AST-redirected only where CPython hard-wires str built-ins) is executed over strings whose characters are z3 variables (printable ASCII + tab + LF); for each path z3 shows the parsed table equals the written one or returns a value that is replayed on the unmodified classes. Bounds: value length <= 4 (thorough 5) single-row, <= 3 (4) in a 2x2 loop at every position, reserved words with symbolic neighbours; mapping op sequences of length 2 (3) on both flavours.",
    "Trusted: the SStr model of Python str (differentially tested against CPython on every run), z3. Stubs: CIFColumn -> value holder, 3 numpy attributes in _serialize_looped -> shim (mask convention and real numpy path covered by cif_masks and by every replay). Outside: non-ASCII, values longer than the bound, more than one awkward cell per table, tables > 2x2. Two known findings (text-field content lines starting with ';' or with '_'/'loop_'/'data_') are listed in known_findings.json.",
    "DESIGN.md §4 C06")

CLAIMED["C12"] = (
    "SX symbolic execution of the transformed GenBank-location, FASTQ and GFF3 code over symbolic positions, scores and characters (z3 decides branches and the round-trip assertion; concrete replay on the unmodified modules); edit histories of GenBankFile/FastaFile by solver-driven case split",
    "Bounded model checking: (1) GenBank location strings: format->parse identity for symbolic positions up to 10^5 (10^8) with every expressible defect/strand combination, 1-2 locations; (2) FASTQ: write->read identity with every score symbolic over the full valid range of both offsets (so '@' and '+' may start any line), wrapping 1-3/None, 2 entries, edits; (3) GFF3: one symbolic field (value/key/seqid/source, length <= 3 (4)) through percent quoting and the line parser; (4) all edit sequences of length 2 (3) on GenBankFile vs a list model incl. out-of-range indices; (5) FASTA objects/convert on a sequence menu.",
    "Trusted: SStr/SInt models (validated against CPython/urllib on every run), z3. Stubs: numpy int8<->bytes score conversion -> +-offset arithmetic; file objects -> symbolic text buffer; urllib quote/unquote -> models. Outside: GenBank qualifier regex and ORIGIN formatting, GenPept, sequences/headers beyond the menus, non-ASCII. One known finding (GFF3 trailing blank in the last column).",
    "DESIGN.md §4 C12")

CLAIMED["C20"] = (
    "bounded symbolic exploration of call sequences x environment behaviours: op-codes and the external program's behaviour (launch failure, hang, exit code, output kind and order) are z3 variables forked by the SX explorer over the unmodified application package with a stubbed Popen; oracle = documented life-cycle automaton + resource assertions",
    "Bounded model checking of the wrapper life cycle: every call sequence up to the bound over 10 API calls, for every behaviour of the external program, is executed on the real ClustalOmegaApp/MafftApp/MuscleApp/Muscle5App code (process replaced by a nondeterministic stub); after every call the state, the success/AppStateError outcome, the results, clean_up count, temp files, child process and working directory are compared with the automaton. Bounds: length 3 (ClustalOmega) / 2 (others) quick, 4 thorough; 3 input sequences.",
    "Trusted: the FakePopen stub as a model of subprocess (poll/communicate/kill/TimeoutExpired); the automaton in obligations/sx_c20.py. Outside: WebApp, real process timing races, join() without timeout on a hanging program, applications other than the four MSA wrappers, map_sequence/map_matrix.",
    "DESIGN.md §4 C20")

CLAIMED["C02"] = (
    "KX: bonds.pyx kernels lowered from the source text and executed over bit-vector C integers with z3 (full int32 x uint32 domain for the index conversion; one inductive step of each mutating kernel from an arbitrary state satisfying the representation invariant); plus solver-driven case split of operation sequences on the compiled class",
    "Bounded model checking of the real BondList code. (1) _to_positive_index for EVERY int32 index and uint32 atom count (unbounded within the machine types). (2) Inductive step: from any canonical table of <= 2 (3) bonds over 4 atoms with symbolic endpoints/types and any cached max_bonds_per_atom >= the true maximum, get_bonds / _get_max_bonds_per_atom / add_bond / remove_bond / remove_bonds_to with symbolic arguments keep every buffer access in bounds, re-establish the invariant and match the mapping model. (3) All operation sequences of length 2 (3) over 11 operations from 6 construction tables and 12 index objects on the compiled class, every view compared with the mapping model, results checked for aliasing.",
    "Trusted: the lowering + typed runtime (validated per run against the compiled module on concrete vectors while the binary is fresh), symnp shim, z3. Cython cannot be run here: a changed .pyx is checked at source level (source-level replay), a changed binary by (3). Outside: > 3 bonds / 4 atoms in (2), self-bonds, connect_via_*, find_rotatable_bonds, _remove_redundant_bonds internals (pointer arrays; covered only through (3)). Known finding: index < -atom_count.",
    "DESIGN.md §4 C02")
CLAIMED["C07"] = (
    "KX: hybrid36.pyx lowered from source and executed over a symbolic number / symbolic string with z3 (all values at widths 4 and 5); record layout and round trip by solver-driven case split on boundary menus through the real PDBFile code against a column table written from the PDB specification",
    "Bounded model checking. Hybrid-36 (S): for widths 4 and 5, decode(encode(n)) == n with correct width and alphabet for ALL n in 0..max, every int32 outside the range is refused, encode(decode(s)) == s for ALL strings over the alphabet with a leading letter. Records (E): 4 atoms, 1-2 models, boundary coordinates (+-999.999, 9999.999, values that round over the limit, NaN) at any atom/axis/model, boundary B-factors/occupancies, atom-name/element shapes, ids at wrap points and in the hybrid-36 range, charges, CONECT bonds, box: every ATOM/HETATM record has 80 columns with each field in its standard column or the input is refused; reading back reproduces the input to format precision.",
    "Trusted: lowering + int-mode runtime (validated against the compiled module per run), SX string/int rendering model, numpy, z3. Outside: the float formatting of Python itself (format widths are observed on the written lines, not reasoned about symbolically), REMARK/assembly parsing, more than 4 atoms, non-increasing or negative atom ids together with CONECT records.",
    "DESIGN.md §4 C07")

NOT_APPLICABLE = {
    "C15": "float results of numpy/LAPACK (linalg solves, trigonometry, argmin over float images): no integer/string logic in front of the C boundary that a solver could reason about; an abstraction over the reals would verify a model of numpy, not the code (DESIGN §6)",
    "C16": "optimality/properness come from np.linalg.svd/det (LAPACK behind FFI) on float32 data; no encodable source; z3 terms cannot pass astype(float32) (DESIGN §6)",
}

PENDING = {}


def build():
    props = [json.loads(l) for l in open(os.path.join(VERIF, "properties.jsonl"))]
    checks = []
    na = []
    for p in props:
        pid = p["id"]
        if pid in CLAIMED:
            tech, text, note, ref = CLAIMED[pid]
            checks.append(dict(
                property_id=pid,
                quick_cmd=f"./check {pid} --tier quick",
                thorough_cmd=f"./check {pid} --tier thorough",
                evidence_file=f"/verif/evidence/{pid}.json",
                replay_cmd_template="./check --replay {path}",
                engine="vf",
                level_claimed=dict(category="model_checking", text=text, design_ref=ref),
                level_note=note,
                technique=tech,
            ))
        elif pid in NOT_APPLICABLE:
            na.append(dict(property_id=pid, reason=NOT_APPLICABLE[pid]))
        else:
            na.append(dict(property_id=pid, reason=PENDING.get(pid, "check not built yet in this round (planned in DESIGN.md §4); not claimed until its obligations exist and pass their twins")))
    man = dict(
        version=1,
        setup_cmd="./setup.sh",
        hooks=dict(guard="BIOTITE_VERIF_HOOKS", enable="no hooks: harnesses construct state directly and stub only from the harness side",
                   baseline_off_cmd="cd /repo && /venv/bin/python -m pytest -ra -q -p no:cacheprovider --timeout=900 --continue-on-collection-errors",
                   source_commits=[], add_only=True),
        engines=[dict(name="vf", path="/verif/vf", serves_properties=sorted(CLAIMED),
                      kind_free_text="solver-based bounded checking of the real code: CrossHair (symbolic execution of Python with z3) harnesses + KX (Cython/Python kernel source lowered to z3 terms), reachability twins, concrete replay")],
        checks=checks,
        notes="See DESIGN.md. Exit codes: 0 ok, 1 violation (VIOLATION line), 3 machinery error.",
        not_applicable=na,
    )
    with open(os.path.join(VERIF, "MANIFEST.json"), "w") as f:
        json.dump(man, f, indent=1)
    try:
        import jsonschema
        jsonschema.validate(man, json.load(open("/root/.vp/MANIFEST.schema.json")))
        print("MANIFEST.json valid;", len(checks), "checks,", len(na), "not_applicable")
    except ImportError:
        print("jsonschema missing; not validated")


if __name__ == "__main__":
    build()
