"""Regenerates the generated part of DESIGN.md (between the GENERATED markers) from the obligation specs, the
known-findings file and the seeded changes, so that the tables cannot drift from what the checks do.

    .venv/bin/python -m vf.design_gen
"""
import glob
import importlib
import json
import os
import sys

from .common import VERIF

BEGIN, END = "<!-- BEGIN GENERATED (vf/design_gen.py) -->", "<!-- END GENERATED -->"


def spec(prop):
    sys.path.insert(0, os.path.join(VERIF, "obligations"))
    try:
        return importlib.import_module(f"spec_{prop}")
    except ModuleNotFoundError:
        return None


def main():
    known = json.load(open(os.path.join(VERIF, "known_findings.json")))
    props = [json.loads(l) for l in open(os.path.join(VERIF, "properties.jsonl"))]
    out = [BEGIN, ""]
    out.append("### A.1 Obligations per property (from `obligations/spec_Cxx.py`)\n")
    for p in props:
        pid = p["id"]
        m = spec(pid)
        out.append(f"**{pid} — {p['title']}**\n")
        if m is None:
            out.append("not claimed (see §6).\n")
            continue
        out.append("| obligation | class | engine | encoded / exercised functions | bound (quick; thorough in brackets) |")
        out.append("|---|---|---|---|---|")
        for ob in m.OBLIGATIONS:
            cls = getattr(ob, "cls", "S")
            eng = getattr(ob, "engine", "CH")
            fn = "<br>".join(x.replace("|", "\\|") for x in getattr(ob, "functions", []))
            b = (getattr(ob, "bounds", "") or "").replace("|", "\\|").replace("\n", " ")
            tiers = getattr(ob, "tiers", ("quick", "thorough"))
            if tuple(tiers) != ("quick", "thorough"):
                b += f" [tiers: {', '.join(tiers)}]"
            out.append(f"| `{ob.name}` | {cls} | {eng} | {fn} | {b} |")
        stubs = []
        for ob in m.OBLIGATIONS:
            for s_ in getattr(ob, "stubs", []) or []:
                if s_ not in stubs:
                    stubs.append(s_)
        if stubs:
            out.append("\nStubs / modelling assumptions: " + "; ".join(stubs) + ".")
        for a in getattr(m, "ASSUMPTIONS", []) or []:
            out.append(f"\nAssumption: {a}.")
        out.append("")
    out.append("### A.2 Known findings (genuine defects recorded, not repaired: `.pyx` sources cannot be compiled here)\n")
    out.append("| id | where | what fails | proposed patch |")
    out.append("|---|---|---|---|")
    for k in known["known"]:
        out.append(f"| {k['id']} | {k.get('where', '')} | {k['what'].replace('|', chr(92) + '|')} | {k.get('patch', '-')} |")
    out.append("\n### A.3 Repaired defects (`fix:` commits in /repo, all found by the checks below)\n")
    for f in known["fixed"]:
        out.append(f"* {f[len('fixed: '):] if f.startswith('fixed: ') else f}")
    out.append("\n### A.4 Seeded changes and the checks that catch them\n")
    out.append("Every change below compiles, passes the existing tests, and needs something specific to show (see each "
               "`seeded/<id>/meta.json`); each was applied to /repo, the quick check was run, and the tree was restored.\n")
    out.append("| seeded change | what was changed | caught by (quick tier) |")
    out.append("|---|---|---|")
    for d in sorted(glob.glob(os.path.join(VERIF, "seeded", "*"))):
        mp = os.path.join(d, "meta.json")
        if not os.path.exists(mp):
            continue
        m = json.load(open(mp))
        summ = (m.get("summary") or "").replace("|", "\\|").replace("\n", " ")
        if len(summ) > 330:
            summ = summ[:327] + "..."
        out.append(f"| {os.path.basename(d)} | {summ} | {m.get('detected_by_quick', '?')}: {str(m.get('detection_note', '')).replace('|', chr(92) + '|')} |")
    out += ["", END]
    text = "\n".join(out)
    path = os.path.join(VERIF, "DESIGN.md")
    doc = open(path).read()
    if BEGIN in doc and END in doc:
        doc = doc[:doc.index(BEGIN)] + text + doc[doc.index(END) + len(END):]
    else:
        doc = doc.rstrip("\n") + "\n\n" + text + "\n"
    open(path, "w").write(doc)
    print(f"DESIGN.md: generated part rewritten ({len(out)} lines)")


if __name__ == "__main__":
    main()
