"""CrossHair driver: one obligation = one contract-carrying function of a harness module.

For every obligation
  * a working copy of the harness module is generated (known-finding regions and
    engine-imprecision exclusions become extra ``pre:`` lines),
  * a *twin* (same body, ``post: not _``) must yield a counterexample -> reachable,
  * the main condition is checked with ``crosshair check --report_all``;
    "Confirmed over all paths" -> discharged, a counterexample is replayed in a plain
    interpreter (no tracing) before it counts, everything else is inconclusive.
"""
import ast
import json
import os
import re
import subprocess
import time

from .common import CROSSHAIR, PY, VERIF, OBL, child_env, sha1


class CH:
    engine = "CH"

    def __init__(self, name, file, func=None, cls="S", quick=40, thorough=None,
                 functions=(), bounds="", stubs=(), unblock=None, tiers=("quick", "thorough"),
                 per_path=None, twin_timeout=40, note=""):
        self.name = name
        self.file = file if os.path.isabs(file) else os.path.join(OBL, file)
        self.func = func or name
        self.cls = cls
        self.timeout = {"quick": quick, "thorough": thorough or quick * 4}
        self.functions = list(functions)
        self.bounds = bounds
        self.stubs = list(stubs)
        self.unblock = unblock
        self.tiers = tiers
        self.per_path = per_path
        self.twin_timeout = twin_timeout
        self.note = note

    def run(self, ctx):
        return run_ch(self, ctx)


# ------------------------------------------------------------------ source handling
def _locate(src, func):
    tree = ast.parse(src)
    for node in tree.body:
        if isinstance(node, ast.FunctionDef) and node.name == func:
            doc = node.body[0]
            if not (isinstance(doc, ast.Expr) and isinstance(doc.value, ast.Constant)
                    and isinstance(doc.value.value, str)):
                raise ValueError(f"{func}: no contract docstring")
            return node.lineno, doc.lineno, doc.end_lineno
    raise KeyError(func)


def generate(src, func, extra_pre=(), twin=False):
    """Return (new_source, line_of_def)."""
    lines = src.split("\n")
    defline, d0, d1 = _locate(src, func)
    out = []
    seen_post = False
    for k, line in enumerate(lines, start=1):
        if d0 <= k <= d1 and re.match(r"\s*post:\s*_\s*$", line):
            ind = line[: len(line) - len(line.lstrip())]
            for p in extra_pre:
                out.append(f"{ind}pre: {p}")
            out.append(f"{ind}post: not _" if twin else line)
            seen_post = True
        else:
            out.append(line)
    if not seen_post:
        raise ValueError(f"{func}: contract must contain a line 'post: _'")
    return "\n".join(out), defline


MSG = re.compile(r"^(?P<file>[^:\n]+):(?P<line>\d+): (?P<kind>error|info|warning): (?P<msg>.*)$")


def crosshair(path, line, timeout, per_path=None, unblock=None, verbose=False):
    cmd = [CROSSHAIR, "check", "--report_all", "--analysis_kind", "PEP316",
           "--per_condition_timeout", str(timeout),
           "--per_path_timeout", str(per_path or max(10.0, timeout ** 0.5))]
    if unblock:
        cmd += ["--unblock"] + list(unblock)
    if verbose:
        cmd.append("-v")
    cmd.append(f"{path}:{line}")
    t0 = time.time()
    try:
        p = subprocess.run(cmd, capture_output=True, text=True, env=child_env(),
                           timeout=timeout * 3 + 120, cwd=os.path.dirname(path))
        out, err, rc = p.stdout, p.stderr, p.returncode
    except subprocess.TimeoutExpired as e:
        out = (e.stdout or b"").decode("utf-8", "replace") if isinstance(e.stdout, bytes) else (e.stdout or "")
        err, rc = "wall-timeout", -9
    wall = time.time() - t0
    msgs = []
    for l in out.splitlines():
        m = MSG.match(l)
        if m:
            msgs.append((m["kind"], m["msg"]))
    iters = None
    if verbose:
        its = re.findall(r"Number of iterations:\s+(\d+)", err)
        if its:
            iters = int(its[-1])
        else:
            its = re.findall(r"analyze_calltree\(\) Iteration\s+(\d+)", err)
            if its:
                iters = int(its[-1])
    return dict(rc=rc, msgs=msgs, stdout=out, stderr=err[-4000:], wall=wall, iters=iters)


def classify(res):
    """-> (status, detail). status in confirmed | cex | inconclusive"""
    for kind, msg in res["msgs"]:
        if kind == "error":
            m = re.search(r"when calling (.*)$", msg)
            if m:
                call = m.group(1)
                k = call.rfind(" (which returns")
                if k >= 0:
                    call = call[:k]
                return "cex", dict(call=call.strip(), msg=msg)
            return "inconclusive", dict(reason="crosshair error: " + msg[:300])
    for kind, msg in res["msgs"]:
        if "Confirmed over all paths" in msg:
            return "confirmed", {}
    for kind, msg in res["msgs"]:
        if "Unable to meet precondition" in msg:
            return "inconclusive", dict(reason="unable to meet precondition")
        if "Not confirmed" in msg:
            return "inconclusive", dict(reason="not confirmed within timeout")
    tail = (res["stderr"] or "").strip().splitlines()[-3:]
    return "inconclusive", dict(reason=f"no verdict (rc={res['rc']}) " + " | ".join(tail)[:300])


# ------------------------------------------------------------------------- replay
REPLAY_SNIPPET = r"""
import runpy, sys, json
ns = runpy.run_path(sys.argv[1], run_name="harness")
try:
    r = eval(sys.argv[2], ns)
    print("REPLAY-RESULT " + json.dumps({"returned": repr(r), "ok": r is True}))
except BaseException as e:
    print("REPLAY-RESULT " + json.dumps({"raised": type(e).__name__ + ": " + str(e)[:300], "ok": False}))
"""


def replay_call(harness_file, call, timeout=300):
    """Run `call` against the harness in a plain interpreter. -> dict(ok=bool, ...)"""
    try:
        p = subprocess.run([PY, "-c", REPLAY_SNIPPET, harness_file, call], capture_output=True,
                           text=True, env=child_env(), timeout=timeout,
                           cwd=os.path.dirname(harness_file))
    except subprocess.TimeoutExpired:
        return dict(ok=False, crashed="timeout")
    for l in p.stdout.splitlines():
        if l.startswith("REPLAY-RESULT "):
            return json.loads(l[len("REPLAY-RESULT "):])
    return dict(ok=False, crashed=f"rc={p.returncode}", stderr=p.stderr[-500:])


# ---------------------------------------------------------------------------- run
def run_ch(ob, ctx):
    t0 = time.time()
    tier = ctx.tier
    timeout = ob.timeout[tier]
    src = open(ob.file).read()
    rec = dict(name=ob.name, engine="CH", **{"class": ob.cls}, harness=os.path.relpath(ob.file, VERIF),
               func=ob.func, functions=ob.functions, bounds=ob.bounds, stubs=ob.stubs,
               cpu_timeout_s=timeout, known=[], imprecise=[], note=ob.note)
    work = os.path.join(ctx.workdir, ob.name)
    os.makedirs(work, exist_ok=True)
    base = os.path.splitext(os.path.basename(ob.file))[0]

    # known findings: replay witness, exclude region if it still fails
    extra_pre = []
    for kf in ctx.findings.for_obligation(ctx.prop, ob.name):
        if "ch_region" not in kf:
            continue
        w = kf.get("ch_witness")
        if isinstance(w, dict):
            w = w.get(ob.name)
        rr = replay_call(ob.file, w) if w else dict(ok=True)
        if not rr.get("ok"):
            rec["known"].append(dict(id=kf["id"], what=kf["what"], witness=w, observed=rr))
            extra_pre.append(f"not ({kf['ch_region']})")
        else:
            rec.setdefault("known_not_reproducing", []).append(kf["id"])

    # vacuity twin
    try:
        tsrc, line = generate(src, ob.func, extra_pre, twin=True)
    except Exception as e:  # harness broken
        rec.update(verdict="inconclusive", reason=f"harness: {type(e).__name__}: {e}", wall_s=time.time() - t0)
        return rec
    tpath = os.path.join(work, f"{base}__twin.py")
    open(tpath, "w").write(tsrc)
    tres = crosshair(tpath, line, min(timeout, ob.twin_timeout), ob.per_path, ob.unblock)
    tstat, tdet = classify(tres)
    twin_model = None
    if tstat == "cex" and tdet["msg"].startswith("false when calling"):
        rec["twin"] = "reachable"
        twin_model = tdet["call"]
    elif tstat == "confirmed":
        rec["twin"] = "vacuous"
    else:
        rec["twin"] = "unknown: " + (tdet.get("reason") or tdet.get("msg", ""))[:200]
    rec["twin_model"] = twin_model

    verdict, reason, cex = None, None, None
    sym_iters = 0
    for rnd in range(6):
        msrc, line = generate(src, ob.func, extra_pre, twin=False)
        mpath = os.path.join(work, f"{base}__main{rnd}.py")
        open(mpath, "w").write(msrc)
        res = crosshair(mpath, line, timeout, ob.per_path, ob.unblock, verbose=ctx.count_paths)
        if res["iters"]:
            sym_iters += res["iters"]
        stat, det = classify(res)
        if stat == "confirmed":
            verdict = "discharged"
            break
        if stat == "inconclusive":
            verdict, reason = "inconclusive", det["reason"]
            break
        # counterexample -> replay on the *original* harness in a plain interpreter
        rr = replay_call(ob.file, det["call"])
        if not rr.get("ok"):
            verdict = "violation"
            cex = dict(call=det["call"], crosshair=det["msg"], observed=rr)
            break
        rec["imprecise"].append(det["call"])
        inner = det["call"][det["call"].index("(") + 1:-1]
        extra_pre.append(f"not _same_args({_argnames(src, ob.func)}, ({inner},))")
    else:
        verdict, reason = "inconclusive", "engine imprecision: 6 non-reproducing counterexamples"
    if verdict == "discharged" and rec["twin"] != "reachable":
        verdict, reason = "inconclusive", "twin " + rec["twin"]
    rec.update(verdict=verdict, reason=reason, cex=cex, paths=sym_iters or None,
               wall_s=round(time.time() - t0, 2))
    return rec


def _argnames(src, func):
    tree = ast.parse(src)
    for node in tree.body:
        if isinstance(node, ast.FunctionDef) and node.name == func:
            names = [a.arg for a in node.args.args]
            return "(" + ", ".join(names) + ("," if len(names) == 1 else "") + ")"
    raise KeyError(func)
