"""./check entry point: schedule the obligations of one property, fold verdicts, write
evidence, print KNOWN-FINDING / VIOLATION / INCONCLUSIVE lines, set the exit code.

exit 0  no unlisted violation among everything explored
exit 1  at least one replayed, unlisted violation (VIOLATION line printed)
exit 3  the machinery itself failed (never confused with 0 or 1)
"""
import argparse
import concurrent.futures as cf
import importlib
import json
import os
import random
import shutil
import sys
import time
import traceback

from . import evidence
from .common import EXIT_HARNESS, EXIT_OK, EXIT_VIOLATION, NPROC, VERIF, WORK, log, sha1
from .findings import Findings

TRUSTED = [
    "z3 / cvc5 are sound; CrossHair's models of int/str/containers are sound when they confirm "
    "(counterexamples are replayed in a plain interpreter; every obligation has a reachability twin)",
    "reference models written in the harnesses are the specification",
    "numpy itself in class-E obligations (symbolic ints are case-split exhaustively at the C boundary)",
]


class Ctx:
    def __init__(self, prop, tier, seed, workdir, findings):
        self.prop, self.tier, self.seed, self.workdir, self.findings = prop, tier, seed, workdir, findings
        self.count_paths = True


def load_spec(prop):
    mod = importlib.import_module(f"spec_{prop}")
    return mod


def run_property(prop, tier, seed, only=None):
    t0 = time.time()
    spec = load_spec(prop)
    obs = [o for o in spec.OBLIGATIONS if tier in o.tiers]
    if only:
        obs = [o for o in obs if any(s in o.name for s in only)]
    rnd = random.Random(seed)
    order = list(obs)
    if seed:
        rnd.shuffle(order)
    else:
        order.sort(key=lambda o: -o.timeout[tier] if hasattr(o, "timeout") else 0)
    workdir = os.path.join(WORK, f"{prop}-{tier}-{os.getpid()}")
    os.makedirs(workdir, exist_ok=True)
    ctx = Ctx(prop, tier, seed, workdir, Findings())
    records = {}
    jobs = int(os.environ.get("VERIF_JOBS", NPROC))
    try:
        with cf.ThreadPoolExecutor(max_workers=jobs) as ex:
            futs = {ex.submit(_safe_run, o, ctx): o for o in order}
            for fut in cf.as_completed(futs):
                o = futs[fut]
                rec = fut.result()
                records[o.name] = rec
                log(f"[{prop}] {o.name}: {rec['verdict']}"
                    + (f" ({rec.get('reason')})" if rec.get("reason") else "")
                    + f" {rec.get('wall_s', 0):.1f}s")
    finally:
        if not os.environ.get("VERIF_KEEP_WORK"):
            shutil.rmtree(workdir, ignore_errors=True)
    recs = [records[o.name] for o in obs]

    violations = 0
    lines = []
    printed_known = set()
    for r in recs:
        for k in r.get("known", []):
            if k["id"] not in printed_known:
                printed_known.add(k["id"])
                lines.append(f"KNOWN-FINDING: property={prop} {k['what']}")
        if r["verdict"] == "violation":
            violations += 1
            path = write_replay(prop, r)
            lines.append(f"VIOLATION property={prop} replay={path}")
        elif r["verdict"] == "inconclusive":
            lines.append(f"INCONCLUSIVE obligation={r['name']} reason={r.get('reason')}")
    assumptions = list(TRUSTED) + list(getattr(spec, "ASSUMPTIONS", []))
    for r in recs:
        for s in r.get("stubs", []) or []:
            a = f"stub: {s}"
            if a not in assumptions:
                assumptions.append(a)
    explanation = getattr(spec, "EXPLANATION", "") + (
        f" Tier {tier}: {len(recs)} obligations, "
        f"{sum(1 for r in recs if r['verdict'] == 'discharged')} discharged, "
        f"{sum(1 for r in recs if r['verdict'] == 'inconclusive')} inconclusive, {violations} violations.")
    if not only:       # partial (debug) runs never overwrite the evidence file
        evidence.write(prop, tier, seed, recs, time.time() - t0, violations, assumptions, explanation)
    for l in lines:
        print(l, flush=True)
    print(f"SUMMARY property={prop} tier={tier} obligations={len(recs)} "
          f"discharged={sum(1 for r in recs if r['verdict'] == 'discharged')} "
          f"inconclusive={sum(1 for r in recs if r['verdict'] == 'inconclusive')} "
          f"violations={violations} wall={time.time() - t0:.1f}s", flush=True)
    return EXIT_VIOLATION if violations else EXIT_OK


def _safe_run(o, ctx):
    t0 = time.time()
    try:
        rec = o.run(ctx)
    except Exception as e:
        rec = dict(name=o.name, engine=getattr(o, "engine", "?"), verdict="inconclusive",
                   reason=f"machinery: {type(e).__name__}: {e}", trace=traceback.format_exc()[-1500:])
    rec.setdefault("wall_s", round(time.time() - t0, 2))
    rec.setdefault("known", [])
    return rec


def write_replay(prop, r):
    d = os.path.join(VERIF, "replays", prop)
    os.makedirs(d, exist_ok=True)
    payload = dict(property=prop, obligation=r["name"], engine=r["engine"], harness=r.get("harness"),
                   func=r.get("func"), cex=r.get("cex"), bounds=r.get("bounds"),
                   how_to_rerun=f"./check --replay replays/{prop}/<this file>",
                   expected="the obligation function returns True on these inputs")
    path = os.path.join(d, f"{r['name']}-{sha1(json.dumps(r.get('cex'), default=str))}.json")
    with open(path, "w") as f:
        json.dump(payload, f, indent=1, default=str)
    return path


def do_replay(path):
    from .ch import replay_call
    data = json.load(open(path))
    if data["engine"] == "CH":
        rr = replay_call(os.path.join(VERIF, data["harness"]), data["cex"]["call"])
        print("replay:", json.dumps(rr))
        if not rr.get("ok"):
            print(f"VIOLATION property={data['property']} replay={path}")
            return EXIT_VIOLATION
        return EXIT_OK
    # SX / KX: every case of an obligation shares one replay function (real code, no symbols)
    import importlib
    mod = importlib.import_module(data["harness"])
    res = getattr(mod, data["func"])("quick")
    cases = res[0] if isinstance(res, tuple) else res
    try:
        ok, obs = cases[0].replay(data["cex"]["inputs"])
    except Exception as e:
        ok, obs = False, f"{type(e).__name__}: {e}"
    print("replay:", json.dumps(dict(ok=ok, observed=str(obs)[:500])))
    if not ok:
        print(f"VIOLATION property={data['property']} replay={path}")
        return EXIT_VIOLATION
    return EXIT_OK


def main(argv=None):
    ap = argparse.ArgumentParser()
    ap.add_argument("prop", nargs="?")
    ap.add_argument("--tier", default=os.environ.get("VERIF_TIER", "quick"), choices=["quick", "thorough"])
    ap.add_argument("--replay")
    ap.add_argument("--only", action="append")
    a = ap.parse_args(argv)
    try:
        if a.replay:
            return do_replay(a.replay)
        if not a.prop:
            ap.error("property id required")
        seed = int(os.environ.get("VERIF_SEED", "0") or 0)
        return run_property(a.prop, a.tier, seed, a.only)
    except SystemExit:
        raise
    except BaseException:
        traceback.print_exc()
        print("HARNESS-ERROR runner failed", flush=True)
        return EXIT_HARNESS


if __name__ == "__main__":
    sys.exit(main())
