#!/bin/sh
# usage: tools_mutant.sh <dir with patch.diff demo.py> <property> [check args...]
# Confirms the demo (passes on /repo, fails with patch), runs ./check <property> with the patch applied, reverts.
D="$1"; P="$2"; shift 2
cd /repo || exit 9
git diff --quiet || { echo "REPO DIRTY"; exit 9; }
echo "== demo on unchanged tree"; /venv/bin/python "$D/demo.py" >/dev/null 2>&1; echo "demo rc(orig)=$?"
git apply "$D/patch.diff" || { echo "PATCH FAILED"; exit 9; }
echo "== demo on mutated tree"; /venv/bin/python "$D/demo.py" >/dev/null 2>&1; echo "demo rc(mut)=$?"
cd /verif && ./check "$P" "$@" 2>/dev/null | grep -E "VIOLATION|SUMMARY|KNOWN|HARNESS"
cd /repo && git checkout -- . && git status --short | head -3
