from vf.sx.ob import SX

A = "src/biotite/sequence/align/"
STUBS = ["table initialisation of align_optimal() (first row/column) transcribed in kx_c08.init_linear/init_affine; the negative-infinity sentinel of the affine tables is NOT transcribed: the statements defining neg_inf are cut out of the current align_optimal source and evaluated over z3 integers (vf/kx/wslice.py)",
         "int32 scores as mathematical ints converted on every store (int mode), uint8 codes/trace flags as bit-vectors",
         "trace post-processing of align_optimal (flip, first occurrence = symbol) transcribed in kx_c08.postprocess",
         "fused instantiation CodeType1 = CodeType2 = uint8"]
OBLIGATIONS = [
    SX("kx_dp_fill", "kx_c08", "ob_fill", cls="S", engine="KX", quick=600, thorough=3000, parts={"quick": 12, "thorough": 16},
       functions=[A + "pairwise.pyx:_fill_align_table", A + "pairwise.pyx:_fill_align_table_affine", A + "tracetable.pyx:get_trace_linear", A + "tracetable.pyx:get_trace_affine"],
       stubs=STUBS,
       bounds="sequences of lengths (1,1),(2,2),(2,3),(3,2) (thorough + (1,3),(3,3)) with symbolic codes over |A|=2 (thorough also |A|=3 at 2x2), EVERY matrix entry and gap penalty symbolic in [-2^20, 2^20] / [-2^20, 0]; linear and affine; global, semi-global, local: kernel score == max over all enumerated alignments (affine: no abutting gaps)"),
    SX("kx_dp_traceback", "kx_c08", "ob_traceback", cls="S", engine="KX", quick=600, thorough=3000, parts={"quick": 12, "thorough": 16},
       functions=[A + "tracetable.pyx:follow_trace", A + "pairwise.pyx:_fill_align_table(_affine)"], stubs=STUBS,
       bounds="shapes (1,1),(2,2) (thorough + (1,2),(2,3),(3,2)), symbolic codes, matrix and gaps in [-8,8]/[-8,0], max_number in {1,1000} (+2): every trace produced by follow_trace on the symbolic trace table is a valid alignment, recomputes to the table score, non-empty ones are distinct, count <= max_number"),
    SX("sx_align_optimal", "sx_c08", "ob_align_optimal", cls="E", quick=600, thorough=3000, parts={"quick": 12, "thorough": 16},
       functions=[A + "pairwise.pyx:align_optimal (compiled)", A + "alignment.py:Alignment, score()", A + "matrix.py:SubstitutionMatrix"],
       bounds="all code combinations for shapes up to 3x2/2x3 (thorough 3x3) x 5 matrices (asymmetric, zero, negative) x 7 gap settings x 3 modes x max_number {1,2,1000} x {uint8, uint16 second alphabet} against the brute-force optimum"),
]
EXPLANATION = "C08: optimal pairwise alignment returns the true optimum."
ASSUMPTIONS = []
