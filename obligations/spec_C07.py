from vf.sx.ob import SX

OBLIGATIONS = [
    SX("kx_hybrid36", "kx_c07", "ob_hybrid36", cls="S", engine="KX", quick=200, thorough=600, parts={"quick": 4, "thorough": 8},
       functions=["src/biotite/structure/io/pdb/hybrid36.pyx:encode_hybrid36", "…:_encode_base36", "…:decode_hybrid36", "…:_decode_base36", "…:max_hybrid36_number"],
       stubs=["str(int)/int(str) on symbolic integers: SX runtime (digit variables tied to the value by a linear constraint)",
              "C integers as mathematical ints converted to the declared C type on every store (int mode)"],
       bounds="widths 4 and 5: ALL numbers 0..max_hybrid36_number (decode(encode(n)) == n, width, alphabet), ALL int32 numbers outside the range (must raise), ALL strings over the hybrid-36 alphabet with a leading upper- or lower-case letter (encode(decode(s)) == s)"),
]
EXPLANATION = "C07: PDB round trip; hybrid-36 kernels lowered from the .pyx source."
ASSUMPTIONS = []
