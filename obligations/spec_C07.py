from vf.sx.ob import SX

OBLIGATIONS = [
    SX("kx_hybrid36", "kx_c07", "ob_hybrid36", cls="S", engine="KX", quick=200, thorough=600, parts={"quick": 4, "thorough": 8},
       functions=["src/biotite/structure/io/pdb/hybrid36.pyx:encode_hybrid36", "…:_encode_base36", "…:decode_hybrid36", "…:_decode_base36", "…:max_hybrid36_number"],
       stubs=["str(int)/int(str) on symbolic integers: SX runtime (digit variables tied to the value by a linear constraint)",
              "C integers as mathematical ints converted to the declared C type on every store (int mode)"],
       bounds="widths 4 and 5: ALL numbers 0..max_hybrid36_number (decode(encode(n)) == n, width, alphabet), ALL int32 numbers outside the range (must raise), ALL strings over the hybrid-36 alphabet with a leading upper- or lower-case letter (encode(decode(s)) == s)"),
    SX("sx_pdb_records", "sx_c07", "ob_records", cls="E", quick=600, thorough=2400, parts={"quick": 5, "thorough": 7},
       functions=["src/biotite/structure/io/pdb/file.py:PDBFile.set_structure/get_structure/_check_pdb_compatibility/_set_bonds/_get_bonds", "src/biotite/structure/io/util.py:number_of_integer_digits",
                  "src/biotite/structure/io/pdb/hybrid36.pyx (compiled)"],
       bounds="4 atoms, 1-2 models; 6 (thorough 8) groups each varying 3-5 of: 4 hetero patterns (mixed, all HETATM, all ATOM), 12 boundary coordinates (+-999.999, 9999.999, values that round over the limit, NaN) at any atom/axis/model, 9 boundary B-factors/occupancies, 8 atom-name/element shapes, residue-name lengths, 8 boundary ids (wrap points, negative, hybrid-36 range), charges 0..9, optional fields, CONECT bonds, box, hybrid-36: every ATOM/HETATM record is 80 columns with each field in its PDB v3.3 column (table from the specification) or the input is refused; read back equals the input to format precision"),
]
EXPLANATION = "C07: PDB round trip; hybrid-36 kernels lowered from the .pyx source."
ASSUMPTIONS = []
