"""Tiny synthetic Chemical Component Dictionary (the real one is not shipped in this sandbox).
Written to .work/ccd/components.bcif on demand and activated with biotite.structure.info.set_ccd_path."""
import os

import numpy as np

COMPS = [  # id, name, type, one letter code, weight
    ("ALA", "ALANINE", "L-PEPTIDE LINKING", "A", 89.093),
    ("GLY", "GLYCINE", "PEPTIDE LINKING", "G", 75.067),
    ("SER", "SERINE", "L-PEPTIDE LINKING", "S", 105.093),
    ("HOH", "WATER", "NON-POLYMER", "?", 18.015),
    ("LIG", "LIGAND", "NON-POLYMER", "?", 100.0),
    ("A", "ADENOSINE-5'-MONOPHOSPHATE", "RNA LINKING", "A", 347.221),
    ("U", "URIDINE-5'-MONOPHOSPHATE", "RNA LINKING", "U", 324.181),
] + [(t, t, "L-PEPTIDE LINKING", o, 120.0) for t, o in (
    ("ARG", "R"), ("ASN", "N"), ("ASP", "D"), ("CYS", "C"), ("GLN", "Q"), ("GLU", "E"), ("HIS", "H"), ("ILE", "I"), ("LEU", "L"),
    ("LYS", "K"), ("MET", "M"), ("PHE", "F"), ("PRO", "P"), ("THR", "T"), ("TRP", "W"), ("TYR", "Y"), ("VAL", "V"))] + [
    ("C", "CYTIDINE-5'-MONOPHOSPHATE", "RNA LINKING", "C", 323.0), ("G", "GUANOSINE-5'-MONOPHOSPHATE", "RNA LINKING", "G", 363.0),
    ("DA", "DA", "DNA LINKING", "A", 331.0), ("DC", "DC", "DNA LINKING", "C", 307.0), ("DG", "DG", "DNA LINKING", "G", 347.0),
    ("DT", "DT", "DNA LINKING", "T", 322.0),
]
BONDS = [  # comp, atom1, atom2, order, aromatic
    ("ALA", "N", "CA", "SING", "N"), ("ALA", "CA", "C", "SING", "N"), ("ALA", "C", "O", "DOUB", "N"), ("ALA", "CA", "CB", "SING", "N"),
    ("GLY", "N", "CA", "SING", "N"), ("GLY", "CA", "C", "SING", "N"), ("GLY", "C", "O", "DOUB", "N"),
    ("SER", "N", "CA", "SING", "N"), ("SER", "CA", "C", "SING", "N"), ("SER", "C", "O", "DOUB", "N"),
    ("LIG", "C1", "C2", "DOUB", "Y"), ("LIG", "C2", "C3", "SING", "Y"), ("LIG", "C3", "O1", "TRIP", "N"),
]
ATOMS = [("ALA", a, e) for a, e in (("N", "N"), ("CA", "C"), ("C", "C"), ("O", "O"), ("CB", "C"))] + \
        [("GLY", a, e) for a, e in (("N", "N"), ("CA", "C"), ("C", "C"), ("O", "O"))] + \
        [("SER", a, e) for a, e in (("N", "N"), ("CA", "C"), ("C", "C"), ("O", "O"))] + \
        [("HOH", "O", "O")] + [("LIG", a, e) for a, e in (("C1", "C"), ("C2", "C"), ("C3", "C"), ("O1", "O"))] + \
        [("A", "P", "P"), ("A", "O3'", "O"), ("U", "P", "P"), ("U", "O3'", "O")]

_done = {}


def activate():
    if _done:
        return _done["path"]
    import biotite.structure.io.pdbx as pdbx
    import biotite.structure.info as info
    from vf.common import WORK
    d = os.path.join(WORK, f"ccd-{os.getpid()}")
    os.makedirs(d, exist_ok=True)
    path = os.path.join(d, "components.bcif")
    blk = pdbx.BinaryCIFBlock()
    blk["chem_comp"] = pdbx.BinaryCIFCategory({
        "id": np.array([c[0] for c in COMPS]), "name": np.array([c[1] for c in COMPS]), "type": np.array([c[2] for c in COMPS]),
        "one_letter_code": np.array([c[3] for c in COMPS]), "formula_weight": np.array([c[4] for c in COMPS])})
    blk["chem_comp_atom"] = pdbx.BinaryCIFCategory({
        "comp_id": np.array([a[0] for a in ATOMS]), "atom_id": np.array([a[1] for a in ATOMS]), "type_symbol": np.array([a[2] for a in ATOMS]),
        "charge": np.zeros(len(ATOMS), dtype=np.int32),
        "pdbx_model_Cartn_x_ideal": np.zeros(len(ATOMS)), "pdbx_model_Cartn_y_ideal": np.zeros(len(ATOMS)), "pdbx_model_Cartn_z_ideal": np.zeros(len(ATOMS)),
        "model_Cartn_x": np.zeros(len(ATOMS)), "model_Cartn_y": np.zeros(len(ATOMS)), "model_Cartn_z": np.zeros(len(ATOMS)),
        "pdbx_leaving_atom_flag": np.array(["N"] * len(ATOMS))})
    blk["chem_comp_bond"] = pdbx.BinaryCIFCategory({
        "comp_id": np.array([b[0] for b in BONDS]), "atom_id_1": np.array([b[1] for b in BONDS]), "atom_id_2": np.array([b[2] for b in BONDS]),
        "value_order": np.array([b[3] for b in BONDS]), "pdbx_aromatic_flag": np.array([b[4] for b in BONDS]),
        "pdbx_ordinal": np.arange(1, len(BONDS) + 1)})
    f = pdbx.BinaryCIFFile({"components": blk})
    f.write(path)
    info.set_ccd_path(path)
    _done["path"] = path
    return path
