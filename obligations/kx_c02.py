"""C02 (KX engine): BondList kernels lowered from bonds.pyx.

 * _to_positive_index over the full int32 x uint32 domain (bit-vectors);
 * one step of get_bonds / _get_max_bonds_per_atom / add_bond / remove_bond / remove_bonds_to from an
   ARBITRARY valid state: the bond table (<= 3 rows over 4 atoms) is symbolic and constrained only by the
   representation invariant (sorted pairs, no duplicates, indices < n, cached max_bonds_per_atom >= true
   maximum).  Asserted: no access outside a buffer (the class disables bounds checks), the invariant
   holds again, and the result equals the mapping model {unordered pair -> type}.
"""
import z3

from vf.kx.kernel import Kernel, SymArray
from vf.kx.freshness import binary_state
from vf.kx import rt
from vf.kx.rt import CInt, View, MemorySafety
from vf.sx.ob import Case

REL = "structure/bonds.pyx"
import biotite.structure.bonds as _rb
NBT = len(_rb.BondType)
_k = {}


class BT(int):
    """stand-in for the BondType IntEnum inside the kernel namespace"""


def kernel():
    if "k" not in _k:
        import biotite.structure.bonds as real
        nbt = len(real.BondType)

        class BondTypeStub:
            ANY = 0

            def __len__(self):
                return nbt
        _k["k"] = Kernel(REL, ["_to_positive_index", "_sort", ("BondList", "get_bonds"), ("BondList", "_get_max_bonds_per_atom"),
                               ("BondList", "add_bond"), ("BondList", "remove_bond"), ("BondList", "remove_bonds_to")],
                         mode="bv", package="structure", extra_ns=dict(BondType=BondTypeStub(), int=_int))
        _k["nbt"] = nbt
    return _k["k"]


def _int(x):
    return x        # int(bond_type) of an enum member / C value


def state():
    k = kernel()
    return binary_state(k.path, [(m["lineno"], m["nlines"]) for m in k.meta.values()])


# ------------------------------------------------------------------ _to_positive_index
def replay_index(w):
    """real build: BondList(n).get_bonds(index) must raise IndexError iff index outside [-n, n)"""
    import subprocess, sys
    from vf.common import PY, child_env
    n, idx = w["n"], w["index"]
    if n > 10 ** 6:
        # the compiled class needs an n-sized allocation only in get_all_bonds; get_bonds is cheap
        pass
    code = ("import numpy as np, biotite.structure as s\n"
            f"b = s.BondList({n})\n"
            "try:\n"
            f"    r = b.get_bonds({idx}); print('RET', len(r[0]))\n"
            "except IndexError:\n    print('IndexError')\n")
    p = subprocess.run([PY, "-c", code], capture_output=True, text=True, env=child_env(), timeout=120)
    out = p.stdout.strip()
    valid = -n <= idx < n
    if p.returncode != 0 and not out:
        return False, f"process died rc={p.returncode}"
    ok = (out.startswith("RET") and valid) or (out == "IndexError" and not valid)
    return ok, f"BondList({n}).get_bonds({idx}) -> {out}"


def ob_index(tier):
    k = kernel()
    f = k["_to_positive_index"]

    def run():
        k._activate()
        index = CInt(z3.BitVec("index", 32), rt.TYPES["int32"])
        n = CInt(z3.BitVec("n", 32), rt.TYPES["uint32"])
        I, N = z3.SignExt(32, index.e), z3.ZeroExt(32, n.e)
        in_range = z3.And(I >= -N, I < N)
        try:
            r = f(index, n)
        except IndexError:
            return z3.Not(in_range)
        return z3.And(in_range, r.wide() == z3.If(I < 0, I + N, I))
    idx, n = z3.BitVec("index", 32), z3.BitVec("n", 32)
    I, N = z3.SignExt(32, idx), z3.ZeroExt(32, n)
    known = [("C02-index-below-minus-n", I < -N, dict(index=-7, n=5),
              "BondList: atom index below -atom_count is not rejected (uint32 'pos_index < 0' is dead code in _to_positive_index): "
              "get_bonds(-7) on 5 atoms returns an empty result instead of IndexError; add_bond(-7, 0) corrupts the list / can crash")]
    case = Case("_to_positive_index int32 x uint32", [], run, dict(index=_sbv(idx), n=_ubv(n)), replay_index, known=known)
    return [case], meta()


class _W:
    """witness wrapper: signed / unsigned reading of a bit-vector in the model"""


def _sbv(x):
    return z3.BV2Int(x, True)


def _ubv(x):
    return z3.BV2Int(x, False)


def meta():
    k = kernel()
    return dict(functions_hash=",".join(m["sha1"] for m in k.meta.values()), functions=k.functions_info(),
                validation=validate())


def validate():
    st = state()
    if st != "fresh":
        return f"skipped: binary_state={st}"
    import numpy as np
    import biotite.structure as s
    k = kernel()
    n_ok = 0
    rows = [[0, 1, 1], [1, 2, 2], [0, 3, 5]]
    for idx in (-4, -1, 0, 1, 3, 4):
        real = s.BondList(4, np.array(rows))
        try:
            rb, rt_ = real.get_bonds(idx)
            want = ("ret", sorted(zip(rb.tolist(), rt_.tolist())))
        except IndexError:
            want = ("raise",)
        stub = Self(4, rows, 2)
        try:
            b, t = k["get_bonds"](stub, idx)
            got = ("ret", sorted(zip([int(x) for x in b.data], [int(x) for x in t.data])))
        except IndexError:
            got = ("raise",)
        if got != want and idx >= -4:
            raise AssertionError(f"translator: get_bonds({idx}) lowered {got} vs compiled {want}")
        n_ok += 1
    for (a, b, t) in [(0, 2, 3), (2, 0, 4), (1, 2, 7), (-1, -2, 1)]:
        real = s.BondList(4, np.array(rows))
        real.add_bond(a, b, t)
        stub = Self(4, rows, 2)
        k["add_bond"](stub, a, b, t)
        got = sorted(tuple(int(x) for x in r) for r in stub._bonds.data)
        if got != sorted(map(tuple, real.as_array().tolist())):
            raise AssertionError(f"translator: add_bond({a},{b},{t}) lowered {got} vs compiled {real.as_array().tolist()}")
        real = s.BondList(4, np.array(rows))
        real.remove_bond(a, b)
        stub = Self(4, rows, 2)
        k["remove_bond"](stub, a, b)
        got = sorted(tuple(int(x) for x in r) for r in stub._bonds.data)
        if got != sorted(map(tuple, real.as_array().tolist())):
            raise AssertionError(f"translator: remove_bond({a},{b}) lowered {got} vs compiled {real.as_array().tolist()}")
        n_ok += 2
    return f"{n_ok} concrete calls: lowered source and compiled BondList agree; binary_state={st}"


# --------------------------------------------------------------------- one step from any state
class Self:
    """the parts of a BondList instance the kernels touch"""

    def __init__(self, n, rows, maxb):
        u32 = rt.TYPES["uint32"]
        self._atom_count = n
        self._bonds = SymArray([[x if isinstance(x, CInt) else CInt.const(x, u32) for x in r] for r in rows], u32)
        self._max_bonds_per_atom = maxb
        k = kernel()
        self._get_max_bonds_per_atom = lambda: k["_get_max_bonds_per_atom"](self)


def sym_state(nrows, n=4):
    """symbolic canonical bond table; returns (rows as CInt, constraints, count terms per atom)"""
    u32 = rt.TYPES["uint32"]
    rows, cons = [], []
    for r in range(nrows):
        a, b, t = (z3.BitVec(f"{nm}{r}", 32) for nm in "abt")
        cons += [z3.ULE(a, b), z3.ULT(b, n), z3.ULT(t, NBT)]
        rows.append([CInt(a, u32), CInt(b, u32), CInt(t, u32)])
    for i in range(nrows):
        for j in range(i + 1, nrows):
            cons.append(z3.Or(rows[i][0].e != rows[j][0].e, rows[i][1].e != rows[j][1].e))
    counts = []
    for atom in range(n):
        c = z3.BitVecVal(0, 32)
        for r in rows:
            c = c + z3.If(r[0].e == atom, z3.BitVecVal(1, 32), z3.BitVecVal(0, 32)) + z3.If(r[1].e == atom, z3.BitVecVal(1, 32), z3.BitVecVal(0, 32))
        counts.append(c)
    return rows, cons, counts


def _w_rows(rows):
    return [[_ubv(x.e) for x in r] for r in rows]


def invariant_conds(bonds, n):
    """representation invariant of a (symbolic) bond table as list of z3 conditions"""
    cs = []
    for r in bonds:
        cs += [z3.ULE(_e(r[0]), _e(r[1])), z3.ULT(_e(r[1]), n), z3.ULT(_e(r[2]), NBT)]
    for i in range(len(bonds)):
        for j in range(i + 1, len(bonds)):
            cs.append(z3.Or(_e(bonds[i][0]) != _e(bonds[j][0]), _e(bonds[i][1]) != _e(bonds[j][1])))
    return cs


def _e(x):
    return x.e if not isinstance(x.e, int) else z3.BitVecVal(x.e, x.t.width)


def source_step(w):
    """source-level replay (used while the compiled module does not correspond to the .pyx text): the lowered
    kernels run on the concrete inputs"""
    k = kernel()
    k._activate()
    n = w["n_atoms"]
    rows = [list(r) for r in w["rows"]]
    model = {(min(a, c), max(a, c)): t for a, c, t in rows}
    cnt = [sum((x == i) + (y == i) for (x, y) in model) for i in range(n)]
    me = Self(n, rows, max(cnt) if cnt else 0)
    op, a1, a2, bt = w["op"], w.get("i1", 0), w.get("i2", 0), w.get("bt", 0)

    def norm(i):
        return i + n if i < 0 else i
    try:
        if op == "get_bonds":
            b, t = k["get_bonds"](me, a1)
            got = sorted(zip([int(x) for x in b.data], [int(x) for x in t.data]))
            i = norm(a1)
            want = sorted([(y if x == i else x, tt) for (x, y), tt in model.items() if i in (x, y)])
            return got == want, f"[source-level] get_bonds({a1}) = {got}, model {want}"
        if op == "max":
            got = int(k["_get_max_bonds_per_atom"](me))
            return got == max(cnt), f"[source-level] max bonds {got} vs {max(cnt)}"
        if op == "add_bond":
            k["add_bond"](me, a1, a2, bt)
            model[tuple(sorted((norm(a1), norm(a2))))] = bt
        elif op == "remove_bond":
            k["remove_bond"](me, a1, a2)
            model.pop(tuple(sorted((norm(a1), norm(a2)))), None)
        else:
            k["remove_bonds_to"](me, a1)
            model = {kk: t for kk, t in model.items() if norm(a1) not in kk}
    except (MemorySafety, IndexError) as e:
        return False, f"[source-level] {type(e).__name__}: {e}"
    got = {(int(r[0]), int(r[1])): int(r[2]) for r in me._bonds.data}
    return got == model and len(me._bonds.data) == len(model), f"[source-level] {op}: list {got} vs model {model}"


def real_step(w):
    """replay one step on the compiled BondList in a subprocess (a violation may kill the interpreter)"""
    if state() != "fresh":
        return source_step(w)
    import json, subprocess
    from vf.common import PY, child_env
    code = r'''
import json, sys, numpy as np, biotite.structure as s
w = json.loads(sys.argv[1])
n = w["n_atoms"]
rows = np.array(w["rows"], dtype=np.int64).reshape(-1, 3)
b = s.BondList(n, rows)
model = {(min(a, c), max(a, c)): t for a, c, t in rows.tolist()}
op, a1, a2, bt = w["op"], w.get("i1", 0), w.get("i2", 0), w.get("bt", 0)
def norm(i): return i + n if i < 0 else i
res = "ok"
try:
    if op == "get_bonds":
        nb, nt = b.get_bonds(a1)
        got = sorted(zip(nb.tolist(), nt.tolist()))
        i = norm(a1)
        want = sorted([(y if x == i else x, t) for (x, y), t in model.items() if i in (x, y)])
        if got != want: res = f"get_bonds({a1}) = {got}, model {want}"
    elif op == "max":
        got = int(b._get_max_bonds_per_atom())
        cnt = [sum((x == i) + (y == i) for (x, y) in model) for i in range(n)]
        if got != max(cnt): res = f"max bonds {got} vs {max(cnt)}"
    else:
        if op == "add_bond":
            b.add_bond(a1, a2, bt); model[tuple(sorted((norm(a1), norm(a2))))] = bt
        elif op == "remove_bond":
            b.remove_bond(a1, a2); model.pop(tuple(sorted((norm(a1), norm(a2)))), None)
        elif op == "remove_bonds_to":
            b.remove_bonds_to(a1); model = {k: t for k, t in model.items() if norm(a1) not in k}
        got = {(int(x), int(y)): int(t) for x, y, t in b.as_array().tolist()}
        if got != model: res = f"{op}: list {got} vs model {model}"
        allb, allt = b.get_all_bonds()
        for i in range(n):
            g = sorted((int(x), int(t)) for x, t in zip(allb[i], allt[i]) if x != -1)
            wnt = sorted([(y if x == i else x, t) for (x, y), t in model.items() if i in (x, y)] + [(i, t) for (x, y), t in model.items() if x == y == i])
            if g != wnt: res = f"after {op}: get_all_bonds()[{i}] = {g}, model {wnt}"
except IndexError as e:
    res = "IndexError"
print("RES " + res)
'''
    p = subprocess.run([PY, "-c", code, json.dumps(w)], capture_output=True, text=True, env=child_env(), timeout=120)
    for l in p.stdout.splitlines():
        if l.startswith("RES "):
            return l[4:] == "ok", l[4:]
    return False, f"process died rc={p.returncode}: {p.stderr[-200:]}"


def step_cases(tier):
    k = kernel()
    n = 4
    maxrows = 2 if tier == "quick" else 3
    cases = []
    i32 = rt.TYPES["int32"]
    for nrows in range(0, maxrows + 1):
        for op in ("get_bonds", "max", "add_bond", "remove_bond", "remove_bonds_to"):
            rows, cons, counts = sym_state(nrows, n)
            i1, i2, bt, M = z3.BitVec("i1", 32), z3.BitVec("i2", 32), z3.BitVec("bt", 32), z3.BitVec("M", 32)
            base = list(cons) + [i1 >= -n, i1 < n, i2 >= -n, i2 < n, z3.ULT(bt, NBT), z3.ULE(M, 2 * nrows)]
            base += [z3.UGE(M, c) for c in counts]      # cached value is an upper bound of the true maximum

            def run(op=op, rows=rows, i1=i1, i2=i2, bt=bt, M=M, counts=counts, nrows=nrows):
                k._activate()
                me = Self(n, [list(r) for r in rows], CInt(M, rt.TYPES["uint32"]))
                a1, a2 = CInt(i1, i32), CInt(i2, i32)
                p1 = z3.If(i1 < 0, i1 + n, i1)
                p2 = z3.If(i2 < 0, i2 + n, i2)
                lo, hi = z3.If(z3.ULE(p1, p2), p1, p2), z3.If(z3.ULE(p1, p2), p2, p1)
                try:
                    if op == "get_bonds":
                        if not me._max_bonds_per_atom.concrete:
                            # the buffers are allocated with the cached size: fork over its value
                            from vf.sx.core import cur
                            mv = cur().choose(z3.BV2Int(M), range(0, 2 * nrows + 1))
                            me._max_bonds_per_atom = CInt.const(mv, rt.TYPES["uint32"])
                        b, t = k["get_bonds"](me, a1)
                        # model: every row touching the atom appears once, in table order
                        exp = []
                        conds = []
                        got = list(zip(b.data, t.data))
                        # compare as multiset through counting per (partner, type) is overkill: rows are visited in
                        # order, so compare the j-th hit with the j-th touching row
                        hits = []
                        for r in rows:
                            hits.append((z3.Or(r[0].e == p1, r[1].e == p1), z3.If(r[0].e == p1, r[1].e, r[0].e), r[2].e))
                        # number of hits must equal len(got) on this path and values must match in order
                        total = z3.Sum([z3.If(h[0], 1, 0) for h in hits]) if hits else z3.IntVal(0)
                        conds.append(total == len(got))
                        # j-th hit value
                        for j, (gb, gt) in enumerate(got):
                            # index of the j-th hit
                            alts = []
                            for ri, h in enumerate(hits):
                                before = z3.Sum([z3.If(hits[q][0], 1, 0) for q in range(ri)]) if ri else z3.IntVal(0)
                                alts.append(z3.And(h[0], before == j, _e(gb) == h[1], z3.ZeroExt(24, _e(gt)) == h[2]))
                            conds.append(z3.Or(*alts) if alts else z3.BoolVal(False))
                        return z3.And(*conds)
                    if op == "max":
                        r = k["_get_max_bonds_per_atom"](me)
                        r = r if isinstance(r, CInt) else CInt.const(int(r), rt.TYPES["uint32"])
                        mx = counts[0]
                        for c in counts[1:]:
                            mx = z3.If(z3.UGT(c, mx), c, mx)
                        return r.conv(rt.TYPES["uint32"]).wide(32) == mx if not r.concrete else z3.BitVecVal(r.e, 32) == mx
                    if op == "add_bond":
                        k["add_bond"](me, a1, a2, CInt(bt, rt.TYPES["uint32"]))
                    elif op == "remove_bond":
                        k["remove_bond"](me, a1, a2)
                    else:
                        k["remove_bonds_to"](me, a1)
                except MemorySafety:
                    return False
                except IndexError:
                    return False
                after = me._bonds.data
                conds = invariant_conds(after, n)

                def lookup(table, x, y):
                    """(present, type) of pair (x,y) in a table"""
                    pres, typ = z3.BoolVal(False), z3.BitVecVal(0, 32)
                    for r in table:
                        hit = z3.And(_e(r[0]) == x, _e(r[1]) == y)
                        typ = z3.If(hit, _e(r[2]), typ)
                        pres = z3.Or(pres, hit)
                    return pres, typ
                # compare the mapping on every pair of atoms
                for x in range(n):
                    for y in range(x, n):
                        pb, tb = lookup(rows, x, y)
                        pa, ta = lookup(after, x, y)
                        target = z3.And(lo == x, hi == y)
                        if op == "add_bond":
                            conds.append(z3.If(target, z3.And(pa, ta == bt), z3.And(pa == pb, z3.Implies(pb, ta == tb))))
                        elif op == "remove_bond":
                            conds.append(z3.If(target, z3.Not(pa), z3.And(pa == pb, z3.Implies(pb, ta == tb))))
                        else:
                            touched = z3.Or(p1 == x, p1 == y)
                            conds.append(z3.If(touched, z3.Not(pa), z3.And(pa == pb, z3.Implies(pb, ta == tb))))
                # cached maximum still an upper bound
                mb = me._max_bonds_per_atom
                mbe = _e(mb) if isinstance(mb, CInt) else z3.BitVecVal(int(mb), 32)
                for atom in range(n):
                    c = z3.BitVecVal(0, 32)
                    for r in after:
                        c = c + z3.If(_e(r[0]) == atom, z3.BitVecVal(1, 32), z3.BitVecVal(0, 32)) + z3.If(_e(r[1]) == atom, z3.BitVecVal(1, 32), z3.BitVecVal(0, 32))
                    conds.append(z3.UGE(mbe, c))
                return z3.And(*conds)
            cases.append(Case(f"{op} from any state with {nrows} bonds", base, run,
                              dict(op=op, n_atoms=n, rows=_w_rows(rows), i1=_sbv(i1), i2=_sbv(i2), bt=_ubv(bt)), real_step))
    return cases


def ob_step(tier):
    return step_cases(tier), meta()
