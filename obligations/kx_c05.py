"""C05 (KX engine): BinaryCIF integer encodings lowered from encoding.pyx (bit-vector C integers).

RunLengthEncoding._encode/_decode and IntegerPackingEncoding._encode/decode for each fused instantiation
named in the case label; arrays of symbolic elements; asserted: decode(encode(x)) == x or the encoder raised.
"""
import z3

from vf.kx.kernel import Kernel, SymArray
from vf.kx.freshness import binary_state
from vf.kx import rt
from vf.kx.rt import CInt, View, MemorySafety, const_view, sym_view
from vf.sx.ob import Case

REL = "structure/io/pdbx/encoding.pyx"
_k = {}
NPDT = {"int8": "i1", "uint8": "u1", "int16": "i2", "uint16": "u2", "int32": "i4", "uint32": "u4"}


def kernel(integer, out):
    key = (integer, out)
    if key not in _k:
        ns = {n: rt.TYPES[n] for n in NPDT}
        ns["Integer"] = rt.TYPES[integer]
        ns["OutputInteger"] = rt.TYPES[out]
        _k[key] = Kernel(REL, [("RunLengthEncoding", "_encode"), ("RunLengthEncoding", "_decode")], mode="bv",
                         fused={"Integer": integer, "OutputInteger": out}, package="structure.io.pdbx", extra_ns=ns, unwind=12)
    return _k[key]


def kernel_pack(integer, out):
    key = ("pack", integer, out)
    if key not in _k:
        ns = {n: rt.TYPES[n] for n in NPDT}
        ns["Integer"] = rt.TYPES[integer]
        ns["OutputInteger"] = rt.TYPES[out]
        _k[key] = Kernel(REL, [("IntegerPackingEncoding", "_encode"), ("IntegerPackingEncoding", "decode"),
                               ("IntegerPackingEncoding", "_get_bounds")], mode="bv",
                         fused={"Integer": integer, "OutputInteger": out}, package="structure.io.pdbx", extra_ns=ns, unwind=12)
    return _k[key]


def state():
    k = kernel("int32", "int32")
    kp = kernel_pack("int32", "int8")
    return binary_state(k.path, [(m["lineno"], m["nlines"]) for m in list(k.meta.values()) + list(kp.meta.values())])


class RLSelf:
    src_size = None


class PackSelf:
    def __init__(self, kp, byte_count, src_size, is_unsigned):
        self.byte_count, self.src_size, self.is_unsigned = byte_count, src_size, is_unsigned
        self._get_bounds = lambda data: kp["_get_bounds"](data)


# ------------------------------------------------------------------------------- replay on the build
def real_rle(w):
    import numpy as np
    from biotite.structure.io.pdbx.encoding import RunLengthEncoding
    if state() != "fresh":
        return src_rle(w)
    x = np.array(w["data"], dtype=NPDT[w["type"]])
    enc = RunLengthEncoding()
    try:
        e = enc.encode(x)
    except Exception as ex:
        return True, f"encoder raised {type(ex).__name__}"
    d = enc.decode(e)
    return d.tolist() == x.tolist() and d.dtype == x.dtype, f"encoded {e.tolist()} decoded {d.tolist()} ({d.dtype})"


def src_rle(w):
    k = kernel(w["type"], w["type"])
    k._activate()
    try:
        e = k["_encode"](RLSelf(), const_view(w["data"], w["type"]))
        d = k["_decode"](RLSelf(), View(e.data, rt.TYPES["int32"]), const_view([], w["type"]))
    except (MemorySafety, IndexError) as ex:
        return False, f"[source-level] {type(ex).__name__}: {ex}"
    except ValueError as ex:
        return True, "[source-level] encoder raised"
    got = [int(v) for v in d.data]
    return got == w["data"], f"[source-level] decoded {got}"


def real_pack(w):
    import numpy as np
    from biotite.structure.io.pdbx.encoding import IntegerPackingEncoding
    if state() != "fresh":
        return src_pack(w)
    x = np.array(w["data"], dtype=np.int32)
    enc = IntegerPackingEncoding(byte_count=w["byte_count"], is_unsigned=w["unsigned"])
    try:
        e = enc.encode(x)
    except Exception as ex:
        return True, f"encoder raised {type(ex).__name__}"
    d = enc.decode(e)
    return d.tolist() == x.tolist(), f"encoded {e.tolist()} decoded {d.tolist()}"


def _ptype(bc, uns):
    return ("u" if uns else "") + f"int{8 * bc}"


def src_pack(w):
    pt = _ptype(w["byte_count"], w["unsigned"])
    kp = kernel_pack("int32", pt)
    kd = kernel_pack(pt, pt)
    kp._activate()
    me = PackSelf(kp, w["byte_count"], len(w["data"]), w["unsigned"])
    try:
        e = kp["_encode"](me, const_view(w["data"], "int32"), const_view([], pt))
    except ValueError:
        return True, "[source-level] encoder raised"
    except (MemorySafety, IndexError) as ex:
        return False, f"[source-level] encode: {type(ex).__name__}: {ex}"
    kd._activate()
    me2 = PackSelf(kd, w["byte_count"], len(w["data"]), w["unsigned"])
    try:
        d = kd["decode"](me2, View(e.data, rt.TYPES[pt]))
    except (MemorySafety, IndexError) as ex:
        return False, f"[source-level] decode: {type(ex).__name__}: {ex}"
    got = [int(v) for v in d.data]
    return got == w["data"], f"[source-level] packed {[int(v) for v in e.data]} decoded {got}"


def validate():
    st = state()
    if st != "fresh":
        return f"skipped: binary_state={st}"
    n = 0
    for w in [dict(type="int32", data=[5, 5, 7]), dict(type="uint8", data=[255, 255, 0]), dict(type="int8", data=[-128]),
              dict(type="uint32", data=[4000000000, 1])]:
        a, b = src_rle(w), real_rle(w)
        if a[0] != b[0]:
            raise AssertionError(f"translator (RLE) {w}: lowered {a} vs compiled {b}")
        n += 1
    for w in [dict(byte_count=1, unsigned=False, data=[127, -128, 300, -300, 0]), dict(byte_count=1, unsigned=True, data=[255, 254, 600]),
              dict(byte_count=2, unsigned=False, data=[32767, -32768, 70000]), dict(byte_count=1, unsigned=True, data=[-1])]:
        a, b = src_pack(w), real_pack(w)
        if a[0] != b[0]:
            raise AssertionError(f"translator (packing) {w}: lowered {a} vs compiled {b}")
        n += 1
    return f"{n} concrete vectors: lowered source and compiled module agree; binary_state={st}"


def _e(x):
    return x.e if not isinstance(x.e, int) else z3.BitVecVal(x.e, x.t.width)


def ob_rle(tier):
    cases = []
    types = ["int8", "uint8", "int16", "uint16", "int32", "uint32"]
    for ty in types:
        for n in ((1, 2, 3) if tier == "quick" else (1, 2, 3, 4)):
            k = kernel(ty, ty)

            def run(k=k, ty=ty, n=n):
                k._activate()
                data, dv, _ = sym_view("d", (n,), ty)
                try:
                    e = k["_encode"](RLSelf(), data)
                    d = k["_decode"](RLSelf(), View(e.data, rt.TYPES["int32"]), const_view([], ty))
                except (MemorySafety, IndexError):
                    return False
                except ValueError:
                    return True        # rejected, never silently altered
                if len(d.data) != n:
                    return False
                return z3.And(*[_e(a) == b.e for a, b in zip(d.data, dv)])
            w = rt.TYPES[ty].width
            sg = rt.TYPES[ty].signed
            cases.append(Case(f"run-length {ty} n={n}", [], run,
                              dict(type=ty, data=[z3.BV2Int(z3.BitVec(f"d_{i}", w), sg) for i in range(n)]), real_rle))
    return cases, dict(validation=validate(), functions=kernel("int32", "int32").functions_info())


def ob_pack(tier):
    cases = []
    for bc, uns in ((1, False), (1, True), (2, False), (2, True)):
        pt = _ptype(bc, uns)
        lo, hi = rt.TYPES[pt].lo, rt.TYPES[pt].hi
        reach = 3 if tier == "quick" else 5          # |v| <= reach*max + 2  -> at most reach+1 loop iterations
        for n in ((1, 2) if tier == "quick" else (1, 2, 3)):
            kp, kd = kernel_pack("int32", pt), kernel_pack(pt, pt)

            def run(kp=kp, kd=kd, pt=pt, bc=bc, uns=uns, n=n):
                kp._activate()
                data, dv, _ = sym_view("d", (n,), "int32")
                me = PackSelf(kp, bc, n, uns)
                try:
                    e = kp["_encode"](me, data, const_view([], pt))
                except ValueError:
                    return True
                except (MemorySafety, IndexError):
                    return False
                kd._activate()
                me2 = PackSelf(kd, bc, n, uns)
                try:
                    d = kd["decode"](me2, View(e.data, rt.TYPES[pt]))
                except (MemorySafety, IndexError):
                    return False
                if len(d.data) != n:
                    return False
                return z3.And(*[_e(a) == b.e for a, b in zip(d.data, dv)])
            dvs = [z3.BitVec(f"d_{i}", 32) for i in range(n)]
            base = [z3.And(v >= (reach * lo - 2 if lo < 0 else -2), v <= reach * hi + 2) for v in dvs]
            cases.append(Case(f"integer packing -> {pt} n={n} |v|<={reach}*max+2", base, run,
                              dict(byte_count=bc, unsigned=uns, data=[z3.BV2Int(v, True) for v in dvs]), real_pack))
    return cases, dict(validation=validate(), functions=kernel_pack("int32", "int8").functions_info())


# ------------------------------------------------------------------------------ DeltaEncoding
class _TC:
    """stand-in for TypeCode: carries the numpy dtype of the source"""

    def __init__(self, ty):
        self.ty = ty

    def to_dtype(self):
        return rt.TYPES[self.ty]


class _TypeCodeNS:
    @staticmethod
    def from_dtype(dt):
        return _TC(dt.name)


def kernel_delta():
    if "delta" not in _k:
        _k["delta"] = Kernel(REL, [("DeltaEncoding", "encode"), ("DeltaEncoding", "decode")], mode="bv",
                             package="structure.io.pdbx", extra_ns=dict(TypeCode=_TypeCodeNS))
    return _k["delta"]


class DeltaSelf:
    def __init__(self):
        self.src_type = None
        self.origin = None


def real_delta(w):
    import numpy as np
    from biotite.structure.io.pdbx.encoding import DeltaEncoding
    x = np.array(w["data"], dtype=NPDT[w["type"]])
    if state_delta() != "fresh":
        return src_delta(w)
    enc = DeltaEncoding()
    try:
        e = enc.encode(x)
    except Exception as ex:
        return True, f"encoder raised {type(ex).__name__}"
    d = enc.decode(e)
    return d.tolist() == x.tolist() and d.dtype == x.dtype, f"encoded {e.tolist()} decoded {d.tolist()} ({d.dtype})"


def state_delta():
    k = kernel_delta()
    return binary_state(k.path, [(m["lineno"], m["nlines"]) for m in k.meta.values()])


def src_delta(w):
    k = kernel_delta()
    k._activate()
    me = DeltaSelf()
    try:
        e = k["encode"](me, SymArray([CInt.const(v, rt.TYPES[w["type"]]) for v in w["data"]], rt.TYPES[w["type"]]))
        d = k["decode"](me, e)
    except Exception as ex:
        return False, f"[source-level] {type(ex).__name__}: {ex}"
    got = [int(v) for v in d.data]
    return got == w["data"] and d.t.name == w["type"], f"[source-level] decoded {got}"


def ob_delta(tier):
    cases = []
    k = kernel_delta()
    # differential validation of the numpy shim + lowering
    val = "skipped"
    if state_delta() == "fresh":
        nv = 0
        for w in [dict(type="int32", data=[-2 ** 31, 2 ** 31 - 1, 0]), dict(type="uint32", data=[4000000000, 1, 4294967295]),
                  dict(type="int8", data=[-128, 127, 5]), dict(type="uint16", data=[65535, 0, 3]), dict(type="uint8", data=[7])]:
            a, b = src_delta(w), real_delta(w)
            if a[0] != b[0]:
                raise AssertionError(f"translator (delta) {w}: lowered {a} vs compiled {b}")
            nv += 1
        val = f"{nv} concrete vectors: lowered DeltaEncoding and compiled module agree"
    for ty in ["int8", "uint8", "int16", "uint16", "int32", "uint32"]:
        for n in ((1, 2, 3) if tier == "quick" else (1, 2, 3, 4)):
            def run(ty=ty, n=n):
                k._activate()
                data, dv, _ = sym_view("d", (n,), ty)
                me = DeltaSelf()
                e = k["encode"](me, SymArray(list(data.data), rt.TYPES[ty]))
                d = k["decode"](me, e)
                if len(d.data) != n or d.t is not rt.TYPES[ty] or e.t is not rt.TYPES["int32"]:
                    return False
                return z3.And(*[_e(a) == b.e for a, b in zip(d.data, dv)])
            w_, sg = rt.TYPES[ty].width, rt.TYPES[ty].signed
            cases.append(Case(f"delta {ty} n={n}", [], run,
                              dict(type=ty, data=[z3.BV2Int(z3.BitVec(f"d_{i}", w_), sg) for i in range(n)]), real_delta))
    return cases, dict(validation=val, functions=k.functions_info())
