from vf.sx.ob import SX

A = "src/biotite/structure/atoms.py:"
STUBS = ["atoms.py is executed from its transformed source (isinstance/str/in redirected for symbolic ints); numpy and the compiled BondList are real",
         "a symbolic integer reaching numpy is concretised by forking over the index range -5..5"]
OBLIGATIONS = [
    SX("sx_index_forms", "sx_c01", "ob_index", cls="S", quick=600, thorough=1800, parts={"quick": 12, "thorough": 16},
       functions=[A + n for n in ("_AtomArrayBase._subarray", "AtomArray.__getitem__", "AtomArray.get_atom", "AtomArrayStack.__getitem__", "AtomArrayStack.get_array", "Atom.copy")]
       + ["src/biotite/structure/bonds.pyx:BondList.__getitem__ (compiled)"], stubs=STUBS,
       bounds="3 atoms x 2 models, with/without bonds, with box and an extra annotation; index forms: int, slice(lo,hi,step) with SYMBOLIC lo/hi in -5..5 (each optional) and step in {None,2,-1}, 4 masks, 5 index arrays, ellipsis, and for stacks [int], [slice], [int,slice], [:,int], [...,int], [slice,mask], [int,int], [slice,index array]; result compared with the list-of-atoms model"),
    SX("sx_histories", "sx_c01", "ob_history", cls="E", quick=600, thorough=3600, parts={"quick": 14, "thorough": 16},
       functions=[A + n for n in ("_AtomArrayBase._del_element/_set_element/set_annotation/del_annotation/__copy_fill__", "AtomArrayStack.__setitem__/__delitem__",
                                  "concatenate", "stack", "repeat", "array", "AtomArray.__add__")] + ["src/biotite/copyable.py:Copyable.copy"], stubs=STUBS[:1],
       bounds="all operation sequences of length 2 (thorough 3) over 13 operations (slice / mask / index-array indexing, concatenation (+ and concatenate, operands with and without bonds/box), atom deletion incl. negative indices, model deletion, element assignment, annotation add/set/del, copy with mutation of every mutable part, stack/get_array, repeat, narrowing overwrite of an annotation, re-declared annotation categories (widening, refused incompatible dtype), array() of atoms with over-long strings, model assignment with mismatching bonds refused, atoms with differing categories refused by array(), NaN in float16/32/64 annotations under copy / equality / stacking) x 6 arguments, on arrays and stacks with/without bonds and box; full state compared with the model after every step; on every copy step `==` must hold with the original in both directions and must fail in both directions for variants that differ in one component (box present/absent, box values, bonds present/absent, last coordinate, res_id, an extra annotation category)"),
]
EXPLANATION = "C01: atom arrays and stacks stay coherent under any sequence of operations."
ASSUMPTIONS = []
