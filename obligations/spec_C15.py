from vf.sx.ob import SX

S = "src/biotite/structure/"
STUBS = ["REAL-number semantics: numpy replaced inside the loaded modules by vf/sx/rnp.py (arrays of exact rationals with symbolic numerators: broadcasting arithmetic, comparisons, symbolic boolean masks, newaxis/ellipsis indexing, sum over the last axis, matmul, argmin + row selection); float rounding does not exist there",
         "numpy.linalg.inv of a concrete cell -> its exact rational inverse", "atoms.coord() -> identity on arrays"]
OBLIGATIONS = [
    SX("sx_displacement", "sx_c15", "ob_displacement", cls="S", quick=600, thorough=1800, parts={"quick": 16, "thorough": 16},
       functions=[S + "geometry.py:displacement", S + "geometry.py:_displacement_orthogonal_box", S + "geometry.py:_displacement_triclinic_box",
                  S + "box.py:coord_to_fraction", S + "box.py:fraction_to_coord", S + "box.py:is_orthogonal", S + "util.py:vector_dot"],
       stubs=STUBS,
       bounds="without a box: all 5 combinations of argument shapes (3,), (2,3), (1,2,3): displacement == q - p row by row. With a box: 6 (thorough 7) concrete cells (orthorhombic, cubic, rotated orthorhombic, 3-4 triclinic), one point pair, q = every point m/8 with |m| <= 200 (1000) per axis symbolic; 3 cells x 3 mixed-shape combinations with two point pairs (|m| <= 40): displacement - (q - p) is an integer combination of the cell vectors; for orthorhombic cells (any orientation) |d|^2 <= |d + M|^2 for every lattice vector M within +-2 cells"),
    SX("sx_triclinic_kernel", "sx_c15", "ob_triclinic_kernel", cls="S", quick=600, thorough=1800, parts={"quick": 4, "thorough": 4},
       functions=[S + "geometry.py:_displacement_triclinic_box", S + "box.py:fraction_to_coord", S + "util.py:vector_dot"],
       stubs=STUBS,
       bounds="4 triclinic cells (mild, negative off-diagonal, monoclinic shear, strong shear), fractions f = EVERY real vector in [0,1)^3 (z3 nonlinear real arithmetic, no grid): the result is one of the eight candidates (f + s).B, s in {-1,0}^3, and no other image within +-2 cells is shorter than half the smallest cell height (i.e. wherever the shortest image is that short, it is the one returned)"),
    SX("sx_move_inside", "sx_c15", "ob_move_inside", cls="S", quick=300, thorough=900, parts={"quick": 6, "thorough": 6},
       functions=[S + "box.py:move_inside_box", S + "box.py:coord_to_fraction", S + "box.py:fraction_to_coord"],
       stubs=STUBS,
       bounds="6 cells, every point m/8 with |m| <= 400 per axis: move_inside_box has fractional coordinates in [0,1) and moves by a lattice vector; fraction_to_coord(coord_to_fraction(p)) == p"),
    SX("sx_remove_pbc", "sx_c15", "ob_remove_pbc", cls="S", thorough=1800, parts={"quick": 1, "thorough": 3}, tiers=("thorough",),
       functions=[S + "box.py:remove_pbc_from_coord", S + "geometry.py:index_displacement/_call_non_index_function/displacement"],
       stubs=STUBS + ["the function-level import of index_displacement is routed to the transformed geometry module"],
       bounds="one model, chain of 3 atoms with coordinates m/8, |m| <= 48 symbolic, 2 axis-aligned orthorhombic cells: every atom moves by a lattice vector; consecutive atoms end one minimum-image displacement apart. NOT covered symbolically: the rotated cell (solver unknown within 120 s) and stacks of models (the two-model formula does not finish); both are exercised on concrete wrapped chains in sx_geometry_concrete"),
    SX("sx_geometry_concrete", "sx_c15", "ob_geometry_concrete", cls="E", quick=600, thorough=1800, parts={"quick": 6, "thorough": 6},
       functions=[S + "geometry.py:distance/angle/dihedral/displacement/index_*/centroid (real numpy)", S + "transform.py:translate/rotate/rotate_centered/rotate_about_axis/align_vectors/orient_principal_components (real numpy)", S + "box.py:vectors_from_unitcell/unitcell_from_vectors/is_orthogonal/remove_pbc_from_coord/remove_pbc (real numpy)"],
       bounds="every 4-tuple of distinct points from a menu of 5 (thorough 7) x 5 rotation axes x 5 angles + translation x 4 argument-shape combinations ((3,), (n,3), (m,n,3), mixed): values equal the float64 definitions written in the harness (tolerance 2e-4), before and after the rigid motion; index variants (also periodic: own box, explicit box overriding it, explicit box without own box, plain coordinates == coordinate-based functions with that box); distance / angle / signed dihedral unchanged by translate, rotate, rotate_centered, rotate_about_axis, align_vectors and orient_principal_components (7 orders, arrays and coordinates); 3 cell length sets x 5 angle sets through unit cell <-> box vectors; chains of 8 atoms wrapped arbitrarily in 7 cells as array and as stacks of 1..3 models through remove_pbc_from_coord; remove_pbc on structures (two molecules + an ion, with a BondList or by chains, 7 cells x array / stacks of 1..2 models x 3 selections x 3 wrappings): lattice moves only, molecules reassembled, centroids inside the box, unselected atoms and everything but coordinates untouched; the unit cell of each menu box rotated with the whole system (4 rotations, float32) equals the cell it was built from and converts back to a congruent box (equal Gram matrix)"),
]
EXPLANATION = "C15 (periodic clauses symbolically; definitions, rigid-motion invariance, cell conversion and reassembly on concrete inputs): displacement is a shortest periodic image and box helpers act by lattice vectors."
ASSUMPTIONS = ["real-number semantics: float32/float64 rounding of numpy is outside the claim",
               "cells are the concrete cells of the menu; symbolic cell vectors make the minimum-image clause nonlinear beyond reach"]
