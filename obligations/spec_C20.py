from vf.sx.ob import SX

A = "src/biotite/application/"
FUNCS = [A + "application.py:Application.start/join/cancel/get_app_state/requires_state",
         A + "localapp.py:LocalApp.run/join/is_finished/evaluate/clean_up + setters/getters",
         A + "msaapp.py:MSAApp.run/evaluate/clean_up/get_alignment/get_alignment_order"]
STUBS = ["subprocess.Popen in biotite.application.localapp -> FakePopen: launch failure / hang / exit code / output "
         "(correct in any of the 6 orders, garbage, empty) are z3 variables the explorer forks on",
         "get_version() of the MUSCLE wrappers -> constant", "join() without timeout on a hanging program is skipped (would block)"]


def ob(kind, extra):
    return SX(f"sx_lifecycle_{kind}", "sx_c20", f"ob_{kind}", cls="S", quick=400, thorough=3000, parts={"quick": 10, "thorough": 10},
              functions=FUNCS + [A + extra], stubs=STUBS,
              bounds="all call sequences of length 3 for ClustalOmegaApp and 2 for the other wrappers (thorough: 4 for all) over {start, join, join(timeout), cancel, get_app_state, option setter, get_alignment, get_exit_code, get_alignment_order, get_command} x all program behaviours; 3 input sequences; oracle = documented life-cycle automaton + resource assertions after every call")


OBLIGATIONS = [ob("clustalo", "clustalo/app.py:ClustalOmegaApp"), ob("mafft", "mafft/app.py:MafftApp"),
               ob("muscle3", "muscle/app3.py:MuscleApp"), ob("muscle5", "muscle/app5.py:Muscle5App")]
EXPLANATION = "C20: life cycle and clean-up of application wrappers against the documented automaton, with a symbolic external program."
ASSUMPTIONS = []
