from vf.sx.ob import SX

A = "src/biotite/application/"
FUNCS = [A + "application.py:Application.start/join/cancel/get_app_state/requires_state",
         A + "localapp.py:LocalApp.run/join/is_finished/evaluate/clean_up + setters/getters",
         A + "msaapp.py:MSAApp.run/evaluate/clean_up/get_alignment/get_alignment_order"]
STUBS = ["subprocess.Popen in biotite.application.localapp -> FakePopen: launch failure / hang / exit code / output "
         "(correct in any of the 6 orders, garbage, empty, output files removed by the program itself; failing with code 1, a signal or 255, before or after writing complete output) are z3 variables the explorer forks on",
         "get_version() of the MUSCLE wrappers -> constant", "join() without timeout on a hanging program is skipped (would block)"]


def ob(kind, extra):
    return SX(f"sx_lifecycle_{kind}", "sx_c20", f"ob_{kind}", cls="S", quick=400, thorough=3000, parts={"quick": 16, "thorough": 16},
              functions=FUNCS + [A + extra], stubs=STUBS,
              bounds="all call sequences of length 3 for ClustalOmegaApp and 2 for the other wrappers (thorough: 4 for ClustalOmegaApp, 3 for the others) over {start, join, join(timeout), cancel, get_app_state, option setter, get_alignment, get_exit_code, get_alignment_order, get_command} x all program behaviours; 3 input sequences; oracle = documented life-cycle automaton + resource assertions after every call")


OBLIGATIONS = [ob("clustalo", "clustalo/app.py:ClustalOmegaApp"), ob("mafft", "mafft/app.py:MafftApp"),
               ob("muscle3", "muscle/app3.py:MuscleApp"), ob("muscle5", "muscle/app5.py:Muscle5App"),
               SX("sx_generic", "sx_c20", "ob_generic", cls="E", quick=300, parts=2,
                  functions=[A + "application.py:Application.join (polling form) / cancel", A + "msaapp.py:MSAApp.evaluate (header order)"],
                  stubs=STUBS[:2],
                  bounds="a non-local Application subclass that finishes after 0..3 polls, joined with timeout None / 0 / 0.0 / 30, with and without a failing evaluate(): JOINED with one evaluate and one clean_up, or cancelled + cleaned up once + TimeoutError; the four MSA wrappers with 11, 12 and 23 input sequences written by the program in 3 orders: rows belong to their inputs, get_alignment_order() is the program's order")]
EXPLANATION = "C20: life cycle and clean-up of application wrappers against the documented automaton, with a symbolic external program."
ASSUMPTIONS = []
