from vf.sx.ob import SX

M = "src/biotite/structure/io/mol/"
OBLIGATIONS = [
    SX("pyre_sdf_key_grammar", "sx_c18", "ob_key_grammar", cls="S", engine="KX-pyre", quick=120, thorough=600, parts=1,
       functions=[M + "sdf.py:Metadata.Key._NAME_INPUT_REGEX, _COMPONENT_REGEX (live), Metadata.Key.__post_init__/serialize/deserialize"],
       stubs=["Python re patterns -> z3 regexes (vf/pyre.py, validated against re on ~2900 strings per run; ASCII classes)",
              "the token-matching loop of Key.deserialize (split at whitespace, first matching component regex wins) is transcribed",
              "whether __post_init__ admits a trailing line feed is probed on the real class"],
       bounds="every name string of length <= 6 (thorough 12) over ASCII admitted by the input grammar: '<name>' is one whitespace-free token, matches the name component regex and no earlier component regex"),
    SX("sx_molfiles", "sx_c18", "ob_molfiles", cls="E", quick=600, thorough=2400, parts={"quick": 7, "thorough": 7},
       functions=[M + "ctab.py:write_structure_to_ctab/read_structure_from_ctab (V2000 + V3000)", M + "mol.py:MOLFile", M + "sdf.py:SDFile/SDRecord/Metadata", M + "header.py:Header"],
       bounds="molecules of 1..3 atoms x 8 boundary coordinates at any atom/axis x charges {0,1,3,4,15} (thorough 0..15, both signs) x 8 bond type rotations x {auto, V2000, V3000} x {MOL, 2-record SDF with header and multi-part metadata keys, multi-line values}; atom/bond counts {50,999,1000} x {0,998,999,1000,1100}: V2000 only when counts fit, fixed-width lines, read back equal; records of a READ SD file stored under new names in another SD file next to a fresh record: names, order, metadata and structure survive"),
    SX("sx_rdkit", "sx_c18", "ob_rdkit", cls="E", quick=300, parts=1,
       functions=["src/biotite/interface/rdkit/mol.py:to_mol/from_mol"],
       bounds="molecules of 1..3 atoms, single/double/triple/quadruple bonds, charges, 1..3 models (conformers) through RDKit and back with add_hydrogen=False; 13 complete molecules (Kekule and aromatic six-rings with H / Cl / F substituents in both alternations, CO2, N2, CCl4, chloride, nitrate, HCN) x 1..2 models with DEFAULT options: nothing added, removed, reordered or retyped (the two Kekule forms of an aromatic ring are not distinguished)"),
    SX("sx_key_parts", "sx_c18", "ob_key_parts", cls="E", quick=100, parts=1,
       functions=["src/biotite/structure/io/mol/sdf.py:Metadata.Key.__post_init__/serialize/deserialize", "src/biotite/structure/io/mol/sdf.py:Metadata.serialize/deserialize"],
       bounds="all 256 combinations of field number {absent, 0, 1, 12} x name {absent, 3 names} x internal registry {absent, 0, 7, 123} x external registry {absent, '', 2 values}: an admitted key serialises to text that parses back to an equal key, alone and inside a metadata block"),
]
EXPLANATION = "C18: small molecules survive MOL/SDF files and the RDKit bridge."
ASSUMPTIONS = ["RDKit's C++ is a black box: only the bridge's bookkeeping (atom order, charges, bond-type table, conformers <-> models) is exercised"]
