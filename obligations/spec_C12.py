from vf.sx.ob import SX

P = "src/biotite/sequence/io/"
OBLIGATIONS = [
    SX("sx_gb_locs", "sx_c12", "ob_gb_locs", cls="S", quick=200, thorough=1500, parts={"quick": 8, "thorough": 12},
       functions=[P + "genbank/annotation.py:_convert_to_loc_string", P + "genbank/annotation.py:_parse_locs", P + "genbank/annotation.py:_parse_single_loc"],
       stubs=["decimal rendering/parsing of symbolic ints (str(int)/int(str)) is part of the SX runtime: fresh digit variables tied to the value by a linear constraint"],
       bounds="1 location: positions symbolic in 1..10^5 (thorough 10^8), every combination of BEYOND_LEFT/BEYOND_RIGHT/UNK_LOC/BETWEEN the format can express, both strands, single-base and ranges; 2 joined locations: positions <= 999 (thorough 99999), all strand pairs"),
    SX("sx_fastq", "sx_c12", "ob_fastq", cls="S", quick=200, thorough=1500, parts={"quick": 8, "thorough": 14},
       functions=[P + "fastq/file.py:FastqFile.__setitem__/__getitem__/__delitem__/_find_entries/read/read_iter", "src/biotite/file.py:TextFile.read/write/read_iter, wrap_string"],
       stubs=["_scores_to_score_str/_score_str_to_scores (numpy int8 <-> bytes) -> the same +offset/-offset arithmetic on symbolic ints",
              "file objects -> SFile (symbolic text buffer)"],
       bounds="2 entries, sequence lengths 1..3 (thorough 1..4), every score symbolic over the whole valid range of the offset (33: 0..93, 64: -31..62, i.e. every character '!'..'~') so that '@'/'+' can start any line, chars_per_line in {None,1,2,3}, edits {none, replace first, delete first}"),
    SX("sx_gff", "sx_c12", "ob_gff", cls="S", quick=200, thorough=1500, parts={"quick": 4, "thorough": 8},
       functions=[P + "gff/file.py:GFFFile._create_line/__getitem__/_parse_attributes/_index_entries/append/read"],
       stubs=["urllib.parse.quote/unquote -> SX models (validated against urllib on every run; ASCII only)", "empty dict displays -> SDict (symbolic keys)"],
       bounds="one entry; one of {attribute value, attribute key, seqid, source} symbolic of length 1..3 (thorough 1..4) over printable ASCII + tab"),
    SX("sx_gbfile", "sx_c12", "ob_gbfile", cls="E", quick=300, thorough=2400, parts={"quick": 4, "thorough": 8},
       functions=[P + "genbank/file.py:GenBankFile.__getitem__/__setitem__/__delitem__/insert/append/set_field/_translate_idx/_find_field_indices/_to_lines"],
       bounds="all edit sequences of length 2 over {replace, insert, delete, set_field} x index -5..4 x 4 field templates (thorough: index -7..6 x 6 templates, plus length 3 over index -1..1 x 2 templates) on a 3-field file; list reference model; text re-read after every step"),
    SX("sx_gfffile", "sx_c12_annot", "ob_gfffile", cls="E", quick=300, thorough=1800, parts={"quick": 5, "thorough": 5},
       functions=["src/biotite/sequence/io/gff/file.py:GFFFile.insert/append/append_directive/__setitem__/__getitem__/__delitem__/directives/_index_entries/_create_line/_parse_attributes"],
       bounds="all edit sequences of length 2 (thorough 3) over {replace, insert, delete, append, append directive} x index -4..4 x 4 entries (thorough: length 3, index -3..3, 2 entries) (percent-encoded ids, every strand / score / phase form, duplicate entry) on a file with 2 entries: entries by positive and negative index, out-of-range indices refused, directives with their line positions, text re-read after every step"),
    SX("sx_fasta", "sx_c12", "ob_fasta", cls="E", quick=200, thorough=600, parts={"quick": 6, "thorough": 6},
       functions=[P + "fasta/file.py:FastaFile", P + "fasta/convert.py:set_sequence(s)/get_sequences/_convert_to_string/_convert_to_sequence"],
       bounds="2 entries from a 6-sequence menu (nucleotide, ambiguous, protein with stops), as_rna on/off, chars_per_line 1/3/80, edit {none, delete, replace}"),
    SX("sx_annotation_io", "sx_c12_annot", "ob_annotation_io", cls="E", quick=400, thorough=1800, parts={"quick": 16, "thorough": 16},
       functions=["src/biotite/sequence/io/genbank/annotation.py:get_annotation/set_annotation/_set_qual", "src/biotite/sequence/io/genbank/sequence.py:get_annotated_sequence/set_annotated_sequence",
                  "src/biotite/sequence/io/gff/convert.py:get_annotation/set_annotation", "src/biotite/sequence/io/gff/file.py:GFFFile.append/_create_line/_parse_attributes"],
       bounds="1..2 features: key from 5 (thorough 6) incl. two 15-character keys; 10 location sets (single base, joins, same and MIXED strands, every defect); 6 (7) qualifier sets (spaces, slashes, '=', several values, no value only, long wrapped value); second feature from a small menu; GenBank: in memory and through text, include_only, annotated sequence with sequence start 1 and 7; GFF3: stranded and unstranded, in memory and through text"),
    SX("sx_fastq_real", "sx_c12_annot", "ob_fastq_real", cls="E", quick=200, parts=4,
       functions=["src/biotite/sequence/io/fastq/file.py:_score_str_to_scores/_scores_to_score_str (numpy helpers, stubbed in sx_fastq)", "src/biotite/sequence/io/fastq/file.py:FastqFile/read_iter/write_iter"],
       bounds="5 offsets (33, 64 and three format names) x score runs of 1, 2, 5 and 94 values starting at the lowest representable score, just above it, at -5, at 0 and ending at the highest one (characters '!'..'~': negative scores for offset 64 included) x 4 line widths: in memory, through text, read_iter, write_iter"),
]
EXPLANATION = "C12: sequence file formats return what was written."
ASSUMPTIONS = []
