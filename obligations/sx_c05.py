"""C05 (E-class on the real build): compression driver, encoding chains and serialisation on boundary menus."""
import io
import math

import numpy as np
import z3

from vf.sx.core import cur
from vf.sx.ob import Case

INTS = [0, 1, -1, 127, 128, -128, -129, 255, 256, 32767, 32768, -32768, -32769, 65535, 65536,
        2 ** 31 - 1, 2 ** 31, -2 ** 31, -2 ** 31 - 1, 2 ** 32 - 1, 2 ** 32, 5, 5, -2 ** 63, 2 ** 63 - 1]
FLOATS = [0.0, 1.0, -1.5, 0.1, 1 / 3, 1.2345e-5, 1.23456789, 123456.789, 1e6 + 0.1, -0.001, 2.5e-8, 99999.5, -13.206373, -123456.789012, -2300.000001, 0.0012, 1.5e-12, 3e-11, 0.123456789012, 1.23456789e-12, 1e-20, 3.0e6, 1e10, 7e-12]
TOLS = [1e-6, 1e-3, 1e-9]
STRS = ["", "a", "abc", "a", "é", "x y", "ALA", ""]


def _rep(f, *a):
    try:
        r = f(*a)
        return r is None, str(r)
    except Exception as e:
        import traceback
        return False, f"{type(e).__name__}: {e} | {traceback.format_exc()[-300:]}"


def roundtrip_file(col):
    """column -> category/block/file -> msgpack bytes -> file -> column array (+mask)"""
    import biotite.structure.io.pdbx as pdbx
    f = pdbx.BinaryCIFFile({"b": pdbx.BinaryCIFBlock({"c": pdbx.BinaryCIFCategory({"x": col})})})
    buf = io.BytesIO()
    f.write(buf)
    buf.seek(0)
    back = pdbx.BinaryCIFFile.read(buf)
    return back["b"]["c"]["x"], f, back


def check_ints(i, j, k, level):
    import biotite.structure.io.pdbx as pdbx
    vals = [INTS[i], INTS[j]] + ([INTS[k]] if k >= 0 else [])
    try:
        arr = np.array(vals, dtype=np.int64)
    except OverflowError:
        return None
    data = pdbx.BinaryCIFData(arr)
    if not (all(-2 ** 31 <= v < 2 ** 31 for v in vals) or all(0 <= v < 2 ** 32 for v in vals)):
        # beyond every 32-bit BinaryCIF integer type: must be refused, never stored wrongly
        try:
            comp = pdbx.compress(data)
            got = pdbx.BinaryCIFData.deserialize(comp.serialize()).array
        except (ValueError, OverflowError):
            return None
        return None if got.tolist() == vals else f"compress({vals}) decoded to {got.tolist()}"
    if level == 0:
        comp = pdbx.compress(data)
        back = pdbx.BinaryCIFData.deserialize(comp.serialize())
        got = back.array
    else:
        comp = pdbx.compress(pdbx.BinaryCIFColumn(data))
        col, f, fb = roundtrip_file(comp)
        got = col.as_array()
        if not (f == fb):
            return "file read back is not equal to the file written"
    if got.tolist() != vals:
        return f"compress({vals}) decoded to {got.tolist()} via {comp.serialize()['encoding'] if level == 0 else 'column'}"
    # reading a masked column with a placeholder for masked values never writes into the column (or the caller's array)
    if all(-2 ** 31 <= v < 2 ** 31 for v in vals):
        src = np.array(vals, dtype=np.int32)
        mcol = pdbx.BinaryCIFColumn(pdbx.BinaryCIFData(src), mask=pdbx.BinaryCIFData(np.array([0, 1] + [2] * (len(vals) - 2), dtype=np.uint8)))
        for dt_req in (np.int32, None, np.int64, float):
            out = mcol.as_array(dt_req, masked_value=7) if dt_req is not None else mcol.as_array(masked_value=7)
            if out.tolist()[0] != vals[0] or any(x != 7 for x in out.tolist()[1:]):
                return f"as_array({dt_req}, masked_value=7) = {out.tolist()} for {vals} with mask [0, 1, 2..]"
            if mcol.data.array.tolist() != vals or src.tolist() != vals:
                return f"as_array({dt_req}, masked_value=7) wrote the placeholder into the stored data: {mcol.data.array.tolist()}"
        back_col, _, _ = roundtrip_file(mcol)
        if back_col.data.array.tolist() != vals:
            return f"masked column written after as_array(masked_value): data {back_col.data.array.tolist()} vs {vals}"
        out = back_col.as_array(np.int32, masked_value=7)
        if out.tolist()[0] != vals[0] or any(x != 7 for x in out.tolist()[1:]):
            return f"as_array(masked_value) on a column read from a file: {out.tolist()}"
    # the same values held in the narrowest integer dtype that can hold them (the dtype a column read from a file has):
    # arithmetic inside compress() must not wrap in that dtype (e.g. abs(-128) in int8)
    for dt in (np.int8, np.uint8, np.int16, np.uint16, np.int32, np.uint32):
        ii = np.iinfo(dt)
        if all(ii.min <= v <= ii.max for v in vals):
            narrow = np.array(vals, dtype=dt)
            got = pdbx.BinaryCIFData.deserialize(pdbx.compress(pdbx.BinaryCIFData(narrow)).serialize()).array
            if got.tolist() != vals:
                return f"compress({vals} as {dt.__name__}) decoded to {got.tolist()}"
    return None


def check_floats(i, j, t, level):
    import biotite.structure.io.pdbx as pdbx
    vals = [FLOATS[i], FLOATS[j], FLOATS[i]]
    tol = TOLS[t]
    for dt in (np.float32, np.float64):
        arr = np.array(vals, dtype=dt)
        if level == 0:
            comp = pdbx.compress(pdbx.BinaryCIFData(arr), float_tolerance=tol)
            got = pdbx.BinaryCIFData.deserialize(comp.serialize()).array
        elif level == 1:
            cat = pdbx.BinaryCIFCategory({"x": arr})
            comp = pdbx.compress(cat, float_tolerance=tol)
            got = pdbx.BinaryCIFCategory.deserialize(comp.serialize())["x"].as_array()
        else:
            # whole file: block, category and column names are data too (BinaryCIF stores category names with one
            # leading '_' added; names that begin with underscores themselves must come back unchanged)
            names = ["c", "_u", "__v", "d_"]
            f = pdbx.BinaryCIFFile({"b": pdbx.BinaryCIFBlock({nm: pdbx.BinaryCIFCategory({"x": arr, "_y": arr}) for nm in names}),
                                    "_b2": pdbx.BinaryCIFBlock({"c": pdbx.BinaryCIFCategory({"x": arr})})})
            comp = pdbx.compress(f, float_tolerance=tol)
            buf = io.BytesIO()
            comp.write(buf)
            buf.seek(0)
            back = pdbx.BinaryCIFFile.read(buf)
            if list(back.keys()) != ["b", "_b2"] or list(back["b"].keys()) != names or list(back["b"]["__v"].keys()) != ["x", "_y"]:
                return f"names read back: blocks {list(back.keys())}, categories {list(back['b'].keys())}"
            for nm in names[1:]:
                if back["b"][nm]["_y"].as_array().tolist() != back["b"]["c"]["x"].as_array().tolist():
                    return f"category {nm!r} read back with different data"
            got = back["b"]["c"]["x"].as_array()
        for a, g in zip(arr.tolist(), got.tolist()):
            # float32 data cannot be more exact than its own precision
            eff = max(tol, 1.2e-7 if dt is np.float32 else 0)
            if not (abs(g - a) <= eff * abs(a) * 1.0000001 + (0 if a else 0)):
                return f"compress({vals}, tol={tol}, {dt.__name__}, level {level}): {a!r} came back as {g!r} (rel. error {abs(g - a) / abs(a) if a else abs(g):.3g})"
    return None


class _Hang(Exception):
    pass


def _bounded(f, seconds=20):
    """run f(); a call that does not return within `seconds` is reported (the code under check must terminate)"""
    import signal

    def on_alarm(signum, frame):
        raise _Hang()
    old = signal.signal(signal.SIGALRM, on_alarm)
    signal.alarm(seconds)
    try:
        return f()
    finally:
        signal.alarm(0)
        signal.signal(signal.SIGALRM, old)


def check_nonfinite(i, which):
    import biotite.structure.io.pdbx as pdbx
    special = [float("nan"), float("inf"), -float("inf"), 1e30, -4e9][which]
    # short columns (compression does not pay off: stored as raw bytes) and long ones (fixed-point candidates win), both precisions
    for reps in (1, 16):
        for dt in (np.float64, np.float32):
            vals = [FLOATS[i], special, 1.0] * reps
            with np.errstate(over="ignore"):
                arr = np.array(vals, dtype=dt)
            vals = arr.tolist()
            try:
                comp = _bounded(lambda: pdbx.compress(pdbx.BinaryCIFData(arr)))
                got = pdbx.BinaryCIFData.deserialize(comp.serialize()).array
            except (ValueError, OverflowError):
                continue            # rejected
            except _Hang:
                return f"compress() of {len(vals)} {dt.__name__} values {vals[:3]} did not return within 20 s"
            tol = 1e-6 if dt is np.float64 else 2e-6
            for a, g in zip(vals, got.tolist()):
                if math.isnan(a):
                    if not math.isnan(g):
                        return f"NaN silently altered to {g!r} ({len(vals)} {dt.__name__} values)"
                elif math.isinf(a):
                    if g != a:
                        return f"{a!r} silently altered to {g!r} ({len(vals)} {dt.__name__} values)"
                elif abs(g - a) > tol * abs(a):
                    return f"{a!r} silently altered to {g!r} in {vals[:3]} x {reps} ({dt.__name__})"
    return None


def check_strings(i, j, k):
    import biotite.structure.io.pdbx as pdbx
    vals = [STRS[i], STRS[j], STRS[k], STRS[i]]
    arr = np.array(vals, dtype=str)
    for comp_it in (False, True):
        col = pdbx.BinaryCIFColumn(pdbx.BinaryCIFData(arr), mask=np.array([0, 1, 2, 0], dtype=np.uint8))
        if comp_it:
            col = pdbx.compress(col)
        back, f, fb = roundtrip_file(col)
        if back.data.array.tolist() != vals:
            return f"strings {vals} came back as {back.data.array.tolist()}"
        if back.mask is None or back.mask.array.tolist() != [0, 1, 2, 0]:
            return "mask changed"
        if not (f == fb and back == f["b"]["c"]["x"]):
            return "file / column read back is not equal to what was written"
    return None


def check_chain(i, j, chain):
    """explicit encoding chains on integer arrays"""
    from biotite.structure.io.pdbx import BinaryCIFData
    from biotite.structure.io.pdbx.encoding import (ByteArrayEncoding, DeltaEncoding, IntegerPackingEncoding, RunLengthEncoding)
    vals = [INTS[i], INTS[j], INTS[j], INTS[i]]
    if any(not -2 ** 31 <= v < 2 ** 31 for v in vals):
        return None
    arr = np.array(vals, dtype=np.int32)
    encs = [[ByteArrayEncoding()], [DeltaEncoding(), ByteArrayEncoding()], [RunLengthEncoding(), ByteArrayEncoding()],
            [DeltaEncoding(), RunLengthEncoding(), IntegerPackingEncoding(1), ByteArrayEncoding()],
            [RunLengthEncoding(), IntegerPackingEncoding(2), ByteArrayEncoding()],
            [IntegerPackingEncoding(1), ByteArrayEncoding()]][chain]
    try:
        data = BinaryCIFData(arr, encs)
        ser = data.serialize()
    except (ValueError, OverflowError):
        return None
    got = BinaryCIFData.deserialize(ser)
    if got.array.tolist() != vals:
        return f"chain {chain} on {vals}: decoded {got.array.tolist()}"
    if not (got == data):
        return "deserialised data (incl. encodings) is not equal to the written one"
    return None


def ob_compress(tier):
    n = len(INTS)
    i, j, k, lv = z3.Ints("i j k lv")
    cases = [
        Case("integers pairs", [i >= 0, i < n, j >= 0, j < n, lv >= 0, lv <= 1],
             lambda: check_ints(cur().choose(i, range(n)), cur().choose(j, range(n)), -1, cur().choose(lv, range(2))) is None,
             dict(i=i, j=j, k=-1, level=lv), lambda w: _rep(check_ints, w["i"], w["j"], w["k"], w["level"])),
    ]
    if tier == "thorough":
        cases.append(Case("integers triples", [i >= 0, i < n, j >= 0, j < n, k >= 0, k < n],
                          lambda: check_ints(cur().choose(i, range(n)), cur().choose(j, range(n)), cur().choose(k, range(n)), 0) is None,
                          dict(i=i, j=j, k=k, level=0), lambda w: _rep(check_ints, w["i"], w["j"], w["k"], w["level"])))
    nf = len(FLOATS) - 3         # the last three overflow a 32-bit fixed point: covered by 'nonfinite'
    t = z3.Int("t")
    cases.append(Case("floats", [i >= 0, i < nf, j >= 0, j < nf, t >= 0, t < 3, lv >= 0, lv <= 2],
                      lambda: check_floats(cur().choose(i, range(nf)), cur().choose(j, range(nf)), cur().choose(t, range(3)), cur().choose(lv, range(3))) is None,
                      dict(i=i, j=j, t=t, level=lv), lambda w: _rep(check_floats, w["i"], w["j"], w["t"], w["level"])))
    cases.append(Case("non-finite / overflowing floats", [i >= 0, i < nf, k >= 0, k < 5],
                      lambda: check_nonfinite(cur().choose(i, range(nf)), cur().choose(k, range(5))) is None,
                      dict(i=i, which=k), lambda w: _rep(check_nonfinite, w["i"], w["which"]), known=KNOWN_NF(i, k)))
    ns = len(STRS)
    cases.append(Case("strings+masks", [i >= 0, i < ns, j >= 0, j < ns, k >= 0, k < ns],
                      lambda: check_strings(cur().choose(i, range(ns)), cur().choose(j, range(ns)), cur().choose(k, range(ns))) is None,
                      dict(i=i, j=j, k=k), lambda w: _rep(check_strings, w["i"], w["j"], w["k"])))
    cases.append(Case("explicit chains", [i >= 0, i < n, j >= 0, j < n, k >= 0, k < 6],
                      lambda: check_chain(cur().choose(i, range(n)), cur().choose(j, range(n)), cur().choose(k, range(6))) is None,
                      dict(i=i, j=j, chain=k), lambda w: _rep(check_chain, w["i"], w["j"], w["chain"])))
    return cases


def KNOWN_NF(i, k):
    return []


def check_fixedpoint(which, factor_i):
    """FixedPointEncoding itself: values the int32 target cannot hold must be refused"""
    from biotite.structure.io.pdbx.encoding import FixedPointEncoding
    factor = [1, 10, 1000][factor_i]
    x = [3.0e6, float("nan"), float("inf"), -2.2e9, 2147483.0, 1234.5678, -0.0004][which]
    arr = np.array([x, 1.0], dtype=np.float64)
    enc = FixedPointEncoding(factor)
    fits = math.isfinite(x) and abs(round(x * factor)) <= 2 ** 31 - 1
    try:
        with np.errstate(all="ignore"):
            e = enc.encode(arr)
    except (ValueError, OverflowError):
        return None if not fits else "encoder raised for a representable value"
    d = enc.decode(e)
    if not fits:
        return f"FixedPointEncoding({factor}).encode({x!r}) silently stored {int(e[0])} (decodes to {d[0]!r})"
    if abs(d[0] - x) > 0.5 / factor + 1e-9 * abs(x):
        return f"FixedPointEncoding({factor}): {x!r} decodes to {d[0]!r}"
    return None


def ob_fixedpoint(tier):
    w, f = z3.Ints("w f")
    known = [("C05-fixedpoint-silent-overflow", z3.Or(z3.And(w >= 1, w <= 3), z3.And(w == 0, f == 2), z3.And(w == 4, f >= 2)),
              dict(which=0, factor_i=2),
              "FixedPointEncoding.encode silently wraps values that do not fit into int32 after scaling and non-finite values "
              "(astype(int32) without check): FixedPointEncoding(1000) turns 3.0e6 into -1294967296 (decodes to -1294967.296), NaN/inf into -2147483648")]
    return [Case("fixed point boundary menu", [w >= 0, w < 7, f >= 0, f < 3],
                 lambda: check_fixedpoint(cur().choose(w, range(7)), cur().choose(f, range(3))) is None,
                 dict(which=w, factor_i=f), lambda wd: _rep(check_fixedpoint, wd["which"], wd["factor_i"]), known=known)]


# ------------------------------------------------------------------------------------ integer casts
INT_TYPES = ["int8", "uint8", "int16", "uint16", "int32", "uint32"]


def check_safe_cast(si, di, vi):
    """encoding._safe_cast and the encodings that rely on it: a value outside the target type is refused, never wrapped"""
    from biotite.structure.io.pdbx import encoding as enc
    from biotite.structure.io.pdbx.encoding import ByteArrayEncoding, RunLengthEncoding, DeltaEncoding, TypeCode
    src, dst = np.dtype(INT_TYPES[si]), np.dtype(INT_TYPES[di])
    sinfo, dinfo = np.iinfo(src), np.iinfo(dst)
    menu = sorted({sinfo.min, sinfo.max, 0, 1, -1 if sinfo.min < 0 else 2, max(sinfo.min, min(sinfo.max, dinfo.max)), max(sinfo.min, min(sinfo.max, dinfo.max + 1)),
                   max(sinfo.min, min(sinfo.max, dinfo.min)), max(sinfo.min, min(sinfo.max, dinfo.min - 1))})
    v = menu[vi % len(menu)]
    arr = np.array([1, v, 0], dtype=src)
    fits = dinfo.min <= v <= dinfo.max
    try:
        got = enc._safe_cast(arr, dst)
        if not fits:
            return f"_safe_cast({arr.tolist()} {src} -> {dst}) = {got.tolist()}: a value outside the target range was accepted"
        if got.dtype != dst or got.tolist() != arr.tolist():
            return f"_safe_cast({arr.tolist()} {src} -> {dst}) = {got.tolist()} ({got.dtype})"
    except ValueError:
        if fits:
            return f"_safe_cast({arr.tolist()} {src} -> {dst}) refused although every value fits"
    # through the public encodings with an explicit target type
    code = getattr(TypeCode, INT_TYPES[di].upper())
    e = ByteArrayEncoding(type=code)
    try:
        back = e.decode(e.encode(arr))
    except (ValueError, OverflowError):
        return None if not fits else f"ByteArrayEncoding(type={dst}) refused {arr.tolist()} although every value fits"
    if not fits:
        return f"ByteArrayEncoding(type={dst}) accepted {arr.tolist()} ({src}) and returned {back.tolist()} ({back.dtype})"
    if back.tolist() != arr.tolist():
        return f"ByteArrayEncoding(type={dst}): {arr.tolist()} came back as {back.tolist()}"
    return None


def ob_safe_cast(tier):
    s, d, v = z3.Ints("s d v")

    def run():
        ex = cur()
        return check_safe_cast(ex.choose(s, range(6)), ex.choose(d, range(6)), ex.choose(v, range(9))) is None

    def rep(w):
        try:
            r = check_safe_cast(w["si"], w["di"], w["vi"])
            return r is None, str(r)
        except Exception as e:
            import traceback
            return False, f"{type(e).__name__}: {e} | {traceback.format_exc()[-300:]}"
    return [Case("integer casts of the encodings", [s >= 0, s < 6, d >= 0, d < 6, v >= 0, v < 9], run, dict(si=s, di=d, vi=v), rep)]
