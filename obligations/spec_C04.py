from vf.sx.ob import SX

P = "src/biotite/structure/io/pdbx/"
OBLIGATIONS = [
    SX("sx_model_altloc", "sx_c04", "ob_model_select", cls="S", quick=300, parts=9,
       functions=[P + "convert.py:get_structure (model arithmetic), _filter_model, _filter_altloc", "src/biotite/structure/filter.py:filter_first_altloc/filter_highest_occupancy_altloc"],
       stubs=["synthetic Chemical Component Dictionary (obligations/ccd_fixture.py) activated with info.set_ccd_path",
              "the model number is a z3 variable forked over -5..5 and None"],
       bounds="files with 1..3 models, 6 atoms, one atom with two alternate locations (occupancy 0.3/0.7): every model number in -5..5 and None, every altloc policy: exactly the rows of that model / the policy's rows, 0 and out-of-range rejected"),
    SX("sx_structure_roundtrip", "sx_c04", "ob_roundtrip", cls="E", quick=900, thorough=3600, parts={"quick": 6, "thorough": 8},
       functions=[P + "convert.py:set_structure, get_structure, _set_intra_residue_bonds, _set_inter_residue_bonds, _filter_canonical_links, _parse_intra_residue_bonds, _parse_inter_residue_bonds, _find_matches, _get_box",
                  P + "cif.py / bcif.py / compress.py (file layer)", "src/biotite/structure/bonds.pyx:connect_via_residue_names (compiled)"],
       stubs=["synthetic Chemical Component Dictionary (7 components)"],
       bounds="2 residues x 3 atoms; 7 (thorough 9) groups each varying 3-5 of: residue types (ALA, GLY, LIG with quote/prime atom names, SER), chain ids (A, B, AA, A'), residue ids (1, 2, -1, 10, 128, -300), two residues of the same type that differ by insertion code only, insertion codes, optional b_factor/occupancy/charge/atom_id, bond type sets (8 intra-residue incl. aromatic, 5 inter-residue), link partner, box (none/orthorhombic/monoclinic), 1-2 models; CIF, BinaryCIF and compressed BinaryCIF; text and binary decode equal"),
    SX("sx_find_matches", "sx_c04", "ob_find_matches", cls="E", quick=200, parts=8,
       functions=["src/biotite/structure/io/pdbx/convert.py:_find_matches/_find_matches_by_dense_array/_find_matches_by_dict"],
       bounds="every table of 3 reference rows x 2 columns over {0,1} and 2 query rows (1024 tables), both implementations and both sides of FIND_MATCHES_SWITCH_THRESHOLD: index of the unique matching row (row 0 included), -1 without a match, InvalidFileError exactly when a query row matches more than one reference row"),
]
EXPLANATION = "C04: a structure survives a CIF / BinaryCIF write-read cycle."
ASSUMPTIONS = ["adjacent canonical residues (same chain, residue id difference <= 1) carry exactly the peptide bond C-N: biotite omits it on writing and re-creates it by rule on reading",
               "inter-residue bonds use the types struct_conn can express (single..quadruple, coordination)"]
