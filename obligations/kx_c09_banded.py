"""C09 (KX engine): banded.pyx:_fill_align_table (linear gap penalty) lowered from source, if-converted, over symbolic
sequence codes, substitution matrix and gap penalty; the band and the table layout of align_banded are concrete per case
(the table initialisation of the wrapper is transcribed here: zeros, 'negative infinity' boundary columns).

Claims for every cell inside the band:
  * never above optimal : cell <= best score of ANY alignment of the prefixes ending at that cell with a free start
                          (reference = plain unbanded recurrence written here, max as z3 terms);
  * the banded recurrence in sequence coordinates: cell == max(diagonal predecessor + score, left / upper neighbour + gap where that
                          neighbour lies inside the band; positions one step before a sequence count as 0: free start) - the kernel computes
                          this in 'straightened' band coordinates, which is where index mistakes would sit;
  * local alignments never hold a negative score; no access outside the tables (bounds checks are off in the source).
"""
import z3

from vf.kx.kernel import Kernel
from vf.kx.freshness import binary_state
from vf.kx import rt, ifconv
from vf.kx.rt import CInt, View, MemorySafety, const_view
from vf.sx.ob import Case

import kx_c08

I32, U8 = rt.TYPES["int32"], rt.TYPES["uint8"]
B = 1 << 20
_k = {}


def kernel():
    if "k" not in _k:
        kt, _ = kx_c08.kernel()
        ns = dict(ifconv.NS)
        ns.update({n: kt.ns[n] for n in ("get_trace_linear", "get_trace_affine", "TraceDirectionLinear", "TraceDirectionAffine")})
        p = [ifconv.ifconv_pass]
        _k["k"] = Kernel("sequence/align/banded.pyx", ["_fill_align_table", "_fill_align_table_affine"], mode="int",
                         fused={"CodeType1": "uint8", "CodeType2": "uint8"}, package="sequence.align", extra_ns=ns,
                         extra_passes={"_fill_align_table": p, "_fill_align_table_affine": p})
    return _k["k"]


def state():
    k = kernel()
    return binary_state(k.path, [(m["lineno"], m["nlines"]) for m in k.meta.values()])


def crop(n, m, lower, upper):
    lower = max(lower, -n + 1)
    upper = min(upper, m - 1)
    return lower, upper


def _sentinel(affine, gap, min_score):
    """the 'negative infinity' sentinel exactly as align_banded computes it in the CURRENT source: the statements that
    define neg_inf are cut out of the wrapper and evaluated over z3 integers / Python ints (vf/kx/wslice.py)"""
    from vf.kx import wslice
    v, text, line = wslice.evaluate("sequence/align/banded.pyx", "align_banded", "neg_inf", ["neg_inf", "min_score"],
                                    dict(gap_penalty=gap, affine_penalty=bool(affine)), {"np.min(matrix.score_matrix())": min_score}, "neg_inf")
    SENTINEL_SRC["text"], SENTINEL_SRC["line"] = text, line
    return v


SENTINEL_SRC = {}


def neg_inf_value(gap, min_score):
    """as in align_banded: int32 minimum made 'more positive' by the gap penalty and the lowest matrix score"""
    return _sentinel(False, gap, min_score)


def zmax(*xs):
    r = xs[0]
    for x in xs[1:]:
        r = z3.If(x > r, x, r)
    return r


def run_fill(n, m, lower, upper, c1, c2, M, g, local, concrete=False):
    """-> (score table View, trace table View, band width)"""
    k = kernel()
    k._activate()
    A = len(M)
    width = upper - lower + 1
    mn = M[0][0]
    for row in M:
        for e in row:
            mn = (min(mn, e) if concrete else z3.If(e < mn, e, mn))
    ninf = neg_inf_value(g, mn)
    mk = (lambda v: CInt.const(int(v), I32)) if concrete else (lambda v: CInt(v, I32) if not isinstance(v, int) else CInt.const(v, I32))
    score = View([[mk(ninf) if j in (0, width + 1) else CInt.const(0, I32) for j in range(width + 2)] for _ in range(n + 1)], I32)
    trace = const_view([[0] * (width + 2) for _ in range(n + 1)], "uint8")
    code1 = View([CInt(c, U8) if not isinstance(c, int) else CInt.const(c, U8) for c in c1], U8)
    code2 = View([CInt(c, U8) if not isinstance(c, int) else CInt.const(c, U8) for c in c2], U8)
    matrix = View([[mk(e) for e in row] for row in M], I32)
    k["_fill_align_table"](code1, code2, matrix, trace, score, CInt.const(lower, rt.TYPES["int"]), CInt.const(upper, rt.TYPES["int"]),
                           mk(g), bool(local))
    return score, trace, width


def source_fill(w):
    n, m, lower, upper = w["n"], w["m"], w["lower"], w["upper"]
    try:
        score, _, width = run_fill(n, m, lower, upper, w["code1"], w["code2"], w["matrix"], w["gap"], w["local"], concrete=True)
    except MemorySafety as e:
        return False, f"[source-level] {e}"
    ref = reference_concrete(n, m, w["code1"], w["code2"], w["matrix"], w["gap"], w["local"])
    for si in range(n):
        for sj in range(max(0, si + lower), min(m, si + upper + 1)):
            v = int(score.data[si + 1][sj - si - lower + 1].e)
            r = ref[si + 1][sj + 1]
            if v > r or (w["local"] and v < 0) or v != band_reference(w, si, sj, score):
                return False, f"[source-level] cell ({si},{sj}) holds {v}, best alignment ending there scores {r} (band {lower}..{upper})"
    return True, "[source-level] ok"


def band_reference(w, si, sj, score):
    n, m, lower, upper, g, M = w["n"], w["m"], w["lower"], w["upper"], w["gap"], w["matrix"]
    inband = lambda a, b: -1 <= a < n and -1 <= b < m and lower <= b - a <= upper
    S = lambda a, b: 0 if a < 0 or b < 0 else int(score.data[a + 1][b - a - lower + 1].e)
    cands = [S(si - 1, sj - 1) + M[w["code1"][si]][w["code2"][sj]]]
    if inband(si, sj - 1):
        cands.append(S(si, sj - 1) + g)
    if inband(si - 1, sj):
        cands.append(S(si - 1, sj) + g)
    return max(max(cands), 0) if w["local"] else max(cands)


def reference_concrete(n, m, c1, c2, M, g, local):
    ref = [[0] * (m + 1) for _ in range(n + 1)]
    for i in range(1, n + 1):
        for j in range(1, m + 1):
            v = max(ref[i - 1][j - 1] + M[c1[i - 1]][c2[j - 1]], ref[i - 1][j] + g, ref[i][j - 1] + g)
            ref[i][j] = max(v, 0) if local else v
    return ref


def real_fill(w):
    """replay through the public API: align_banded's score never exceeds the optimal (semi-global / local) score and
    equals it when the band covers every diagonal"""
    import numpy as np
    import biotite.sequence as seq
    import biotite.sequence.align as align
    if state() != "fresh":
        return source_fill(w)
    src = source_fill(w)
    n, m, lower, upper = w["n"], w["m"], w["lower"], w["upper"]
    A = len(w["matrix"])
    alph = seq.Alphabet(list("abcdefgh"[:A]))
    s1, s2 = seq.GeneralSequence(alph), seq.GeneralSequence(alph)
    s1.code, s2.code = np.array(w["code1"], dtype=np.uint8), np.array(w["code2"], dtype=np.uint8)
    matrix = align.SubstitutionMatrix(alph, alph, np.array(w["matrix"], dtype=np.int32))
    try:
        alns = align.align_banded(s1, s2, matrix, band=(lower, upper), gap_penalty=int(w["gap"]), local=bool(w["local"]), max_number=1)
    except ValueError as e:
        return src[0], f"align_banded refused: {e}; {src[1]}"
    ref = reference_concrete(n, m, w["code1"], w["code2"], w["matrix"], w["gap"], w["local"])
    if w["local"]:
        best = max(max(r) for r in ref)
    else:
        best = max([ref[n][j] for j in range(m + 1)] + [ref[i][m] for i in range(n + 1)])
    got = alns[0].score if alns else None
    if got is not None and got > best:
        return False, f"align_banded score {got} exceeds the optimal score {best}"
    return src


def ob_banded_fill(tier):
    k = kernel()
    cases = []
    A = 2
    shapes = [(2, 2), (2, 3), (3, 3)] if tier == "quick" else [(2, 2), (2, 3), (3, 3), (3, 4), (2, 4)]
    for n, m in shapes:
        bands = sorted({crop(n, m, lo, up) for lo in range(-n, m + 1) for up in range(lo, m + 1) if not (n + up <= 0 or lo >= m)})
        bands = [b for b in bands if b[1] - b[0] + 1 >= 1]
        if tier == "quick" and len(bands) > 6:
            bands = bands[::max(1, len(bands) // 6)][:6] + [bands[-1]] + [crop(n, m, -n, m)]
            bands = sorted(set(bands))
        for lower, upper in bands:
            for local in (False, True):
                M = [[z3.Int(f"m{a}_{b}") for b in range(A)] for a in range(A)]
                c1 = [z3.BitVec(f"x{i}", 8) for i in range(n)]
                c2 = [z3.BitVec(f"y{j}", 8) for j in range(m)]
                g = z3.Int("g")
                base = [z3.And(e >= -B, e <= B) for row in M for e in row] + [z3.ULT(c, A) for c in c1 + c2] + [g >= -B, g <= 0]

                def run(n=n, m=m, lower=lower, upper=upper, local=local, M=M, c1=c1, c2=c2, g=g):
                    try:
                        score, trace, width = run_fill(n, m, lower, upper, c1, c2, M, g, local)
                    except MemorySafety:
                        return False

                    def sub(i, j):
                        r = M[0][0]
                        for a in range(A):
                            for b in range(A):
                                r = z3.If(z3.And(c1[i] == a, c2[j] == b), M[a][b], r)
                        return r
                    ref = [[z3.IntVal(0)] * (m + 1) for _ in range(n + 1)]
                    for i in range(1, n + 1):
                        for j in range(1, m + 1):
                            v = zmax(ref[i - 1][j - 1] + sub(i - 1, j - 1), ref[i - 1][j] + g, ref[i][j - 1] + g)
                            ref[i][j] = zmax(v, z3.IntVal(0)) if local else v
                    conds = []
                    # cells one step before the sequences (index -1) lie in the table when their diagonal is in the band and
                    # hold 0 (free start)
                    inband = lambda si, sj: -1 <= si < n and -1 <= sj < m and lower <= sj - si <= upper
                    S = lambda si, sj: z3.IntVal(0) if si < 0 or sj < 0 else kx_c08.bv(score.data[si + 1][sj - si - lower + 1])
                    for si in range(n):
                        for sj in range(max(0, si + lower), min(m, si + upper + 1)):
                            cell = S(si, sj)
                            # never above the unbanded optimum for this end point
                            conds.append(cell <= ref[si + 1][sj + 1])
                            # the banded recurrence stated in SEQUENCE coordinates (the kernel works in band coordinates):
                            # diagonal predecessor (free start at the sequence borders), gap moves only from cells of the band
                            cands = [S(si - 1, sj - 1) + sub(si, sj)]
                            if inband(si, sj - 1):
                                cands.append(S(si, sj - 1) + g)
                            if inband(si - 1, sj):
                                cands.append(S(si - 1, sj) + g)
                            want = zmax(*cands)
                            conds.append(cell == (zmax(want, z3.IntVal(0)) if local else want))
                    return z3.And(*conds, *[s_ for s_ in rt.SAFETY]) if conds else True
                cases.append(Case(f"banded fill {n}x{m} band {lower}..{upper} {'local' if local else 'semi-global'}", base, run,
                                  dict(n=n, m=m, lower=lower, upper=upper, local=local, code1=[z3.BV2Int(c) for c in c1], code2=[z3.BV2Int(c) for c in c2],
                                       matrix=[[e for e in row] for row in M], gap=g), real_fill, timeout=600))
    return cases, dict(functions=k.functions_info(), note=validate())


def validate():
    st = state()
    if st != "fresh":
        return f"skipped: binary_state={st}"
    n = 0
    for w in [dict(n=2, m=3, lower=-1, upper=1, local=False, code1=[0, 1], code2=[1, 0, 1], matrix=[[2, -1], [-1, 3]], gap=-2),
              dict(n=3, m=3, lower=0, upper=0, local=True, code1=[0, 1, 0], code2=[0, 0, 0], matrix=[[1, -3], [-3, 1]], gap=-1),
              dict(n=2, m=2, lower=-1, upper=1, local=False, code1=[1, 1], code2=[0, 1], matrix=[[5, 0], [0, 5]], gap=0)]:
        a, b = source_fill(w), real_fill(w)
        if a[0] != b[0]:
            raise AssertionError(f"translator: {w}: lowered {a} vs compiled {b}")
        n += 1
    return f"{n} concrete vectors: lowered source consistent with the compiled align_banded; binary_state={st}"


# ------------------------------------------------------------------------------------------ affine gap penalty
def neg_inf_affine(go, ge, min_score, concrete=False):
    """align_banded: neg_inf = INT32_MIN - min(gap_open, gap_ext) - (min_score if min_score < 0)"""
    return _sentinel(True, (go, ge), min_score)


def run_fill_affine(n, m, lower, upper, c1, c2, M, go, ge, local, concrete=False):
    k = kernel()
    k._activate()
    width = upper - lower + 1
    mn = M[0][0]
    for row in M:
        for e in row:
            mn = (min(mn, e) if concrete else z3.If(e < mn, e, mn))
    ninf = neg_inf_affine(go, ge, mn, concrete)
    mk = (lambda v: CInt.const(int(v), I32)) if concrete else (lambda v: CInt(v, I32) if not isinstance(v, int) else CInt.const(v, I32))
    mt = View([[mk(ninf) if j in (0, width + 1) else CInt.const(0, I32) for j in range(width + 2)] for _ in range(n + 1)], I32)
    g1 = View([[mk(ninf) for j in range(width + 2)] for _ in range(n + 1)], I32)
    g2 = View([[mk(ninf) for j in range(width + 2)] for _ in range(n + 1)], I32)
    trace = const_view([[0] * (width + 2) for _ in range(n + 1)], "uint8")
    code1 = View([CInt(c, U8) if not isinstance(c, int) else CInt.const(c, U8) for c in c1], U8)
    code2 = View([CInt(c, U8) if not isinstance(c, int) else CInt.const(c, U8) for c in c2], U8)
    matrix = View([[mk(e) for e in row] for row in M], I32)
    INT = rt.TYPES["int"]
    k["_fill_align_table_affine"](code1, code2, matrix, trace, mt, g1, g2, CInt.const(lower, INT), CInt.const(upper, INT), mk(go), mk(ge), bool(local))
    return mt, g1, g2, ninf


def real_fill_affine(w):
    """public API: align_banded with the affine penalty never reports more than the unrestricted optimum"""
    import numpy as np
    import biotite.sequence as seq
    import biotite.sequence.align as align
    n, m, lower, upper = w["n"], w["m"], w["lower"], w["upper"]
    A = len(w["matrix"])
    go, ge = int(w["go"]), int(w["ge"])
    if state() != "fresh":
        return source_fill_affine(w)
    alph = seq.Alphabet(list("abcdefgh"[:A]))
    s1, s2 = seq.GeneralSequence(alph), seq.GeneralSequence(alph)
    s1.code, s2.code = np.array(w["code1"], dtype=np.uint8), np.array(w["code2"], dtype=np.uint8)
    matrix = align.SubstitutionMatrix(alph, alph, np.array(w["matrix"], dtype=np.int32))
    try:
        alns = align.align_banded(s1, s2, matrix, band=(lower, upper), gap_penalty=(go, ge), local=bool(w["local"]), max_number=1)
    except ValueError as e:
        return True, f"align_banded refused: {e}"
    if not alns:
        return True, "no alignment"
    best = kx_c08.brute_force(w["code1"], w["code2"], w["matrix"], (go, ge), True, bool(w["local"]), False)
    if alns[0].score > best:
        return False, f"align_banded score {alns[0].score} exceeds the optimal score {best} (gap {(go, ge)}, band {lower}..{upper})"
    return True, f"score {alns[0].score} <= optimum {best}"


def source_fill_affine(w):
    n, m, lower, upper = w["n"], w["m"], w["lower"], w["upper"]
    try:
        mt, g1, g2, ninf = run_fill_affine(n, m, lower, upper, w["code1"], w["code2"], w["matrix"], int(w["go"]), int(w["ge"]), w["local"], concrete=True)
    except MemorySafety as e:
        return False, f"[source-level] {e}"
    cap = max(0, max(max(r) for r in w["matrix"])) * min(n, m)
    hi = max(int(t.data[si + 1][sj - si - lower + 1].e) for t in (mt, g1, g2) for si in range(n) for sj in range(max(0, si + lower), min(m, si + upper + 1)))
    return hi <= cap, f"[source-level] largest table entry {hi}, no alignment can score more than {cap}"


_known = {}
WITNESS = dict(n=2, m=2, lower=-1, upper=0, local=False, code1=[0, 0], code2=[0, 0], matrix=[[3, -2], [1, -1]], go=-4, ge=-4)


def overflow_known():
    """the recorded finding is active while its witness still fails on the real code"""
    if "v" not in _known:
        try:
            _known["v"] = not real_fill_affine(WITNESS)[0]
        except Exception:
            _known["v"] = True
    return _known["v"]


def ob_banded_fill_affine(tier):
    """claim: no cell of the three score tables exceeds the largest value any alignment can reach (the largest positive
    matrix entry times min(n, m)) - in particular the 'negative infinity' sentinel never wraps around"""
    k = kernel()
    cases = []
    A = 2
    shapes = [(2, 2), (2, 3)] if tier == "quick" else [(2, 2), (2, 3), (3, 3)]
    for n, m in shapes:
        bands = sorted({crop(n, m, lo, up) for lo in range(-n, m + 1) for up in range(lo, m + 1) if not (n + up <= 0 or lo >= m)})
        if tier == "quick" and (n, m) != (2, 2):
            bands = sorted(set([bands[0], bands[len(bands) // 2], bands[-1], crop(n, m, -n, m)]))
        for lower, upper in bands:
            for local in (False, True):
                M = [[z3.Int(f"m{a}_{b}") for b in range(A)] for a in range(A)]
                c1 = [z3.BitVec(f"x{i}", 8) for i in range(n)]
                c2 = [z3.BitVec(f"y{j}", 8) for j in range(m)]
                go, ge = z3.Int("go"), z3.Int("ge")
                base = [z3.And(e >= -B, e <= B) for row in M for e in row] + [z3.ULT(c, A) for c in c1 + c2] + [go >= -B, go <= 0, ge >= -B, ge <= 0]

                def run(n=n, m=m, lower=lower, upper=upper, local=local, M=M, c1=c1, c2=c2, go=go, ge=ge):
                    rt.WRAPS[0] = 0
                    try:
                        mt, g1, g2, ninf = run_fill_affine(n, m, lower, upper, c1, c2, M, go, ge, local)
                    except MemorySafety:
                        return False
                    if rt.WRAPS[0] and overflow_known():
                        # a path on which an int32 sum wrapped around: this is the recorded finding
                        # C09-banded-affine-overflow exactly when opening + extension together exceed what the sentinel
                        # was corrected by (one penalty and the lowest score); a wrap for any other input is reported
                        mn_ = M[0][0]
                        for row in M:
                            for e in row:
                                mn_ = z3.If(e < mn_, e, mn_)
                        return go + ge < z3.If(go < ge, go, ge) + z3.If(mn_ < 0, mn_, 0)
                    mx = M[0][0]
                    for row in M:
                        for e in row:
                            mx = z3.If(e > mx, e, mx)
                    cap = z3.If(mx > 0, mx, 0) * min(n, m)
                    conds = []
                    for t in (mt, g1, g2):
                        for si in range(n):
                            for sj in range(max(0, si + lower), min(m, si + upper + 1)):
                                conds.append(kx_c08.bv(t.data[si + 1][sj - si - lower + 1]) <= cap)
                    return z3.And(*conds)
                cases.append(Case(f"banded affine fill {n}x{m} band {lower}..{upper} {'local' if local else 'semi-global'}", base, run,
                                  dict(n=n, m=m, lower=lower, upper=upper, local=local, code1=[z3.BV2Int(c) for c in c1], code2=[z3.BV2Int(c) for c in c2],
                                       matrix=[[e for e in row] for row in M], go=go, ge=ge), real_fill_affine, timeout=600,
                                  known=[("C09-banded-affine-overflow", z3.BoolVal(False),
                                          dict(n=2, m=2, lower=-1, upper=0, local=False, code1=[0, 0], code2=[0, 0], matrix=[[3, -2], [1, -1]], go=-4, ge=-4),
                                          "align_banded with an affine penalty: the int32 'negative infinity' sentinel wraps around (scores near 2^31)")]))
    return cases, dict(functions=k.functions_info(), note="table layout of align_banded (affine) transcribed; its sentinel formula is cut out of the current wrapper source (vf/kx/wslice.py)")
