from vf.sx.ob import SX

B = "src/biotite/structure/bonds.pyx:"
KXSTUBS = ["numpy calls inside the kernels (zeros/ones/full/array/append/delete/boolean-mask indexing/max) -> symnp shim over lists of C values",
           "self -> object with _bonds, _atom_count, _max_bonds_per_atom (the three attributes the kernels touch)",
           "pre-state = arbitrary table satisfying the representation invariant (sorted pairs, no duplicates, indices < n, cached max_bonds_per_atom >= true maximum)"]
OBLIGATIONS = [
    SX("kx_to_positive_index", "kx_c02", "ob_index", cls="S", engine="KX", quick=120, parts=1,
       functions=[B + "_to_positive_index"], stubs=["C integers as bit-vectors (exact machine semantics)"],
       bounds="index: every int32, atom count: every uint32 (no bound)"),
    SX("kx_bondlist_step", "kx_c02", "ob_step", cls="S", engine="KX", quick=300, thorough=1800, parts={"quick": 5, "thorough": 10},
       functions=[B + n for n in ("BondList.get_bonds", "BondList._get_max_bonds_per_atom", "BondList.add_bond", "BondList.remove_bond", "BondList.remove_bonds_to", "_sort", "_to_positive_index")],
       stubs=KXSTUBS,
       bounds="4 atoms, 0..2 (thorough 0..3) bonds with fully symbolic endpoints and types, symbolic atom indices in [-n, n), symbolic new type; one step of each operation; asserted: no out-of-bounds access (the class disables bounds checks), invariant preserved, mapping model"),
    SX("sx_bondlist_ops", "sx_c02_ops", "ob_ops", cls="E", quick=300, thorough=3000, parts={"quick": 11, "thorough": 11},
       functions=[B + "BondList (compiled): __init__, add_bond, remove_bond, remove_bonds_to, remove_bonds, merge, concatenate, __add__, offset_indices, remove_aromaticity, remove_bond_order, __getitem__, copy and every view"],
       bounds="3 atoms, 6 construction tables (duplicates, reversed pairs, negative indices, all type classes), all op sequences of length 2 (thorough 3) over 11 operations with argument menus; all views compared with the mapping model after every step"),
    SX("sx_bondlist_index", "sx_c02_ops", "ob_index_objects", cls="E", quick=300, parts={"quick": 6, "thorough": 6},
       functions=[B + "BondList.__getitem__", B + "_invert_index", B + "_to_positive_index_array", B + "_to_index_array"],
       bounds="12 index objects (masks, unsorted index arrays, negative index arrays, stepped/reversed slices) on every table of 3 rows from an 8-row menu"),
]
EXPLANATION = "C02: BondList as a mapping of unordered pairs to types; index safety."
ASSUMPTIONS = ["self-bonds (i,i) are excluded as degenerate input"]
