from vf.sx.ob import SX

S = "src/biotite/structure/"
STUBS = ["REAL-number semantics: numpy replaced inside superimpose.py / geometry.py by vf/sx/rnp.py (exact rationals with symbolic numerators)",
         "atoms.coord() -> identity on arrays"]
OBLIGATIONS = [
    SX("sx_affine", "sx_c16", "ob_affine", cls="S", quick=300, thorough=900, parts={"quick": 5, "thorough": 7},
       functions=[S + "superimpose.py:AffineTransformation.__init__/apply/as_matrix", S + "superimpose.py:_expand_dims/_3d_identity/_reshape_to_3d/_multi_matmul"],
       stubs=STUBS,
       bounds="1 model x 2 atoms as array, 1 x 1 and 2 x 2 as stack, 2 models with ONE shared target / centre translation (a stack fitted onto a single model) (thorough + 3 x 1, 2 x 3): rotation = ANY 3x3 matrix with entries m/2, |m| <= 8, translations and coordinates likewise, all symbolic: apply(x) == R(x + c) + t per model and == (as_matrix() @ [x,1])[:3]; last matrix row (0,0,0,1)"),
    SX("sx_frame", "sx_c16", "ob_frame", cls="S", quick=300, thorough=900, parts={"quick": 6, "thorough": 8},
       functions=[S + "superimpose.py:superimpose (centring, mask handling, AffineTransformation construction)", S + "geometry.py:centroid"],
       stubs=STUBS + ["_get_rotation_matrices (SVD via LAPACK) -> an ARBITRARY symbolic 3x3 matrix per model: the claims hold for whatever rotation the solver returns"],
       bounds="3 atoms, 1 model (array) with 4 anchor masks and 2 models (stack) with 2 (4) masks, all coordinates m/2 with |m| <= 8 symbolic: fitted == R(x - centroid_mask(mobile)) + centroid_mask(fixed); masked centroid of fitted == masked centroid of fixed (optimal translation); transformation.apply(mobile) == fitted"),
    SX("sx_outliers", "sx_c16", "ob_outliers", cls="E", quick=200, parts=2,
       functions=[S + "superimpose.py:superimpose_without_outliers (anchor bookkeeping; real numpy)"],
       bounds="2 point sets of 10 atoms, rigidly moved, with 0..3 strongly displaced atoms x max_iterations 1/2/10 x min_anchors 3/6/9 (72 combinations): the returned transformation is the superimposition on exactly the returned anchors (tolerance 2e-3), reproduces the returned coordinates, anchor count >= min_anchors, all atoms are anchors for max_iterations=1"),
    SX("sx_homologs", "sx_c16", "ob_homologs", cls="E", quick=200, parts=4,
       functions=[S + "superimpose.py:superimpose_homologs/_find_matching_anchors/_get_backbone_anchor_indices (real numpy, compiled align_optimal, synthetic component dictionary)"],
       bounds="2 peptides (12 and 10 residues, CA + CB per residue) x mobile sequence {identical, one deletion, two dissimilar substitutions, two-residue insertion, truncated at both ends} x 0..2 displaced residues x 1 or 2 chains x array / stack: anchors are increasing one-to-one pairs of CA atoms of corresponding residues in corresponding chains, the returned transformation is the superimposition on exactly the returned anchors and reproduces the returned structure, every undisturbed copy of a fixed residue lands on it (5e-3)"),
    SX("sx_degenerate", "sx_c16", "ob_degenerate", cls="E", quick=200, parts=4,
       functions=[S + "superimpose.py:superimpose/_get_rotation_matrices (SVD + reflection correction; real numpy / LAPACK)"],
       bounds="7 point sets (general, planar ring, planar irregular, collinear, two atoms, one atom, mirror-ambiguous) x 5 rotation axes x 5 angles (0, pi, pi/2, 2, pi-0.001) x with / without an extra atom outside the anchor set: rotation orthonormal with determinant +1, rigid copy fitted back with RMSD < 2e-3, the off-plane atom of planar anchors returns to its place (no mirror image); a DEFORMED copy of each set is fitted with an RMSD over the anchors that is not above the closed-form optimum (singular values of the covariance, float64) by more than 2e-3; apply() on integer / float arrays, stack-shaped arrays and atom arrays == 4x4 form; hand-made transformations from integer / float rotation matrices and translations"),
]
EXPLANATION = "C16 (algebraic clauses symbolically; properness / rigid copies / anchor bookkeeping on concrete point sets): the returned transformation equals its 4x4 matrix form, reproduces the fitted coordinates, acts model-wise, and centres the anchor atoms."
ASSUMPTIONS = ["real-number semantics; the optimality / properness of the rotation (SVD + reflection correction) is NOT decided"]
