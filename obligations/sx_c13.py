"""C13 (SX engine): equality / hashing of locations and features.  The position variables are z3 integers; Location /
Feature / Annotation hashing goes through Python's hash() of ints and frozensets (C code), so the values are case-split
(class E) - CrossHair could not finish this obligation because hash() realises every symbolic integer."""
import z3

from vf.sx.core import cur
from vf.sx.ob import Case


def check(f1, l1, f2, l2, r1, r2, d1, d2):
    from biotite.sequence import Location, Feature, Annotation
    S = Location.Strand
    D = Location.Defect
    defects = [D.NONE, D.MISS_LEFT, D.BEYOND_RIGHT, D.MISS_LEFT | D.MISS_RIGHT]
    a = Location(f1, l1, S.REVERSE if r1 else S.FORWARD, defects[d1])
    b = Location(f2, l2, S.REVERSE if r2 else S.FORWARD, defects[d2])
    same = (f1, l1, r1, d1) == (f2, l2, r2, d2)
    if (a == b) != same or (a != b) == same:
        return f"Location equality: {a!r} vs {b!r}"
    fa, fb = Feature("k", [a], {"q": "1"}), Feature("k", [b], {"q": "1"})
    if (fa == fb) != same:
        return f"Feature equality: {fa!r} vs {fb!r}"
    if same and (hash(a) != hash(b) or hash(fa) != hash(fb)):
        return "equal objects hash differently"
    if (fa in Annotation([fb])) != same:
        return "Annotation.__contains__"
    if len(Annotation([fa, fb])) != (1 if same else 2):
        return f"Annotation of two features has {len(Annotation([fa, fb]))} entries"
    if len({a, b}) != (1 if same else 2) or len({fa, fb}) != (1 if same else 2):
        return "set of locations / features"
    # a feature with both locations equals the same feature with the locations in the other order
    if Feature("k", [a, b]) != Feature("k", [b, a]) or hash(Feature("k", [a, b])) != hash(Feature("k", [b, a])):
        return "location order matters for feature equality / hash"
    # the qualifiers handed out by a feature are not its own dictionary: editing them changes neither the feature nor
    # the annotations (and their copies) that hold it
    ann = Annotation([fa])
    cp = ann.copy()
    h0 = hash(fa)
    q = fa.qual
    q["q"] = "edited"
    q["new"] = "x"
    for f_ in list(cp) + list(ann):
        f_.qual["q"] = "edited through a copy"
    if fa.qual != {"q": "1"} or hash(fa) != h0 or fa not in ann or list(cp)[0].qual != {"q": "1"} or cp != ann:
        return f"editing the dictionary returned by Feature.qual changed the feature: {fa.qual}"
    # different key or qualifiers -> different features
    if Feature("k", [a], {"q": "1"}) == Feature("j", [a], {"q": "1"}) or Feature("k", [a], {"q": "1"}) == Feature("k", [a], {"q": "2"}):
        return "features with different key / qualifiers compare equal"
    return None


def _rep(w):
    try:
        r = check(w["f1"], w["l1"], w["f2"], w["l2"], w["r1"], w["r2"], w["d1"], w["d2"])
        return r is None, str(r)
    except Exception as e:
        return False, f"{type(e).__name__}: {e}"


def ob_hash(tier):
    f1, l1, f2, l2, r1, r2, d1, d2 = z3.Ints("f1 l1 f2 l2 r1 r2 d1 d2")
    hi = 3 if tier == "quick" else 5
    vals = list(range(1, hi + 1)) + [2 ** 40]
    dom = lambda v: z3.Or(*[v == x for x in vals])
    base = [dom(f1), dom(l1), dom(f2), dom(l2), f1 <= l1, f2 <= l2, r1 >= 0, r1 <= 1, r2 >= 0, r2 <= 1, d1 >= 0, d1 <= 3, d2 >= 0, d2 <= 3]

    def run():
        ex = cur()
        c = lambda v, rng: ex.choose(v, rng)
        return check(c(f1, vals), c(l1, vals), c(f2, vals), c(l2, vals), c(r1, (0, 1)), c(r2, (0, 1)), c(d1, range(4)), c(d2, range(4))) is None
    case = Case("location / feature equality and hashing", base, run,
                dict(f1=f1, l1=l1, f2=f2, l2=l2, r1=r1, r2=r2, d1=d1, d2=d2), _rep)
    return [Case(f"{case.label} [d1={a} d2={b}]", base + [d1 == a, d2 == b], run, case.witness, _rep) for a in range(4) for b in range(4)]


# ------------------------------------------------------------------ feature indexing over the whole IUPAC alphabet (E)
IUPAC = "ACGTRYWSMKHBVDN"
IUPAC_COMP = dict(zip("ACGTRYWSMKHBVDN", "TGCAYRWSKMDVBHN"))       # complement pairing of the nomenclature


def check_iupac(rot, ss, f1, l1, f2, l2, rev, two, mixed, nested=0):
    """aseq[feature] / aseq[feature] = ... / reverse_complement on a sequence holding every IUPAC letter: reverse-strand
    locations are reverse-complemented with the IUPAC pairing (per base)"""
    from biotite.sequence import Location, Feature, Annotation, AnnotatedSequence, NucleotideSequence
    S = Location.Strand
    text = IUPAC[rot:] + IUPAC[:rot]
    n = len(text)
    rc = lambda s: "".join(IUPAC_COMP[c] for c in reversed(s))
    strand = S.REVERSE if rev else S.FORWARD
    locs = [Location(ss + f1, ss + l1, strand)]
    if two:
        locs.append(Location(ss + f2, ss + l2, (S.FORWARD if rev else S.REVERSE) if mixed else strand))
    feat = Feature("CDS", locs, {"q": "v"})
    aseq = AnnotatedSequence(Annotation([feat]), NucleotideSequence(text), sequence_start=ss)
    if two and mixed:
        # documented: a feature with locations on both strands cannot be used as an index
        try:
            aseq[feat]
        except ValueError:
            return None
        return f"a feature with locations on both strands was accepted as index ({locs})"
    got = str(aseq[feat])
    parts = []
    order = sorted(locs, key=lambda l: l.first)
    if all(l.strand == S.REVERSE for l in locs):
        order = sorted(locs, key=lambda l: l.last, reverse=True)
    for l in order:
        seg = text[l.first - ss: l.last - ss + 1]
        parts.append(rc(seg) if l.strand == S.REVERSE else seg)
    want = "".join(parts)
    if got != want:
        return f"aseq[feature] = {got}, per-base model {want} (sequence {text}, locations {locs})"
    # complement / reverse complement of the sequence itself
    if str(aseq.sequence.complement()) != "".join(IUPAC_COMP[c] for c in text) or str(aseq.sequence.reverse().complement()) != rc(text):
        return f"complement of {text}: {aseq.sequence.complement()}"
    # reverse complement of the annotated sequence: every base of every location keeps its (complemented) symbol
    r = aseq.reverse_complement(sequence_start=ss)
    if str(r.sequence) != rc(text):
        return f"reverse_complement sequence {r.sequence}"
    rfeat = list(r.annotation)[0]
    if str(r[rfeat]) != want:
        return f"feature of the reverse complement reads {r[rfeat]}, original feature {want}"
    back = r.reverse_complement(sequence_start=ss)
    if str(back.sequence) != text or back.annotation != aseq.annotation or back.sequence_start != ss:
        return "reverse complement twice does not restore the original"
    if nested:
        return None          # (overlapping locations: assignment through the feature would write some bases twice)
    # assignment through the feature, read back and per base
    new = (IUPAC * 2)[3: 3 + len(want)]
    aseq[feat] = NucleotideSequence(new, ambiguous=True)
    if str(aseq[feat]) != new:
        return f"read after write through the feature: {aseq[feat]} vs {new}"
    whole = str(aseq.sequence)
    pos = 0
    for l in order:
        k = l.last - l.first + 1
        seg = new[pos: pos + k]
        pos += k
        exp = rc(seg) if l.strand == S.REVERSE else seg
        if whole[l.first - ss: l.last - ss + 1] != exp:
            return f"assignment through {l}: bases {whole[l.first - ss: l.last - ss + 1]}, expected {exp}"
    covered = {p for l in locs for p in range(l.first - ss, l.last - ss + 1)}
    if any(whole[p] != text[p] for p in range(n) if p not in covered):
        return "assignment through a feature changed bases outside it"
    return None


def ob_iupac(tier):
    rot, ss, f1, l1, f2, l2, rev, two, mixed = z3.Ints("rot ss f1 l1 f2 l2 rev two mixed")
    nest = z3.Int("nest")
    n = len(IUPAC)
    starts = [1, 7, 2 ** 30]
    base = [rot >= 0, rot < 5, ss >= 0, ss < 3, f1 >= 0, f1 <= l1, f2 <= l2, l2 < n, l1 - f1 <= 4, l2 - f2 <= 4, nest >= 0, nest <= 1,
            z3.Implies(nest == 0, z3.And(l1 < f2, f2 - l1 <= 3)), z3.Implies(nest == 1, z3.And(two == 1, mixed == 0, f1 < f2, l2 < l1)),
            rev >= 0, rev <= 1, two >= 0, two <= 1, mixed >= 0, mixed <= 1, z3.Implies(two == 0, z3.And(mixed == 0, f2 == l1 + 1, l2 == f2))]

    def run():
        ex = cur()
        c = ex.choose
        a = c(f1, range(n))
        b = c(l1, range(a, min(n, a + 5)))
        t = c(two, (0, 1))
        ns = 0
        if t:
            ns = c(nest, (0, 1)) if b - a >= 2 else 0
            if ns:
                # second location strictly inside the first one
                d = c(f2, range(a + 1, b))
                e = c(l2, range(d, b))
                m = 0
            else:
                d = c(f2, range(b + 1, min(n, b + 4)))
                e = c(l2, range(d, min(n, d + 5)))
                m = c(mixed, (0, 1))
        else:
            if b + 1 >= n:
                return True
            d, e, m = b + 1, b + 1, 0
        return check_iupac(3 * c(rot, range(5)), starts[c(ss, range(3))], a, b, d, e, c(rev, (0, 1)), t, m, ns) is None

    def rep(w):
        try:
            r = check_iupac(3 * w["rot"], starts[w["ss"]], w["f1"], w["l1"], w["f2"], w["l2"], w["rev"], w["two"], w["mixed"], w.get("nest", 0))
            return r is None, str(r)
        except Exception as e:
            import traceback
            return False, f"{type(e).__name__}: {e} | {traceback.format_exc()[-300:]}"
    cases = []
    for r_ in range(5):
        cases.append(Case(f"feature indexing over the IUPAC alphabet [rotation {3 * r_}]", base + [rot == r_], run,
                          dict(rot=rot, ss=ss, f1=f1, l1=l1, f2=f2, l2=l2, rev=rev, two=two, mixed=mixed, nest=nest), rep))
    return cases
