"""C13 (SX engine): equality / hashing of locations and features.  The position variables are z3 integers; Location /
Feature / Annotation hashing goes through Python's hash() of ints and frozensets (C code), so the values are case-split
(class E) - CrossHair could not finish this obligation because hash() realises every symbolic integer."""
import z3

from vf.sx.core import cur
from vf.sx.ob import Case


def check(f1, l1, f2, l2, r1, r2, d1, d2):
    from biotite.sequence import Location, Feature, Annotation
    S = Location.Strand
    D = Location.Defect
    defects = [D.NONE, D.MISS_LEFT, D.BEYOND_RIGHT, D.MISS_LEFT | D.MISS_RIGHT]
    a = Location(f1, l1, S.REVERSE if r1 else S.FORWARD, defects[d1])
    b = Location(f2, l2, S.REVERSE if r2 else S.FORWARD, defects[d2])
    same = (f1, l1, r1, d1) == (f2, l2, r2, d2)
    if (a == b) != same or (a != b) == same:
        return f"Location equality: {a!r} vs {b!r}"
    fa, fb = Feature("k", [a], {"q": "1"}), Feature("k", [b], {"q": "1"})
    if (fa == fb) != same:
        return f"Feature equality: {fa!r} vs {fb!r}"
    if same and (hash(a) != hash(b) or hash(fa) != hash(fb)):
        return "equal objects hash differently"
    if (fa in Annotation([fb])) != same:
        return "Annotation.__contains__"
    if len(Annotation([fa, fb])) != (1 if same else 2):
        return f"Annotation of two features has {len(Annotation([fa, fb]))} entries"
    if len({a, b}) != (1 if same else 2) or len({fa, fb}) != (1 if same else 2):
        return "set of locations / features"
    # a feature with both locations equals the same feature with the locations in the other order
    if Feature("k", [a, b]) != Feature("k", [b, a]) or hash(Feature("k", [a, b])) != hash(Feature("k", [b, a])):
        return "location order matters for feature equality / hash"
    # different key or qualifiers -> different features
    if Feature("k", [a], {"q": "1"}) == Feature("j", [a], {"q": "1"}) or Feature("k", [a], {"q": "1"}) == Feature("k", [a], {"q": "2"}):
        return "features with different key / qualifiers compare equal"
    return None


def _rep(w):
    try:
        r = check(w["f1"], w["l1"], w["f2"], w["l2"], w["r1"], w["r2"], w["d1"], w["d2"])
        return r is None, str(r)
    except Exception as e:
        return False, f"{type(e).__name__}: {e}"


def ob_hash(tier):
    f1, l1, f2, l2, r1, r2, d1, d2 = z3.Ints("f1 l1 f2 l2 r1 r2 d1 d2")
    hi = 3 if tier == "quick" else 5
    vals = list(range(1, hi + 1)) + [2 ** 40]
    dom = lambda v: z3.Or(*[v == x for x in vals])
    base = [dom(f1), dom(l1), dom(f2), dom(l2), f1 <= l1, f2 <= l2, r1 >= 0, r1 <= 1, r2 >= 0, r2 <= 1, d1 >= 0, d1 <= 3, d2 >= 0, d2 <= 3]

    def run():
        ex = cur()
        c = lambda v, rng: ex.choose(v, rng)
        return check(c(f1, vals), c(l1, vals), c(f2, vals), c(l2, vals), c(r1, (0, 1)), c(r2, (0, 1)), c(d1, range(4)), c(d2, range(4))) is None
    case = Case("location / feature equality and hashing", base, run,
                dict(f1=f1, l1=l1, f2=f2, l2=l2, r1=r1, r2=r2, d1=d1, d2=d2), _rep)
    return [Case(f"{case.label} [d1={a} d2={b}]", base + [d1 == a, d2 == b], run, case.witness, _rep) for a in range(4) for b in range(4)]
