"""C15 (SX engine, real-number semantics): periodic displacement and box helpers of geometry.py / box.py.

The real modules are loaded through the SX rewrite with numpy replaced by vf/sx/rnp.py (arrays of exact rationals with
symbolic numerators).  Coordinates are symbolic multiples of 1/8; boxes come from a menu of concrete cells (the exact
inverse of a concrete cell stands for numpy.linalg.inv).  Float rounding is outside; so are the trigonometric functions
(angle, dihedral, unit-cell conversion) and rigid-motion invariance, which have no encodable arithmetic.

  displacement : d = displacement(p, q, box) differs from q - p by a lattice vector and no lattice image of q - p within
                 +-2 cells is shorter - always for orthorhombic cells, for triclinic cells whenever the shortest image is
                 shorter than half the smallest cell height.
  move_inside  : move_inside_box(p) has fractional coordinates in [0, 1) and differs from p by a lattice vector;
                 fraction_to_coord(coord_to_fraction(p)) == p.
"""
import itertools
from fractions import Fraction

import z3

from vf.kx.rat import CRat
from vf.sx import pyload, rnp
from vf.sx.core import cur, SBool
from vf.sx.ob import Case

_cache = {}
GROUP = 4
BOXES = [
    ((4, 0, 0), (0, 5, 0), (0, 0, 3.5)),            # orthorhombic
    ((8, 0, 0), (0, 8, 0), (0, 0, 8)),               # cubic
    ((4, 0, 0), (1, 4, 0), (0.5, 1, 4)),             # triclinic, mild
    ((4, 0, 0), (-1.5, 4, 0), (1, -1, 4)),           # triclinic, negative off-diagonal
    ((5, 0, 0), (2.5, 4, 0), (0, 0, 6)),             # monoclinic, 60-degree-like shear
    ((4, 0, 0), (2, 3.5, 0), (2, 1, 3)),             # triclinic, strong shear
    ((6, -8, 0), (12, 9, 0), (0, 0, 20)),            # orthorhombic (10 x 15 x 20) rotated about z: not axis-aligned
]
QUICK_BOXES = (0, 1, 2, 3, 4, 6)


def mods():
    if "m" not in _cache:
        ident = lambda x: x if isinstance(x, rnp.RArr) else rnp.RNP.array(x)
        util = pyload.load("biotite.structure.util", inject=dict(np=rnp.RNP))
        box = pyload.load("biotite.structure.box", inject=dict(np=rnp.RNP, linalg=rnp.RNP.linalg, vector_dot=util.vector_dot))
        geo = pyload.load("biotite.structure.geometry",
                          inject=dict(np=rnp.RNP, coord=ident, vector_dot=util.vector_dot, coord_to_fraction=box.coord_to_fraction,
                                      fraction_to_coord=box.fraction_to_coord, is_orthogonal=box.is_orthogonal))
        _cache["m"] = (geo, box)
    return _cache["m"]


def frac_box(bi):
    return [[Fraction(x) for x in row] for row in BOXES[bi]]


def inv3(m):
    (a, b, c), (d, e, f), (g, h, i) = m
    det = a * (e * i - f * h) - b * (d * i - f * g) + c * (d * h - e * g)
    adj = [[e * i - f * h, c * h - b * i, b * f - c * e], [f * g - d * i, a * i - c * g, c * d - a * f], [d * h - e * g, b * g - a * h, a * e - b * d]]
    return [[x / det for x in r] for r in adj], det


def smallest_height2(bi):
    """squared smallest height of the cell (volume / face area)^2 as a Fraction"""
    b = frac_box(bi)
    _, det = inv3(b)

    def cross(u, v):
        return [u[1] * v[2] - u[2] * v[1], u[2] * v[0] - u[0] * v[2], u[0] * v[1] - u[1] * v[0]]
    out = None
    for i, j in ((0, 1), (0, 2), (1, 2)):
        c = cross(b[i], b[j])
        area2 = sum(x * x for x in c)
        h2 = det * det / area2
        out = h2 if out is None or h2 < out else out
    return out


def is_orthorhombic(bi):
    """pairwise orthogonal cell vectors (any orientation)"""
    b = frac_box(bi)
    return all(sum(b[i][t] * b[j][t] for t in range(3)) == 0 for i, j in ((0, 1), (0, 2), (1, 2)))


SHAPES = ["(3,) (3,)", "(2,3) (3,)", "(3,) (2,3)", "(2,3) (2,3)", "(1,2,3) (2,3)"]


def _mk(points, shape):
    """points: list of 3-lists of CRat; shape code '(3,)', '(2,3)', '(1,2,3)'"""
    if shape == "(3,)":
        return rnp.RNP.array(points[0])
    if shape == "(2,3)":
        return rnp.RNP.array(points[:2])
    return rnp.RNP.array([points[:2]])


def _rows(arr):
    d = arr.data
    if not isinstance(d[0], list):
        return [d]
    while isinstance(d[0][0], list):
        d = d[0]
    return d


def real_displacement(w):
    import numpy as np
    import biotite.structure as struc
    bi, shape = w["bi"], SHAPES[w["shape"]]
    sp, sq = shape.split()
    P = np.array(w["p"], dtype=np.float32)
    Q = np.array(w["q"], dtype=np.float32)
    mk = lambda pts, code: pts[0] if code == "(3,)" else (pts[:2] if code == "(2,3)" else pts[:2][None])
    box = None if bi is None else np.array(BOXES[bi], dtype=np.float32)
    d = np.asarray(struc.displacement(mk(P, sp), mk(Q, sq), box=box), dtype=np.float64).reshape(-1, 3)
    n = len(d)
    for r in range(n):
        p = P[r if sp != "(3,)" else 0].astype(np.float64)
        q = Q[r if sq != "(3,)" else 0].astype(np.float64)
        diff = q - p
        if box is None:
            if np.abs(d[r] - diff).max() > 1e-4:
                return False, f"displacement row {r} = {d[r].tolist()}, q - p = {diff.tolist()} (shapes {shape})"
            continue
        b = box.astype(np.float64)
        fr = np.linalg.solve(b.T, (d[r] - diff))
        if np.abs(fr - np.round(fr)).max() > 1e-3:
            return False, f"displacement row {r} = {d[r].tolist()} differs from q - p = {diff.tolist()} by a non-lattice vector (fractions {fr.tolist()}, shapes {shape})"
        best = min(float(((d[r] + i * b[0] + j * b[1] + k * b[2]) ** 2).sum()) for i, j, k in itertools.product(range(-3, 4), repeat=3))
        h2 = float(smallest_height2(bi))
        mine = float((d[r] ** 2).sum())
        if mine > best + 1e-3 and (is_orthorhombic(bi) or best < h2 / 4 - 1e-3):
            return False, f"displacement row {r} = {d[r].tolist()} (length^2 {mine}) is not the shortest image (length^2 {best}) in box {BOXES[bi]}"
    return True, "ok"


def ob_displacement(tier):
    """points are symbolic multiples of 1/8; every combination of argument shapes; with and without a box"""
    geo, _ = mods()
    cases = []
    LIM = 200 if tier == "quick" else 1000
    allM = [m for m in itertools.product(range(-2, 3), repeat=3) if m != (0, 0, 0)]
    plans = [(None, si) for si in range(len(SHAPES))]
    for bi in (QUICK_BOXES if tier == "quick" else range(len(BOXES))):
        plans.append((bi, 0))
    for bi in (0, 4, 6):          # orthorhombic, monoclinic, rotated orthorhombic
        plans += [(bi, si) for si in (1, 2, 4)]
    for bi, si in plans:
        sp, sq = SHAPES[si].split()
        P = [[z3.Int(f"p{r}{d}") for d in "xyz"] for r in range(2)]
        Q = [[z3.Int(f"q{r}{d}") for d in "xyz"] for r in range(2)]
        if si == 0 or bi is None:
            base = [z3.And(v >= -LIM, v <= LIM) for row in P + Q for v in row]
        else:
            # two point pairs through a box: smaller range (the shape dispatch is what these cases add)
            base = [z3.And(v >= -40, v <= 40) for row in P + Q for v in row]
        if si == 0:
            base += [v == 0 for v in P[0]]        # one point pair: only q - p matters
        ortho = bi is not None and is_orthorhombic(bi)

        def run(bi=bi, sp=sp, sq=sq, P=P, Q=Q, ortho=ortho):
            box = None if bi is None else rnp.RNP.array([[CRat(Fraction(x)) for x in row] for row in BOXES[bi]])
            pp = [[CRat(v, 8) for v in row] for row in P]
            qq = [[CRat(v, 8) for v in row] for row in Q]
            from vf.kx import rat as _rat
            rnp.FORK, _rat.FLOOR_BY_FRESH_VAR = (bi is not None and not ortho), True
            try:
                d = geo.displacement(_mk(pp, sp), _mk(qq, sq), box=box)
            finally:
                rnp.FORK, _rat.FLOOR_BY_FRESH_VAR = False, False
            rows = _rows(d)
            nrows = 1 if (sp == "(3,)" and sq == "(3,)") else 2
            if len(rows) != nrows:
                return False
            conds = []
            for r in range(nrows):
                dv = rows[r]
                pr, qr = pp[r if sp != "(3,)" else 0], qq[r if sq != "(3,)" else 0]
                diff = [qr[k] - pr[k] for k in range(3)]
                if bi is None:
                    conds += [_t(dv[k]) == _t(diff[k]) for k in range(3)]
                    continue
                b = frac_box(bi)
                inv, _ = inv3(b)
                delta = [dv[k] - diff[k] for k in range(3)]
                for j in range(3):
                    f = delta[0] * CRat(inv[0][j]) + delta[1] * CRat(inv[1][j]) + delta[2] * CRat(inv[2][j])
                    conds.append(_t(f) == z3.ToReal(z3.ToInt(_t(f))))
                if ortho:
                    # |d|^2 <= |d + M|^2  <=>  2 d.M + |M|^2 >= 0 (linear in d) for every lattice vector M within +-2 cells
                    for i, j, k in allM:
                        M = [i * b[0][t] + j * b[1][t] + k * b[2][t] for t in range(3)]
                        m2 = sum(x * x for x in M)
                        lin = (dv[0] * CRat(2 * M[0]) + dv[1] * CRat(2 * M[1]) + dv[2] * CRat(2 * M[2])) + CRat(m2)
                        conds.append(_t(lin) >= 0)
            return z3.And(*conds)
        label = f"displacement shapes {SHAPES[si]}, " + ("no box" if bi is None else f"box {BOXES[bi]}" + ("" if ortho else " (lattice-vector clause; shortest image: kernel obligation)"))
        cases.append(Case(label, base, run,
                          dict(bi=bi, shape=si, p=[[z3.ToReal(v) / 8 for v in row] for row in P], q=[[z3.ToReal(v) / 8 for v in row] for row in Q]),
                          real_displacement, timeout=900, solver_ms=120000))
    return cases


def _t(x):
    n = x.n if not isinstance(x.n, int) else z3.IntVal(x.n)
    return z3.ToReal(n) / x.d


def real_move(w):
    import numpy as np
    import biotite.structure as struc
    box = np.array(BOXES[w["bi"]], dtype=np.float64)
    p = np.array([w["p"]], dtype=np.float64)
    m = struc.move_inside_box(p, box)
    fr = np.linalg.solve(box.T, m[0])
    if (fr < -1e-6).any() or (fr >= 1 + 1e-6).any():
        return False, f"move_inside_box({p.tolist()}) = {m.tolist()} has fractional coordinates {fr.tolist()}"
    sh = np.linalg.solve(box.T, (m[0] - p[0]))
    if np.abs(sh - np.round(sh)).max() > 1e-6:
        return False, f"move_inside_box moved by the non-lattice vector {sh.tolist()}"
    back = struc.fraction_to_coord(struc.coord_to_fraction(p, box), box)
    return bool(np.abs(back - p).max() < 1e-6), f"fraction round trip {back.tolist()}"


def ob_move_inside(tier):
    _, boxm = mods()
    cases = []
    LIM = 400
    for bi in range(len(BOXES)):
        P = [z3.Int(f"p{d}") for d in "xyz"]
        base = [z3.And(v >= -LIM, v <= LIM) for v in P]

        def run(bi=bi, P=P):
            box = rnp.RNP.array([[CRat(Fraction(x)) for x in row] for row in BOXES[bi]])
            p = rnp.RNP.array([[CRat(v, 8) for v in P]])
            m = boxm.move_inside_box(p, box)
            inv, _ = inv3(frac_box(bi))
            conds = []
            for j in range(3):
                fm = m.data[0][0] * CRat(inv[0][j]) + m.data[0][1] * CRat(inv[1][j]) + m.data[0][2] * CRat(inv[2][j])
                conds += [_t(fm) >= 0, _t(fm) < 1]
                delta = [m.data[0][k] - CRat(P[k], 8) for k in range(3)]
                f = delta[0] * CRat(inv[0][j]) + delta[1] * CRat(inv[1][j]) + delta[2] * CRat(inv[2][j])
                conds.append(_t(f) == z3.ToReal(z3.ToInt(_t(f))))
            back = boxm.fraction_to_coord(boxm.coord_to_fraction(p, box), box)
            for k in range(3):
                conds.append(_t(back.data[0][k]) == _t(CRat(P[k], 8)))
            return z3.And(*conds)
        cases.append(Case(f"move_inside_box / fraction round trip in box {BOXES[bi]}", base, run,
                          dict(bi=bi, p=[z3.ToReal(v) / 8 for v in P]), real_move, timeout=300))
    return cases


def _tr(x):
    """CRat whose numerator may be a z3 Real term -> z3 real"""
    n = x.n
    if isinstance(n, int):
        return z3.RealVal(n) / x.d
    return (n if n.is_real() else z3.ToReal(n)) / x.d


def ob_triclinic_kernel(tier):
    """geometry.py:_displacement_triclinic_box on REAL fractions f in [0,1)^3 (no grid): the returned vector is an image
    of f.B, and wherever any image is shorter than half the smallest cell height the returned one is that image"""
    geo, _ = mods()
    cases = []
    R = 2
    allM = [m for m in itertools.product(range(-R, R + 1), repeat=3) if m != (0, 0, 0)]
    for bi in range(len(BOXES)):
        if is_orthorhombic(bi):
            continue
        F = [z3.Real(f"f{k}") for k in range(3)]
        base = [z3.And(f >= 0, f < 1) for f in F]

        def run(bi=bi, F=F):
            box = rnp.RNP.array([[CRat(Fraction(x)) for x in row] for row in BOXES[bi]])
            fr = rnp.RArr([[CRat(f) for f in F]])
            disp = rnp.RNP.zeros((1, 3))
            rnp.FORK = True
            try:
                geo._displacement_triclinic_box(fr, box, disp)
            finally:
                rnp.FORK = False
            b = frac_box(bi)
            dv = disp.data[0]
            plain = [fr.data[0][0] * CRat(b[0][t]) + fr.data[0][1] * CRat(b[1][t]) + fr.data[0][2] * CRat(b[2][t]) for t in range(3)]
            # d is one of the eight candidates (f + s).B with s in {-1,0}^3
            cand = []
            for s in itertools.product((-1, 0), repeat=3):
                cand.append(z3.And(*[_tr(dv[t]) == _tr(plain[t] + CRat(s[0] * b[0][t] + s[1] * b[1][t] + s[2] * b[2][t])) for t in range(3)]))
            conds = [z3.Or(*cand)]
            lim = z3.RealVal(str(smallest_height2(bi) / 4))
            for i, j, k in allM:
                M = [i * b[0][t] + j * b[1][t] + k * b[2][t] for t in range(3)]
                img = [dv[t] + CRat(M[t]) for t in range(3)]
                conds.append(_tr(img[0] * img[0] + img[1] * img[1] + img[2] * img[2]) >= lim)
            return z3.And(*conds)
        cases.append(Case(f"_displacement_triclinic_box over real fractions, box {BOXES[bi]}", base, run,
                          dict(bi=bi, f=F), real_triclinic, timeout=900, solver_ms=300000))
    return cases


def real_triclinic(w):
    import numpy as np
    from biotite.structure import geometry
    bi = w["bi"]
    f = np.array([[float(Fraction(str(x)) if not isinstance(x, (int, float)) else x) for x in w["f"]]], dtype=np.float64)
    box = np.array(BOXES[bi], dtype=np.float64)
    disp = np.zeros((1, 3))
    geometry._displacement_triclinic_box(f.copy(), box, disp)
    d = disp[0]
    h2 = float(smallest_height2(bi))
    for i, j, k in itertools.product(range(-2, 3), repeat=3):
        if (i, j, k) == (0, 0, 0):
            continue
        img = d + i * box[0] + j * box[1] + k * box[2]
        if float((img ** 2).sum()) < h2 / 4 - 1e-9:
            return False, f"fractions {f.tolist()}: returned {d.tolist()} but the image {img.tolist()} is shorter than half the smallest cell height"
    return True, f"displacement {d.tolist()}"


# ------------------------------------------------------------------------------- remove_pbc_from_coord
def real_remove_pbc(w):
    import numpy as np
    import biotite.structure as struc
    bi = w["bi"]
    box = np.array(BOXES[bi], dtype=np.float64)
    X = np.array(w["X"], dtype=np.float64)
    res = struc.remove_pbc_from_coord(X.astype(np.float32), box.astype(np.float32)).astype(np.float64)
    models = res.reshape(-1, X.shape[-2], 3)
    orig = X.reshape(-1, X.shape[-2], 3)
    for k, (R, O) in enumerate(zip(models, orig)):
        fr = np.linalg.solve(box.T, (R - O).T).T
        if np.abs(fr - np.round(fr)).max() > 1e-3:
            return False, f"model {k}: atoms moved by non-lattice vectors (fractions {fr.tolist()})"
        for a in range(len(R) - 1):
            step = R[a + 1] - R[a]
            want = struc.displacement(O[a].astype(np.float32), O[a + 1].astype(np.float32), box=box.astype(np.float32)).astype(np.float64)
            if np.abs(step - want).max() > 1e-3:
                return False, f"model {k}: consecutive atoms {a},{a + 1} are {step.tolist()} apart, minimum image {want.tolist()}"
    return True, "ok"


def ob_remove_pbc(tier):
    """box.py:remove_pbc_from_coord on a chain of 3 atoms, as array (3,3) and as stack (2,3,3): every atom moves by a
    lattice vector; consecutive atoms end up exactly one minimum-image displacement apart, model by model"""
    geo, boxm = mods()
    cases = []
    LIM = 48
    # (the rotated orthorhombic cell 6 was tried as well: z3 answers 'unknown' on its mixed floor / quadratic constraints
    #  within 120 s; its shortest-image clause is decided for single displacements in sx_displacement)
    # (each case needs a worker process of its own - spec_C15 gives this obligation 3 parts: in one process the second
    #  query inherits solver state from the first and comes back 'unknown')
    for bi in (0,) if tier == "quick" else (0, 1):
        for stack, which in ((False, 0),):        # stacks of models: the two-model formula does not finish (stated in DESIGN)
            m = 2 if stack else 1
            X = [[[z3.Int(f"x{k}{a}{d}") for d in "xyz"] for a in range(3)] for k in range(m)]
            base = [z3.And(v >= -LIM, v <= LIM) for mod_ in X for a in mod_ for v in a]
            if stack:
                # model 0 is a fixed wrapped chain, model 1 is symbolic: results of model 1 must not depend on model 0
                fixed = [(0, 0, 0), (28, 0, 4), (4, 36, 0)]
                base += [X[0][a][t] == fixed[a][t] for a in range(3) for t in range(3)]

            def run(bi=bi, stack=stack, m=m, X=X, which=which):
                from vf.kx import rat as _rat
                box = rnp.RNP.array([[CRat(Fraction(x)) for x in row] for row in BOXES[bi]])
                pts = [[[CRat(v, 8) for v in a] for a in mod_] for mod_ in X]
                if stack:
                    pts[0] = [[CRat(v, 8) for v in a] for a in [(0, 0, 0), (28, 0, 4), (4, 36, 0)]]
                coord = rnp.RNP.array(pts if stack else pts[0])
                # remove_pbc_from_coord imports index_displacement from the real geometry module at call time: hand it
                # the transformed one for the duration of the call
                import biotite.structure.geometry as _real_geo
                saved = _real_geo.index_displacement
                _real_geo.index_displacement = geo.index_displacement
                _rat.FLOOR_BY_FRESH_VAR = True
                try:
                    res = boxm.remove_pbc_from_coord(coord, box)
                finally:
                    _rat.FLOOR_BY_FRESH_VAR = False
                    _real_geo.index_displacement = saved
                b = frac_box(bi)
                inv, _ = inv3(b)
                conds = []
                for k in (which,):          # one model per case (the other model's coordinates stay symbolic)
                    R = res.data[k] if stack else res.data
                    for a in range(3):
                        delta = [R[a][t] - pts[k][a][t] for t in range(3)]
                        for j in range(3):
                            f = delta[0] * CRat(inv[0][j]) + delta[1] * CRat(inv[1][j]) + delta[2] * CRat(inv[2][j])
                            conds.append(_t(f) == z3.ToReal(z3.ToInt(_t(f))))
                    for a in range(2):
                        step = [R[a + 1][t] - R[a][t] for t in range(3)]
                        # the step is an image of the plain difference ...
                        diff = [pts[k][a + 1][t] - pts[k][a][t] for t in range(3)]
                        dd = [step[t] - diff[t] for t in range(3)]
                        for j in range(3):
                            f = dd[0] * CRat(inv[0][j]) + dd[1] * CRat(inv[1][j]) + dd[2] * CRat(inv[2][j])
                            conds.append(_t(f) == z3.ToReal(z3.ToInt(_t(f))))
                        # ... and the shortest one (orthorhombic cells: linear form of |s|^2 <= |s + M|^2)
                        for i_, j_, k_ in itertools.product(range(-1, 2), repeat=3):
                            if (i_, j_, k_) == (0, 0, 0):
                                continue
                            M = [i_ * b[0][t] + j_ * b[1][t] + k_ * b[2][t] for t in range(3)]
                            lin = step[0] * CRat(2 * M[0]) + step[1] * CRat(2 * M[1]) + step[2] * CRat(2 * M[2]) + CRat(sum(x * x for x in M))
                            conds.append(_t(lin) >= 0)
                return z3.And(*conds)
            wit = dict(bi=bi, X=[[[z3.ToReal(v) / 8 for v in a] for a in mod_] for mod_ in X] if stack else [[z3.ToReal(v) / 8 for v in a] for a in X[0]])
            cases.append(Case(f"remove_pbc_from_coord, {'stack of 2 models, model ' + str(which) if stack else 'one model'}, box {BOXES[bi]}", base, run, wit, real_remove_pbc,
                              timeout=1500, solver_ms=300000))
    return cases


# ------------------------------------------------------------------------------- geometry on concrete inputs (class E)
PTS = [(0.0, 0.0, 0.0), (1.0, 0.0, 0.0), (1.0, 2.0, 0.0), (1.5, 2.0, 3.0), (-2.0, 0.5, 1.0), (4.0, -1.0, 2.5), (0.25, 3.0, -1.0)]


def _rot(axis_i, angle):
    import numpy as np
    axis = np.array([(1, 0, 0), (0, 1, 0), (0, 0, 1), (1, 1, 1), (1, -2, 0.5)][axis_i], dtype=float)
    axis /= np.linalg.norm(axis)
    K = np.array([[0, -axis[2], axis[1]], [axis[2], 0, -axis[0]], [-axis[1], axis[0], 0]])
    return np.eye(3) + np.sin(angle) * K + (1 - np.cos(angle)) * (K @ K)


def check_geometry(i0, i1, i2, i3, axis_i, angle_i, shape_i):
    """distance / angle / dihedral vs their definitions (float64, written here), rigid-motion invariance, index variants,
    all argument shapes - on the real functions with concrete points"""
    import numpy as np
    import biotite.structure as struc
    P = np.array([PTS[i] for i in (i0, i1, i2, i3)], dtype=np.float64)
    if len({i0, i1, i2, i3}) < 4:
        return None
    a, b, c, d = P
    dist = float(np.linalg.norm(b - a))
    v1, v2 = a - b, c - b
    if np.linalg.norm(np.cross(v1, v2)) < 1e-6 or np.linalg.norm(np.cross(c - b, d - c)) < 1e-6:
        return None              # collinear triples: angle / dihedral are not defined by a unique plane
    ang = float(np.arccos(np.clip(np.dot(v1, v2) / np.linalg.norm(v1) / np.linalg.norm(v2), -1, 1)))
    b1, b2, b3 = b - a, c - b, d - c
    n1, n2 = np.cross(b1, b2), np.cross(b2, b3)
    dih = float(np.arctan2(np.dot(np.cross(n1, n2), b2 / np.linalg.norm(b2)), np.dot(n1, n2)))
    R = _rot(axis_i, [0.0, 0.7, np.pi / 2, 2.5, np.pi][angle_i])
    t = np.array([3.0, -7.0, 11.0])
    for label, Q in (("original", P), ("rigidly moved", P @ R.T + t)):
        qa, qb, qc, qd = [q.astype(np.float32) for q in Q]
        forms = {
            "(3,)": (qa, qb, qc, qd),
            "(n,3)": tuple(np.stack([q, q]) for q in (qa, qb, qc, qd)),
            "(m,n,3)": tuple(np.stack([np.stack([q, q])] * 2) for q in (qa, qb, qc, qd)),
            "mixed": (np.stack([qa, qa]), qb, qc, np.stack([qd, qd])),
        }
        fa, fb, fc, fd = forms[["(3,)", "(n,3)", "(m,n,3)", "mixed"][shape_i]]
        got = (np.asarray(struc.distance(fa, fb), dtype=float), np.asarray(struc.angle(fa, fb, fc), dtype=float),
               np.asarray(struc.dihedral(fa, fb, fc, fd), dtype=float))
        for name, g, want in zip(("distance", "angle", "dihedral"), got, (dist, ang, dih)):
            if not np.allclose(g, want, atol=2e-4):
                return f"{name} of the {label} points (shapes {['(3,)', '(n,3)', '(m,n,3)', 'mixed'][shape_i]}) = {np.ravel(g)[:3].tolist()}, definition gives {want}"
        disp = np.asarray(struc.displacement(fa, fb), dtype=float)
        if not np.allclose(disp, (Q[1] - Q[0]), atol=2e-4):
            return f"displacement of the {label} points (shapes index {shape_i}) = {np.ravel(disp)[:3].tolist()}, b - a = {(Q[1] - Q[0]).tolist()}"
        # index-based variants on an atom array / coordinate array
        coords = Q.astype(np.float32)
        if not np.allclose(struc.index_distance(coords, np.array([[0, 1], [1, 0], [2, 3]])), [dist, dist, np.linalg.norm(d - c)], atol=2e-4):
            return f"index_distance ({label})"
        if not np.allclose(struc.index_angle(coords, np.array([[0, 1, 2]])), [ang], atol=2e-4):
            return f"index_angle ({label})"
        if not np.allclose(struc.index_dihedral(coords, np.array([[0, 1, 2, 3], [3, 2, 1, 0]])), [dih, dih], atol=2e-4):
            return f"index_dihedral ({label})"
        if not np.allclose(struc.index_displacement(coords, np.array([[0, 1], [3, 2]])), [Q[1] - Q[0], Q[2] - Q[3]], atol=2e-4):
            return f"index_displacement ({label})"
        cen = np.asarray(struc.centroid(coords), dtype=float)
        if not np.allclose(cen, Q.mean(axis=0), atol=2e-4):
            return f"centroid ({label})"
        # periodic index variants == coordinate variants with the SAME box, wherever the box comes from: the array's own
        # box, an explicit box that overrides it, an explicit box for an array without one, plain coordinates
        own = np.diag([5.0, 6.0, 7.0]).astype(np.float32)
        other = np.array([[3.0, 0, 0], [0, 4.5, 0], [0, 0, 2.5]], dtype=np.float32)
        arr = struc.AtomArray(4)
        arr.coord = coords
        arr.box = own
        nobox = arr.copy()
        nobox.box = None
        pairs, trip, quad = np.array([[0, 1], [3, 2]]), np.array([[0, 1, 2]]), np.array([[0, 1, 2, 3]])
        for what, obj, kw, bx in (("own box", arr, {}, own), ("explicit box overriding the own box", arr, dict(box=other), other),
                                  ("explicit box, array without box", nobox, dict(box=other), other), ("coordinates + box", coords, dict(box=other), other)):
            w_disp = np.asarray(struc.displacement(coords[pairs[:, 0]], coords[pairs[:, 1]], box=bx), dtype=float)
            w_dist = np.asarray(struc.distance(coords[pairs[:, 0]], coords[pairs[:, 1]], box=bx), dtype=float)
            w_ang = np.asarray(struc.angle(coords[trip[:, 0]], coords[trip[:, 1]], coords[trip[:, 2]], box=bx), dtype=float)
            w_dih = np.asarray(struc.dihedral(coords[quad[:, 0]], coords[quad[:, 1]], coords[quad[:, 2]], coords[quad[:, 3]], box=bx), dtype=float)
            for fn, idx, want in (("index_displacement", pairs, w_disp), ("index_distance", pairs, w_dist), ("index_angle", trip, w_ang),
                                  ("index_dihedral", quad, w_dih)):
                g = np.asarray(getattr(struc, fn)(obj, idx, periodic=True, **kw), dtype=float)
                if not np.allclose(g, want, atol=2e-4):
                    return f"{fn}(periodic=True, {what}) = {np.ravel(g)[:3].tolist()}, coordinate-based function with that box: {np.ravel(want)[:3].tolist()} ({label})"
    # with a box, distance / angle / dihedral do not depend on which periodic image of an atom is stored: shifting any
    # single atom by a lattice vector changes nothing (cells roomy enough for the minimum image to be unique)
    big = np.array([[30.0, 0, 0], [4.0, 28.0, 0], [-3.0, 5.0, 26.0]], dtype=np.float32)
    c0 = P.astype(np.float32)
    ref = (float(struc.distance(c0[0], c0[1], box=big)), float(struc.angle(c0[0], c0[1], c0[2], box=big)),
           float(struc.dihedral(c0[0], c0[1], c0[2], c0[3], box=big)))
    for name, g, want in zip(("distance", "angle", "dihedral"), ref, (dist, ang, dih)):
        if abs(g - want) > 2e-4:
            return f"{name} with a roomy box differs from the plain value: {g} vs {want}"
    # single positions give single results, with and without a box
    for bx in (None, big, np.diag([30.0, 28.0, 26.0]).astype(np.float32)):
        shapes = (np.shape(struc.displacement(c0[0], c0[1], box=bx)), np.shape(struc.distance(c0[0], c0[1], box=bx)),
                  np.shape(struc.angle(c0[0], c0[1], c0[2], box=bx)), np.shape(struc.dihedral(c0[0], c0[1], c0[2], c0[3], box=bx)))
        if shapes != ((3,), (), (), ()):
            return f"single positions ({'no box' if bx is None else 'box'}): result shapes {shapes} of displacement / distance / angle / dihedral"
        a0, a1 = struc.Atom(c0[0]), struc.Atom(c0[1])
        if np.shape(struc.displacement(a0, a1, box=bx)) != (3,) or np.shape(struc.distance(a0, a1, box=bx)) != ():
            return f"Atom arguments ({'no box' if bx is None else 'box'}): result shapes"
    for which in range(4):
        for lat in ((1, 0, 0), (0, -1, 0), (0, 0, 1), (-1, 1, -1)):
            cs = c0.copy()
            cs[which] += (np.array(lat, dtype=np.float32) @ big)
            got = (float(struc.distance(cs[0], cs[1], box=big)), float(struc.angle(cs[0], cs[1], cs[2], box=big)),
                   float(struc.dihedral(cs[0], cs[1], cs[2], cs[3], box=big)))
            arr_p = struc.AtomArray(4)
            arr_p.coord = cs
            arr_p.box = big
            got_i = (float(struc.index_distance(arr_p, np.array([[0, 1]]), periodic=True)[0]), float(struc.index_angle(arr_p, np.array([[0, 1, 2]]), periodic=True)[0]),
                     float(struc.index_dihedral(arr_p, np.array([[0, 1, 2, 3]]), periodic=True)[0]))
            for name, g, gi_, want in zip(("distance", "angle", "dihedral"), got, got_i, ref):
                for val in (g, gi_):
                    dev = abs(val - want) if name != "dihedral" else abs((val - want + np.pi) % (2 * np.pi) - np.pi)
                    if dev > 5e-4:
                        return f"periodic {name} changes from {want:.5f} to {val:.5f} when atom {which} is stored as the image shifted by {lat}"
    # rigid motions produced by the library itself leave distance, angle and SIGNED dihedral unchanged
    arr = struc.AtomArray(4)
    arr.coord = P.astype(np.float32)
    ang_r = [0.0, 0.7, np.pi / 2, 2.5, np.pi][angle_i]
    ax = [(1, 0, 0), (0, 1, 0), (0, 0, 1), (1, 1, 1), (1, -2, 0.5)][axis_i]
    moved = [("translate", struc.translate(arr, (3.0, -7.0, 11.0))),
             ("rotate", struc.rotate(arr, [ang_r, 0.3, -1.1])),
             ("rotate_centered", struc.rotate_centered(arr, [0.4, ang_r, 2.0])),
             ("rotate_about_axis", struc.rotate_about_axis(arr, ax, ang_r, support=(1.0, 2.0, -3.0))),
             ("align_vectors", struc.align_vectors(arr, (1.0, 0.5, -2.0), ax, (0.0, 1.0, 0.0), (2.0, 2.0, 2.0)))]
    for order in (None, (0, 1, 2), (2, 1, 0), (1, 0, 2), (0, 2, 1), (1, 2, 0), (2, 0, 1)):
        moved.append((f"orient_principal_components(order={order})", struc.orient_principal_components(arr, order=order)))
        moved.append((f"orient_principal_components(coordinates, order={order})", struc.orient_principal_components(arr.coord, order=order)))
    for what, m in moved:
        mc = np.asarray(struc.coord(m), dtype=np.float32)
        got = (float(struc.distance(mc[0], mc[1])), float(struc.angle(mc[0], mc[1], mc[2])), float(struc.dihedral(mc[0], mc[1], mc[2], mc[3])))
        for name, g, want in zip(("distance", "angle", "dihedral"), got, (dist, ang, dih)):
            dev = abs(g - want) if name != "dihedral" else abs((g - want + np.pi) % (2 * np.pi) - np.pi)
            if dev > 2e-3:
                return f"{what} is not a rigid motion: {name} {want:.5f} -> {g:.5f}"
    return None


def check_cell(li, ai):
    """unit cell <-> box vectors are mutually inverse; box vectors have the requested lengths and angles"""
    import numpy as np
    import biotite.structure as struc
    lengths = [(4.0, 5.0, 6.0), (10.0, 10.0, 10.0), (3.5, 7.25, 12.0), (40.0, 50.0, 8.0)][li]
    angles = [(90, 90, 90), (90, 100, 90), (80, 95, 110), (60, 60, 60), (90, 90, 120), (90, 91, 90), (89.5, 90, 90.5)][ai]
    al, be, ga = [np.deg2rad(x) for x in angles]
    box = struc.vectors_from_unitcell(*lengths, al, be, ga)
    if box.shape != (3, 3):
        return f"shape {box.shape}"
    L = np.linalg.norm(box, axis=1)
    if not np.allclose(L, lengths, atol=1e-3):
        return f"box vector lengths {L.tolist()} for cell {lengths}"
    cos = lambda u, v: float(np.dot(u, v) / np.linalg.norm(u) / np.linalg.norm(v))
    if not np.allclose([cos(box[1], box[2]), cos(box[0], box[2]), cos(box[0], box[1])], np.cos([al, be, ga]), atol=1e-3):
        return f"box vector angles differ from {angles}"
    back = struc.unitcell_from_vectors(box)
    if not np.allclose(back, list(lengths) + [al, be, ga], atol=1e-3):
        return f"unitcell_from_vectors(vectors_from_unitcell({lengths}, {angles})) = {np.asarray(back).tolist()}"
    if bool(struc.is_orthogonal(box)) != (angles == (90, 90, 90)):
        return f"is_orthogonal = {bool(struc.is_orthogonal(box))} for angles {angles}"
    # cell lengths and angles are those of the box vectors in ANY orientation (a box rotated with the whole system, or
    # with permuted / mirrored axes, has the same cell); converting back gives a congruent box
    for axis, ang in (((0.0, 0.0, 1.0), 0.7), ((1.0, 2.0, -1.0), 2.1), ((0.3, -1.0, 0.2), np.pi), ((1.0, 0.0, 0.0), -1.3)):
        u = np.array(axis) / np.linalg.norm(axis)
        K = np.array([[0, -u[2], u[1]], [u[2], 0, -u[0]], [-u[1], u[0], 0]])
        R = np.eye(3) + np.sin(ang) * K + (1 - np.cos(ang)) * (K @ K)
        rbox = (box.astype(np.float64) @ R.T).astype(np.float32)
        back = struc.unitcell_from_vectors(rbox)
        if not np.allclose(back, list(lengths) + [al, be, ga], atol=2e-3):
            return f"unitcell_from_vectors of the cell {lengths} {angles} rotated by {ang:.2f} about {axis} = {np.asarray(back).tolist()}"
        again = struc.vectors_from_unitcell(*back)
        G1 = rbox.astype(np.float64) @ rbox.astype(np.float64).T
        G2 = again.astype(np.float64) @ again.astype(np.float64).T
        if not np.allclose(G1, G2, atol=2e-3 * float(max(lengths)) ** 2):
            return f"vectors_from_unitcell(unitcell_from_vectors(rotated box)) is not congruent to the box (cell {lengths} {angles})"
    return None


def check_remove_pbc_concrete(bi, depth):
    """a chain whose atoms were wrapped arbitrarily: after remove_pbc_from_coord every atom has moved by a lattice vector
    and consecutive atoms are one minimum-image step apart - per model for stacks with one box or one box per model"""
    import numpy as np
    import biotite.structure as struc
    box = np.array(BOXES[bi], dtype=np.float64)
    n = 8
    chain = np.cumsum(np.array([[0.9, 0.3, -0.4], [0.7, -0.8, 0.5], [-0.2, 0.9, 0.9], [1.0, 0.1, 0.2]] * 2), axis=0) + 1.0
    models = []
    for k in range(max(depth, 1)):
        shifts = np.array([[(a * 3 + k) % 3 - 1, (a + 2 * k) % 3 - 1, (a * a + k) % 3 - 1] for a in range(n)], dtype=float)
        models.append(chain + 0.37 * k + shifts @ box)
    X = np.array(models) if depth else models[0]
    res = np.asarray(struc.remove_pbc_from_coord(X.astype(np.float32), box.astype(np.float32)), dtype=float)
    if res.shape != X.shape:
        return f"shape {res.shape}"
    for k, (Rm, Om) in enumerate(zip(res.reshape(-1, n, 3), X.reshape(-1, n, 3))):
        fr = np.linalg.solve(box.T, (Rm - Om).T).T
        if np.abs(fr - np.round(fr)).max() > 2e-3:
            return f"model {k}: atoms moved by non-lattice vectors (box {BOXES[bi]}, depth {depth})"
        step = np.linalg.norm(np.diff(Rm, axis=0), axis=1)
        want = np.linalg.norm(np.diff(chain, axis=0), axis=1)
        if not np.allclose(step, want, atol=2e-3):
            return f"model {k}: consecutive atoms are {step.tolist()} apart after reassembly, the chain has steps {want.tolist()} (box {BOXES[bi]}, depth {depth})"
    return None


def check_remove_pbc_atoms(bi, depth, bonded, sel, seed):
    """remove_pbc on a whole structure: two molecules (bonded chains; without a BondList: chains by chain id) and a lone
    ion, every atom wrapped by an arbitrary lattice vector. Afterwards every atom has moved by a lattice vector, each
    molecule has its unwrapped shape again, its centroid lies inside the box, atoms outside a selection stay where they
    were, and nothing but coordinates changed (input untouched)."""
    import numpy as np
    import biotite.structure as struc
    box = np.array(BOXES[bi], dtype=np.float64)
    steps = np.array([[0.9, 0.3, -0.4], [0.7, -0.8, 0.5], [-0.2, 0.9, 0.9], [1.0, 0.1, 0.2]])
    mol1 = np.cumsum(np.vstack([steps, steps[:1]]), axis=0) + 1.0           # 5 atoms
    mol2 = np.cumsum(steps[1:], axis=0)[::-1] + np.array([2.0, 2.5, 1.0])    # 3 atoms
    ion = np.array([[0.3, 0.2, 3.1]])
    orig = np.vstack([mol1, mol2, ion])
    n = len(orig)
    mols = [list(range(0, 5)), list(range(5, 8)), [8]]
    arr = struc.AtomArray(n)
    arr.chain_id = np.array(["A"] * 5 + ["B"] * 3 + ["C"])
    arr.res_id = np.array([1, 1, 2, 2, 3, 1, 1, 2, 1])
    arr.res_name = np.array(["M1"] * 5 + ["M2"] * 3 + ["NA"])
    arr.atom_name = np.array([f"X{i}" for i in range(n)])
    arr.element = np.array(["C"] * 8 + ["NA"])
    arr.box = box.astype(np.float32)
    if bonded:
        arr.bonds = struc.BondList(n, np.array([[0, 1, 1], [1, 2, 1], [2, 3, 2], [3, 4, 1], [5, 6, 1], [6, 7, 1]]))
    models = []
    for k in range(max(depth, 1)):
        sh = np.array([[(a * 3 + k + seed) % 3 - 1, (a + 2 * k + seed) % 3 - 1, (a * a + k + 2 * seed) % 3 - 1] for a in range(n)], dtype=float)
        models.append(orig + 0.37 * k + sh @ box)
    if depth:
        atoms = struc.stack([arr] * depth)
        atoms.coord = np.array(models, dtype=np.float32)
    else:
        atoms = arr
        atoms.coord = models[0].astype(np.float32)
    before = atoms.copy()
    selection = None if sel == 0 else np.array([True] * 5 + [False] * 4) if sel == 1 else np.array([False] * 5 + [True] * 4)
    out = struc.remove_pbc(atoms) if selection is None else struc.remove_pbc(atoms, selection)
    if type(out) is not type(atoms) or out.coord.shape != atoms.coord.shape:
        return f"result {type(out).__name__} {out.coord.shape}"
    if not np.array_equal(atoms.coord, before.coord):
        return "the input structure was modified"
    for cat in arr.get_annotation_categories():
        if out.get_annotation(cat).tolist() != arr.get_annotation(cat).tolist():
            return f"annotation {cat} changed"
    if bonded and out.bonds.as_set() != arr.bonds.as_set():
        return "bonds changed"
    R = np.asarray(out.coord, dtype=float).reshape(-1, n, 3)
    O = np.asarray(before.coord, dtype=float).reshape(-1, n, 3)
    for k in range(len(R)):
        fr = np.linalg.solve(box.T, (R[k] - O[k]).T).T
        if np.abs(fr - np.round(fr)).max() > 3e-3:
            return f"model {k}: atoms moved by non-lattice vectors (box {BOXES[bi]}, depth {depth}, bonded {bonded}, selection {sel})"
        for mi, mol in enumerate(mols):
            chosen = selection is None or bool(selection[mol[0]])
            if not chosen:
                if not np.array_equal(R[k][mol], O[k][mol]):
                    return f"model {k}: molecule {mi} is outside the selection but moved"
                continue
            shape_now = R[k][mol] - R[k][mol][0]
            shape_want = orig[mol] - orig[mol][0]
            if np.abs(shape_now - shape_want).max() > 3e-3:
                return f"model {k}: molecule {mi} is not reassembled (box {BOXES[bi]}, depth {depth}, bonded {bonded}, selection {sel})"
            cf = np.linalg.solve(box.T, R[k][mol].mean(axis=0))
            if cf.min() < -2e-3 or cf.max() > 1 + 2e-3:
                return f"model {k}: centroid of molecule {mi} at fraction {cf.tolist()} is outside the box (box {BOXES[bi]}, bonded {bonded})"
    return None


def check_repeat_box(bi, amount, depth):
    """repeat_box_coord / repeat_box: the copies are the input shifted by lattice vectors, every combination of
    -amount..amount box vectors exactly once, the first block is the input, the indices point at the source atoms"""
    import numpy as np
    import biotite.structure as struc
    box = np.array(BOXES[bi], dtype=np.float64)
    n = 3
    base = np.array([[0.5, 0.25, 1.0], [1.5, 2.0, 0.75], [3.0, 0.5, 2.5]])
    X = base if depth == 0 else np.array([base + 0.37 * k for k in range(depth)])
    B = box if depth == 0 else np.array([box * (1 + 0.5 * k) for k in range(depth)])
    rep, idx = struc.repeat_box_coord(X.astype(np.float32), B.astype(np.float32), amount)
    nb = (1 + 2 * amount) ** 3
    rep = np.asarray(rep, dtype=float)
    if rep.shape != X.shape[:-2] + (nb * n, 3) or np.asarray(idx).tolist() != list(range(n)) * nb:
        return f"shape {rep.shape}, indices {np.asarray(idx).tolist()[:8]}... for amount {amount}"
    for k in range(max(depth, 1)):
        Rm = rep[k] if depth else rep
        Xm = X[k] if depth else X
        Bm = B[k] if depth else B
        if not np.allclose(Rm[:n], Xm, atol=1e-5):
            return "the first block is not the input"
        seen = set()
        for blk in range(nb):
            shift = Rm[blk * n: (blk + 1) * n] - Xm
            if np.abs(shift - shift[0]).max() > 1e-4:
                return f"block {blk}: atoms of one copy are shifted differently"
            fr = np.linalg.solve(Bm.T, shift[0])
            if np.abs(fr - np.round(fr)).max() > 1e-3:
                return f"block {blk}: shifted by {shift[0].tolist()}, not a lattice vector of box {Bm.tolist()}"
            seen.add(tuple(int(v) for v in np.round(fr)))
        want = {(i, j, l) for i in range(-amount, amount + 1) for j in range(-amount, amount + 1) for l in range(-amount, amount + 1)}
        if seen != want:
            return f"model {k}: copies cover {len(seen)} of the {len(want)} neighbouring cells (box {BOXES[bi]}, amount {amount})"
    # the structure-level variant with its default amount
    arr = struc.AtomArray(n)
    arr.coord = base.astype(np.float32)
    arr.box = box.astype(np.float32)
    arr.set_annotation("tag", np.arange(n))
    obj = arr if depth == 0 else struc.stack([arr] * depth)
    rep_atoms, idx2 = struc.repeat_box(obj)
    if rep_atoms.array_length() != 27 * n or rep_atoms.tag.tolist() != list(range(n)) * 27 or np.asarray(idx2).tolist() != list(range(n)) * 27:
        return "repeat_box: atoms / indices"
    rc = np.asarray(rep_atoms.coord, dtype=float).reshape(-1, 27 * n, 3)[0]
    want_c, _ = struc.repeat_box_coord(base.astype(np.float32), box.astype(np.float32))
    if not np.allclose(rc, np.asarray(want_c, dtype=float), atol=1e-4):
        return "repeat_box and repeat_box_coord disagree"
    return None


def ob_geometry_concrete(tier):
    cases = []
    v = z3.Ints("i0 i1 i2 i3 ax an sh")
    npts = 5 if tier == "quick" else len(PTS)

    def run_geo():
        ex = cur()
        c = ex.choose
        return check_geometry(c(v[0], range(npts)), c(v[1], range(npts)), c(v[2], range(npts)), c(v[3], range(npts)), c(v[4], range(5)), c(v[5], range(5)), c(v[6], range(4))) is None

    def rep(f, keys):
        def g(w):
            try:
                r = f(*[w[k] for k in keys])
                return r is None, str(r)
            except Exception as e:
                import traceback
                return False, f"{type(e).__name__}: {e} | {traceback.format_exc()[-300:]}"
        return g
    base = [z3.And(x >= 0, x < npts) for x in v[:4]] + [v[4] >= 0, v[4] < 5, v[5] >= 0, v[5] < 5, v[6] >= 0, v[6] < 4, v[0] < v[3]]
    keys = ["i0", "i1", "i2", "i3", "axis_i", "angle_i", "shape_i"]
    for s_ in range(4):
        cases.append(Case(f"distance / angle / dihedral / index variants, argument shapes {s_}", base + [v[6] == s_], run_geo, dict(zip(keys, v)), rep(check_geometry, keys)))
    l, a = z3.Ints("l a")
    cases.append(Case("unit cell <-> box vectors", [l >= 0, l < 4, a >= 0, a < 7], lambda: check_cell(cur().choose(l, range(4)), cur().choose(a, range(7))) is None,
                      dict(li=l, ai=a), rep(check_cell, ["li", "ai"])))
    b, d = z3.Ints("b d")
    cases.append(Case("remove_pbc_from_coord on wrapped chains", [b >= 0, b < len(BOXES), d >= 0, d <= 3],
                      lambda: check_remove_pbc_concrete(cur().choose(b, range(len(BOXES))), cur().choose(d, range(4))) is None,
                      dict(bi=b, depth=d), rep(check_remove_pbc_concrete, ["bi", "depth"])))
    am = z3.Int("am")
    cases.append(Case("repeat_box_coord / repeat_box", [b >= 0, b < len(BOXES), d >= 0, d <= 2, am >= 1, am <= 2],
                      lambda: check_repeat_box(cur().choose(b, range(len(BOXES))), cur().choose(am, range(1, 3)), cur().choose(d, range(3))) is None,
                      dict(bi=b, amount=am, depth=d), rep(check_repeat_box, ["bi", "amount", "depth"])))
    bd, sl, sd = z3.Ints("bd sl sd")
    cases.append(Case("remove_pbc on structures with molecules", [b >= 0, b < len(BOXES), d >= 0, d <= 2, bd >= 0, bd <= 1, sl >= 0, sl <= 2, sd >= 0, sd <= 2],
                      lambda: check_remove_pbc_atoms(cur().choose(b, range(len(BOXES))), cur().choose(d, range(3)), cur().choose(bd, range(2)),
                                                     cur().choose(sl, range(3)), cur().choose(sd, range(3))) is None,
                      dict(bi=b, depth=d, bonded=bd, sel=sl, seed=sd), rep(check_remove_pbc_atoms, ["bi", "depth", "bonded", "sel", "seed"])))
    return cases
