"""C06 harnesses: CIF text layer round trip (serialize -> text -> deserialize) of string tables.

S-class obligations keep the cell value a *symbolic str* through the real string code
(_escape, _multiline, serialize, splitlines/strip, _is_empty, _to_single, _split_one_line,
_deserialize_single/_looped, block/file splitting).  To that end the terminal numpy holder
CIFColumn is replaced by the pure-Python HCol and the three numpy attributes used by
_serialize_looped by ShimNP (both listed as stubs).  Whenever the stubbed round trip fails, the
same concrete table is pushed through the *unstubbed* real classes and only that verdict counts.
"""
from hlib import *  # noqa
import numpy as _realnp
import biotite.structure.io.pdbx.cif as cif
from biotite.structure.io.pdbx.cif import CIFFile, CIFBlock, CIFCategory, CIFColumn as RealColumn

ALPH = "a_#;$['\" \t\n.?]d"


class HCol:
    """pure-Python stand-in for CIFColumn: values + the '.'/'?' mask convention"""

    def __init__(self, data, mask=None):
        if isinstance(data, str):
            data = [data]
        self.vals = list(data)

    def as_item(self):
        return self.vals[0]

    def as_array(self, dtype=str, masked_value=None):
        return self.vals

    def __len__(self):
        return len(self.vals)


class _DT:
    def __init__(self, n):
        self.itemsize = n


class _SArr:
    def __init__(self, xs):
        self.xs = list(xs)
        self.dtype = _DT(max([1] + [len(x) for x in self.xs]) * cif.UNICODE_CHAR_SIZE)

    def __getitem__(self, i):
        return self.xs[i]


class ShimNP:
    @staticmethod
    def array(xs):
        return _SArr(xs)


class stubbed:
    def __enter__(self):
        cif.CIFColumn = HCol
        cif.np = ShimNP

    def __exit__(self, *a):
        cif.CIFColumn = RealColumn
        cif.np = _realnp
        return False


def _roundtrip_stub(table):
    """table: {col: [str,...]} -> {col: [str,...]} through CIFFile text, stubbed holders."""
    with stubbed():
        cat = CIFCategory({k: HCol(v) for k, v in table.items()}, name="cat")
        f = CIFFile({"blk": CIFBlock({"cat": cat})})
        text = f.serialize()
        back = CIFFile.deserialize(text)
        if list(back.keys()) != ["blk"]:
            return None
        blk = back["blk"]
        if list(blk.keys()) != ["cat"]:
            return None
        c = blk["cat"]
        return {k: list(c[k].vals) for k in c.keys()}


def _real_str(x):
    return "".join(chr(ord(c)) for c in x)


def _roundtrip_real(table):
    """Same round trip through the real CIFColumn/numpy; returns ({col: [str]}, {col: [mask]})."""
    table = {_real_str(k): [_real_str(x) for x in v] for k, v in table.items()}
    cat = CIFCategory({k: _realnp.array(v, dtype=object).astype(str) for k, v in table.items()})
    f = CIFFile()
    blk = CIFBlock()
    blk["cat"] = cat
    f["blk"] = blk
    text = f.serialize()
    back = CIFFile.deserialize(text)
    c = back["blk"]["cat"]
    vals, masks = {}, {}
    for k in c.keys():
        col = c[k]
        vals[k] = [str(x) for x in col.as_array(str)]
        masks[k] = [0] * len(col) if col.mask is None else [int(m) for m in col.mask.array]
    return vals, masks


def _expected_masks(table):
    return {k: [1 if x == "." else 2 if x == "?" else 0 for x in v] for k, v in table.items()}


def _check(table):
    try:
        got = _roundtrip_stub(table)
    except Exception:
        got = None
    if got == table:
        return True
    # the stubbed run failed: only the real classes decide
    try:
        vals, masks = _roundtrip_real(table)
    except Exception:
        return False
    return vals == {k: list(v) for k, v in table.items()} and masks == _expected_masks(table)


def ob_cif_single(v: str) -> bool:
    """
    Single-row category, symbolic value.
    pre: len(v) <= 3
    pre: all(c in ALPH for c in v)
    post: _
    """
    return _check({"k": [v], "z": ["x"]})


def ob_cif_single4(v: str) -> bool:
    """
    pre: len(v) <= 4
    pre: all(c in ALPH for c in v)
    post: _
    """
    return _check({"k": [v], "z": ["x"]})


_OTHER = ["x", "", "y"]


def _looped(v, pos):
    cells = [v if pos == k else _OTHER[k % 3] for k in range(4)]
    return {"k": [cells[0], cells[2]], "z": [cells[1], cells[3]]}


def ob_cif_looped(v: str, pos: int) -> bool:
    """
    2 rows x 2 columns, one symbolic cell at a symbolic position.
    pre: len(v) <= 2
    pre: 0 <= pos <= 3
    pre: all(c in ALPH for c in v)
    post: _
    """
    return _check(_looped(v, pos))


def ob_cif_looped3(v: str, pos: int) -> bool:
    """
    pre: len(v) <= 3
    pre: 0 <= pos <= 3
    pre: all(c in ALPH for c in v)
    post: _
    """
    return _check(_looped(v, pos))


TOKENS = ["data_", "loop_", "save_", "global_", "stop_", "#", ";", "_", "$", "[", "]", "'", '"', " ", "a",
          "\n", "\t", ".", "?", "DATA_", ""]


def _val(*ts):
    return "".join(TOKENS[t] for t in ts)


def _tokens_check(v, pos, rows):
    if rows == 1:
        if pos > 1:
            return True
        table = {"k": [v if pos == 0 else "x"], "z": [v if pos == 1 else "x"]}
    else:
        table = _looped(v, pos)
    try:
        vals, masks = _roundtrip_real(table)
    except Exception:
        return False
    return vals == table and masks == _expected_masks(table)


def ob_cif_tokens2(t1: int, t2: int, pos: int, rows: int) -> bool:
    """
    Reserved words and awkward characters: value = TOKENS[t1]+TOKENS[t2] (E-class: the token
    indices are case-split, the value is concrete on every path; real classes, file level).
    pre: 0 <= t1 < len(TOKENS) and 0 <= t2 < len(TOKENS)
    pre: 1 <= rows <= 2
    pre: 0 <= pos <= 3
    post: _
    """
    return _tokens_check(_val(t1, t2), pos, rows)


def ob_cif_tokens3(t1: int, t2: int, t3: int, pos: int, rows: int) -> bool:
    """
    pre: 0 <= t1 < len(TOKENS) and 0 <= t2 < len(TOKENS) and 0 <= t3 < len(TOKENS)
    pre: 1 <= rows <= 2
    pre: 0 <= pos <= 3
    post: _
    """
    return _tokens_check(_val(t1, t2, t3), pos, rows)


# ------------------------------------------------------------------ tokenizer lemmas
def ob_split_escape(a: str, b: str) -> bool:
    """
    _split_one_line(" ".join(_escape(x))) == row for single-line values.
    pre: len(a) <= 2 and len(b) <= 2
    pre: all(c in ALPH for c in a) and all(c in ALPH for c in b)
    pre: chr(10) not in a and chr(10) not in b
    pre: not (chr(39) in a and chr(34) in a) and not (chr(39) in b and chr(34) in b)
    post: _
    """
    line = cif._escape(a) + " " + cif._escape(b)
    # a line is stripped before it is split (CIFCategory.deserialize)
    return list(cif._split_one_line(line.strip())) == [a, b] or line.strip()[0] in "#;"


MENU = [".", "?", "a", "", "'.'", "x y", ". ", "?" + chr(9), " .", "..", " ?"]      # (near misses of the two mask characters are values)


def ob_cif_masks(i: int, j: int, rows: int) -> bool:
    """
    Real CIFColumn: '.' / '?' come back as masked INAPPLICABLE / MISSING, everything else PRESENT
    (E-class, menu values; real numpy classes, file level).
    pre: 0 <= i < len(MENU) and 0 <= j < len(MENU)
    pre: 1 <= rows <= 2
    post: _
    """
    a, b = MENU[i], MENU[j]
    table = {"k": [a], "z": [b]} if rows == 1 else {"k": [a, "q"], "z": ["r", b]}
    try:
        vals, masks = _roundtrip_real(table)
    except Exception:
        return False
    return vals == table and masks == _expected_masks(table)
