"""C17: residue/chain/molecule segmentation equals per-atom recomputation.

E-class: annotation patterns are generated from z3 variables (per boundary: which of chain id / res id /
insertion code / residue name change), the real residues.py / chains.py / segments.py / molecules.py run on
them and every derived view is compared with a direct per-atom recomputation.
KX: bonds.pyx:_find_connected lowered from source on a symbolic neighbour table (n <= 4): result ==
reachability closure; the recursion depth it reaches is measured (it equals the length of a chain)."""
import itertools
import numpy as np
import z3

from vf.sx.core import cur
from vf.sx.ob import Case, note_inputs


def build_array(n, changes):
    """changes[k] = (chain_change, res_delta, ins_toggle, name_toggle) between atom k and k+1"""
    import biotite.structure as struc
    chain, res, ins, name = ["A"], [5], [""], ["ALA"]
    for (cc, rd, it, nt) in changes[: max(0, n - 1)]:
        chain.append(("B" if chain[-1] == "A" else "A") if cc else chain[-1])
        res.append(res[-1] + rd)
        ins.append(("A" if ins[-1] == "" else "") if it else ins[-1])
        name.append(("GLY" if name[-1] == "ALA" else "ALA") if nt else name[-1])
    arr = struc.AtomArray(n)
    if n:
        arr.chain_id = np.array(chain[:n])
        arr.res_id = np.array(res[:n])
        arr.ins_code = np.array(ins[:n], dtype="U1")
        arr.res_name = np.array(name[:n])
        arr.atom_name = np.array([f"X{i}" for i in range(n)])
        arr.coord = np.arange(3 * n, dtype=np.float32).reshape(n, 3)
    return arr, chain[:n], res[:n], ins[:n], name[:n]


def check_segments(n, changes):
    import biotite.structure as struc
    arr, chain, res, ins, name = build_array(n, changes)
    rstarts0 = None
    for het in ([False] * n, [True] * n, [i % 2 == 1 for i in range(n)], [i >= n // 2 for i in range(n)]):
        # chain and residue boundaries are defined by chain id, residue id, insertion code and residue name alone
        arr.hetero = np.array(het, dtype=bool)
        now = (struc.get_residue_starts(arr).tolist(), struc.get_chain_starts(arr).tolist(), struc.get_chain_count(arr), struc.get_residue_count(arr))
        if rstarts0 is None:
            rstarts0 = now
        elif now != rstarts0:
            return f"segmentation depends on the hetero flags {het}: {now} vs {rstarts0}"
    rstarts = [i for i in range(n) if i == 0 or (chain[i], res[i], ins[i], name[i]) != (chain[i - 1], res[i - 1], ins[i - 1], name[i - 1])]
    cstarts = [i for i in range(n) if i == 0 or chain[i] != chain[i - 1] or res[i] < res[i - 1]]
    for kind, starts_ref in (("residue", rstarts), ("chain", cstarts)):
        f = {n_: getattr(struc, n_.replace("KIND", kind)) for n_ in
             ("get_KIND_starts", "apply_KIND_wise", "spread_KIND_wise", "get_KIND_masks", "get_KIND_starts_for",
              "get_KIND_positions", "get_KIND_count", "KIND_iter")}
        starts = f["get_KIND_starts"](arr)
        if starts.tolist() != starts_ref:
            return f"{kind} starts {starts.tolist()} vs per-atom {starts_ref} for chain={chain} res={res} ins={ins} name={name}"
        withstop = f["get_KIND_starts"](arr, add_exclusive_stop=True)
        if withstop.tolist() != (starts_ref + [n] if n else []):      # (documented: no starts at all for an empty array)
            return f"{kind} starts with exclusive stop {withstop.tolist()}"
        if n == 0:
            continue
        if f["get_KIND_count"](arr) != len(starts_ref):
            return f"{kind} count"
        seg_of = [max(k for k, s in enumerate(starts_ref) if s <= i) for i in range(n)]
        segs = [[i for i in range(n) if seg_of[i] == k] for k in range(len(starts_ref))]
        if n:
            idx = np.arange(n)
            for indices in (idx, idx[::-1], np.array([n - 1, 0, n - 1])):
                pos = f["get_KIND_positions"](arr, indices)
                if pos.tolist() != [seg_of[i] for i in indices.tolist()]:
                    return f"{kind} positions {pos.tolist()}"
                sf = f["get_KIND_starts_for"](arr, indices)
                if sf.tolist() != [starts_ref[seg_of[i]] for i in indices.tolist()]:
                    return f"{kind} starts_for {sf.tolist()}"
                masks = f["get_KIND_masks"](arr, indices)
                want = [[seg_of[j] == seg_of[i] for j in range(n)] for i in indices.tolist()]
                if masks.tolist() != want:
                    return f"{kind} masks"
            # indices outside the array are refused, never answered with some segment (n is the confusable one: it is
            # the exclusive stop of the last segment)
            for bad in (n, n + 1, -1):
                for fn in ("get_KIND_positions", "get_KIND_starts_for", "get_KIND_masks"):
                    try:
                        r = f[fn](arr, np.array([0, bad]))
                    except (ValueError, IndexError):
                        continue
                    return f"{fn.replace('KIND', kind)}(array of {n} atoms, [0, {bad}]) answered {r.tolist()} instead of refusing the index"
            data = np.arange(n) * 2 + 1
            got = f["apply_KIND_wise"](arr, data, np.sum)
            if got.tolist() != [sum(int(data[i]) for i in s) for s in segs]:
                return f"{kind} apply sum {got.tolist()}"
            got = f["apply_KIND_wise"](arr, data, np.mean)
            if not np.allclose(got, [np.mean([data[i] for i in s]) for s in segs]) or got.dtype.kind != "f":
                return f"{kind} apply mean {got.tolist()} ({got.dtype})"
            onehot = np.eye(n, dtype=bool)
            got = f["apply_KIND_wise"](arr, onehot, np.sum, axis=0)
            want = [[int(j in s) for j in range(n)] for s in segs]
            if got.tolist() != want:
                return f"{kind} apply array-valued sum over bool data: {got.tolist()} ({got.dtype})"
            ones = np.ones((n, 2), dtype=bool)
            got = f["apply_KIND_wise"](arr, ones, np.sum, axis=0)
            if got.tolist() != [[len(s), len(s)] for s in segs] or got.dtype != np.sum(ones[:1], axis=0).dtype:
                return f"{kind} apply: per-segment counts of a bool array came back as {got.tolist()} ({got.dtype})"
            got = f["apply_KIND_wise"](arr, np.arange(2 * n).reshape(n, 2), np.mean, axis=0)
            if got.dtype.kind != "f" or not np.allclose(got, [np.arange(2 * n).reshape(n, 2)[s].mean(axis=0) for s in segs]):
                return f"{kind} apply: array-valued mean of int data {got.tolist()} ({got.dtype})"
            got = f["apply_KIND_wise"](arr, arr.coord, np.max, axis=0)
            if got.tolist() != [arr.coord[s].max(axis=0).tolist() for s in segs]:
                return f"{kind} apply max coord"
            spread = f["spread_KIND_wise"](arr, np.arange(len(segs)) * 10)
            if spread.tolist() != [10 * seg_of[i] for i in range(n)]:
                return f"{kind} spread {spread.tolist()}"
            # array-valued per-segment data is spread along the first axis
            for shape in ((1,), (3,), (2, 2)):
                data_k = np.arange(len(segs) * int(np.prod(shape))).reshape((len(segs),) + shape)
                got = f["spread_KIND_wise"](arr, data_k)
                if got.shape != (n,) + shape or got.tolist() != [data_k[seg_of[i]].tolist() for i in range(n)]:
                    return f"{kind} spread of per-segment data with shape {(len(segs),) + shape}: result shape {got.shape}"
            # results of any scalar type, strings included (all results of one call have the same type and length)
            got = f["apply_KIND_wise"](arr, data, lambda x: f"{int(x.sum()) % 1000:03d}")
            if np.asarray(got).tolist() != [f"{sum(int(data[i]) for i in s) % 1000:03d}" for s in segs]:
                return f"{kind} apply with a function returning three-character strings: {np.asarray(got).tolist()}"
            # without an axis the function sees the whole block of a segment (2-D integer / bool data too)
            d2 = (np.arange(2 * n).reshape(n, 2) % 5)
            for dd in (d2, d2 > 1):
                got = f["apply_KIND_wise"](arr, dd, np.sum)
                if np.shape(got) != (len(segs),) or np.asarray(got).tolist() != [int(dd[s].sum()) for s in segs]:
                    return f"{kind} apply np.sum without axis on {dd.dtype} data of shape {dd.shape}: {np.asarray(got).tolist()}"
            # the axis is handed to the function as the keyword 'axis' (its second positional parameter may be something else)
            got = f["apply_KIND_wise"](arr, data.astype(float), np.linalg.norm, axis=0)
            if not np.allclose(got, [np.linalg.norm([float(data[i]) for i in s]) for s in segs]):
                return f"{kind} apply np.linalg.norm(axis=0): {np.asarray(got).tolist()}"
            got = f["apply_KIND_wise"](arr, arr.coord.astype(float), np.linalg.norm, axis=0)
            if not np.allclose(got, [np.linalg.norm(arr.coord[s].astype(float), axis=0) for s in segs]):
                return f"{kind} apply np.linalg.norm(axis=0) on coordinates"

            def kwonly(x, *, axis=None):
                return np.max(x, axis=axis)
            got = f["apply_KIND_wise"](arr, arr.coord, kwonly, axis=0)
            if got.tolist() != [arr.coord[s].max(axis=0).tolist() for s in segs]:
                return f"{kind} apply with a function taking axis as keyword only"
        parts = list(f["KIND_iter"](arr))
        if [p.array_length() for p in parts] != [len(s) for s in segs]:
            return f"{kind} iter lengths"
        if n and struc.concatenate(parts) != arr:
            return f"{kind}: concatenating the iterated segments does not reproduce the array"
        # the same views on a stack (2 models and n models: the atom axis is the last one)
        for depth in ((2, n) if n else ()):
            st = struc.stack([arr] * depth)
            if f["get_KIND_starts"](st).tolist() != starts_ref or f["get_KIND_count"](st) != len(starts_ref):
                return f"{kind} starts / count on a stack of {depth}"
            if f["get_KIND_masks"](st, np.arange(n)).tolist() != [[seg_of[j] == seg_of[i] for j in range(n)] for i in range(n)]:
                return f"{kind} masks on a stack of {depth}"
            sparts = list(f["KIND_iter"](st))
            if [(type(p_).__name__, p_.stack_depth(), p_.array_length()) for p_ in sparts] != [("AtomArrayStack", depth, len(s_)) for s_ in segs]:
                return f"{kind} iter on a stack of {depth}: {[(type(p_).__name__, p_.shape) for p_ in sparts]}"
            if any(p_.res_id.tolist() != [res[i] for i in s_] for p_, s_ in zip(sparts, segs)):
                return f"{kind} iter on a stack of {depth}: wrong atoms"
    if n:
        ids, names = struc.get_residues(arr)
        if ids.tolist() != [res[s] for s in rstarts] or names.tolist() != [name[s] for s in rstarts]:
            return "get_residues"
        if struc.get_chains(arr).tolist() != [chain[s] for s in cstarts]:
            return "get_chains"
    return None


def components(n, edges):
    parent = list(range(n))

    def find(x):
        while parent[x] != x:
            parent[x] = parent[parent[x]]
            x = parent[x]
        return x
    for a, b in edges:
        parent[find(a)] = find(b)
    comps = {}
    for i in range(n):
        comps.setdefault(find(i), []).append(i)
    return sorted(comps.values())


PAIRS5 = list(itertools.combinations(range(5), 2))


def check_molecules(n, bits):
    import biotite.structure as struc
    pairs = [p for p in PAIRS5 if p[1] < n]
    edges = [p for k, p in enumerate(pairs) if bits >> k & 1]
    bl = struc.BondList(n, np.array([[a, b, (bits + 2 * a + b) % len(struc.BondType)] for a, b in edges], dtype=np.int64).reshape(-1, 3))      # every bond type incl. ANY, aromatic and COORDINATION
    want = components(n, edges)
    got = sorted(sorted(int(x) for x in m) for m in struc.get_molecule_indices(bl))
    if got != want:
        return f"molecules {got} vs components {want} for edges {edges}"
    arr = struc.AtomArray(n)
    arr.coord = np.zeros((n, 3), dtype=np.float32)
    arr.bonds = bl
    masks = struc.get_molecule_masks(arr)
    if sorted(sorted(np.where(m)[0].tolist()) for m in masks) != want:
        return "molecule masks"
    arr.set_annotation("tag", np.arange(n))
    its = list(struc.molecule_iter(arr))
    if sorted(sorted(p.tag.tolist()) for p in its) != want:
        return f"molecule_iter yields atoms {sorted(sorted(p.tag.tolist()) for p in its)}, components {want}"
    # the same on a stack of 2 and of n models (the atom axis is the last one; depth == atom count is the confusable case)
    for depth in (2, max(n, 1)):
        st = struc.stack([arr] * depth)
        st.coord[1:] += 1
        got = sorted(sorted(int(x) for x in m) for m in struc.get_molecule_indices(st))
        if got != want:
            return f"get_molecule_indices on a stack of {depth}: {got}"
        if sorted(sorted(np.where(m)[0].tolist()) for m in struc.get_molecule_masks(st)) != want:
            return f"molecule masks on a stack of {depth}"
        parts = list(struc.molecule_iter(st))
        if any(not isinstance(p, struc.AtomArrayStack) or p.stack_depth() != depth for p in parts):
            return f"molecule_iter on a stack of {depth} yields {[type(p).__name__ + str(p.shape) for p in parts]}"
        if sorted(sorted(p.tag.tolist()) for p in parts) != want:
            return f"molecule_iter on a stack of {depth} yields atoms {sorted(sorted(p.tag.tolist()) for p in parts)}, components {want}"
    for root in range(n):
        fc = sorted(int(x) for x in struc.find_connected(bl, root))
        if fc != [c for c in want if root in c][0]:
            return f"find_connected({root}) = {fc}"
    return None


def _rep(f, *keys):
    def g(w):
        try:
            r = f(*[w[k] for k in keys])
            return r is None, str(r)
        except Exception as e:
            import traceback
            return False, f"{type(e).__name__}: {e} | {traceback.format_exc()[-300:]}"
    return g


def ob_segments(tier):
    cases = []
    for n in ((0, 1, 2, 3, 4) if tier == "quick" else (0, 1, 2, 3, 4, 5)):
        vs = [(z3.Int(f"cc{k}"), z3.Int(f"rd{k}"), z3.Int(f"it{k}"), z3.Int(f"nt{k}")) for k in range(max(0, n - 1))]
        base = []
        for cc, rd, it, nt in vs:
            base += [cc >= 0, cc <= 1, rd >= -1, rd <= 1, it >= 0, it <= 1, nt >= 0, nt <= 1]

        def run(n=n, vs=vs):
            ex = cur()
            ch = [(ex.choose(cc, range(2)), ex.choose(rd, range(-1, 2)), ex.choose(it, range(2)), ex.choose(nt, range(2))) for cc, rd, it, nt in vs]
            return check_segments(n, ch) is None
        splits = [[]] if n < 4 else [[vs[0][0] == a, vs[0][1] == b] for a in range(2) for b in range(-1, 2)]
        for sp in splits:
            cases.append(Case(f"segments n={n} {sp}", base + sp, run, dict(n=n, changes=[[cc, rd, it, nt] for cc, rd, it, nt in vs]),
                              _rep(lambda n, changes: check_segments(n, [tuple(c) for c in changes]), "n", "changes")))
    return cases


def ob_molecules(tier):
    cases = []
    for n in ((1, 2, 3, 4) if tier == "quick" else (1, 2, 3, 4, 5)):
        npairs = len([p for p in PAIRS5 if p[1] < n])
        bits = z3.Int("bits")

        def run(n=n, npairs=npairs, bits=bits):
            return check_molecules(n, cur().choose(bits, range(2 ** npairs))) is None
        cases.append(Case(f"molecules n={n}", [bits >= 0, bits < 2 ** npairs], run, dict(n=n, bits=bits),
                          _rep(check_molecules, "n", "bits")))
    return cases


# ------------------------------------------------------------------ 'for structures of any size'
def check_long_chain(length):
    """connected components of a linear chain of `length` atoms, run in a subprocess (the recursive search may
    exhaust the C stack and kill the interpreter)"""
    import subprocess
    from vf.common import PY, child_env
    code = ("import numpy as np, biotite.structure as s\n"
            f"n = {length}\n"
            "b = s.BondList(n, np.stack([np.arange(n - 1), np.arange(1, n), np.ones(n - 1, dtype=int)], axis=1))\n"
            "m = s.get_molecule_indices(b)\n"
            "print('RES', len(m), len(m[0]))\n")
    p = subprocess.run([PY, "-c", code], capture_output=True, text=True, env=child_env(), timeout=600)
    for l in p.stdout.splitlines():
        if l.startswith("RES"):
            return None if l.split()[1:] == ["1", str(length)] else f"chain of {length}: {l}"
    return f"chain of {length} atoms: interpreter terminated (rc={p.returncode}) in get_molecule_indices"


def check_large(n, k, stride):
    """a structure of n atoms (beyond any size threshold) made of bonded runs of k atoms separated by unbonded atoms,
    plus one long-range bond per `stride` runs: components by union-find (in process: runs are short)"""
    import biotite.structure as struc
    edges = [(i, i + 1) for i in range(n - 1) if i % (k + 1) < k - 1]
    runs = [i for i in range(0, n - k, k + 1)]
    edges += [(runs[j], runs[j + 1] + k - 1) for j in range(0, len(runs) - 1, stride)]
    bl = struc.BondList(n, np.array([[a, b, 1] for a, b in edges], dtype=np.int64).reshape(-1, 3))
    want = components(n, edges)
    got = struc.get_molecule_indices(bl)
    if sorted(sorted(int(x) for x in m) for m in got) != want:
        return f"n={n} k={k} stride={stride}: {len(got)} molecules with {sum(len(m) for m in got)} atoms, components: {len(want)} with {n} atoms"
    arr = struc.AtomArray(n)
    arr.coord = np.zeros((n, 3), dtype=np.float32)
    arr.bonds = bl
    arr.set_annotation("tag", np.arange(n))
    masks = struc.get_molecule_masks(arr)
    if masks.shape != (len(want), n) or not (masks.sum(axis=0) == 1).all():
        return f"n={n} k={k}: molecule masks do not partition the atoms"
    parts = [p.tag.tolist() for p in struc.molecule_iter(arr)]
    if sorted(sorted(p) for p in parts) != want:
        return f"n={n} k={k}: molecule_iter yields {len(parts)} molecules with {sum(len(p) for p in parts)} atoms"
    return None


def ob_large(tier):
    N, K, S = z3.Ints("N K S")
    sizes = [9000, 10001, 12000] if tier == "quick" else [9000, 10001, 12000, 70000]
    ks, strides = [1, 2, 5], [1, 3, 10 ** 9]
    return [Case("large structures with isolated atoms", [N >= 0, N < len(sizes), K >= 0, K < len(ks), S >= 0, S < len(strides)],
                 lambda: check_large(sizes[cur().choose(N, range(len(sizes)))], ks[cur().choose(K, range(len(ks)))],
                                     strides[cur().choose(S, range(len(strides)))]) is None,
                 dict(N=N, K=K, S=S), lambda w: _rep(lambda N, K, S: check_large(sizes[N], ks[K], strides[S]), "N", "K", "S")(w))]


def ob_long_chain(tier):
    L = z3.Int("L")
    sizes = [10, 1000, 20000, 200000]
    known = [("C17-find-connected-recursion", L >= 3, dict(L=3),
              "find_connected()/get_molecule_indices() recurse once per atom of a component (cdef _find_connected): a linear chain of "
              "200000 bonded atoms exhausts the C stack and kills the interpreter, so molecules are not reported 'for structures of any size'")]
    return [Case("long chains", [L >= 0, L < len(sizes)], lambda: check_long_chain(sizes[cur().choose(L, range(len(sizes)))]) is None,
                 dict(L=L), lambda w: _rep(lambda L: check_long_chain(sizes[L]), "L")(w), known=known)]
