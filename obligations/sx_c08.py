"""C08 (E-class): the compiled align_optimal end-to-end against the brute-force optimum (wrapper glue: table
initialisation, start-cell selection, trace post-processing, Alignment construction, score())."""
import numpy as np
import z3

from vf.sx.core import cur
from vf.sx.ob import Case
import kx_c08 as K

MATS = [[[1, -1], [-1, 1]], [[2, 0], [-2, 1]], [[0, 0], [0, 0]], [[-1, -2], [-2, -1]], [[1, 2], [0, -1]]]
GAPS = [0, -1, -2, (-2, -1), (-1, -2), (0, 0), (-3, 0), (-1, -1), (-3, -3), (-1, 0)]
MAXN = [1, 2, 1000]
MODES = [(False, True), (False, False), (True, True)]


def check(n, m, codes, mi, gi, mode, mx, wide_alphabet):
    from biotite.sequence import Alphabet, GeneralSequence
    from biotite.sequence.align import SubstitutionMatrix, align_optimal, score as aln_score
    c1, c2 = [codes[i % 3] for i in range(n)], [codes[3 + j % 3] for j in range(m)]          # (longer sequences repeat the three codes)
    gap = GAPS[gi]
    affine = isinstance(gap, tuple)
    local, term = MODES[mode]
    mat = MATS[mi]
    want = K.brute_force(c1, c2, mat, gap, affine, local, term)
    if wide_alphabet:
        # second sequence over an alphabet with > 256 symbols (uint16 codes) whose first two symbols carry the scores
        a1, a2 = Alphabet([0, 1]), Alphabet(list(range(300)))
        full = np.zeros((2, 300), dtype=np.int32)
        full[:, :2] = mat
        smat = SubstitutionMatrix(a1, a2, full)
    else:
        a1 = a2 = Alphabet([0, 1])
        smat = SubstitutionMatrix(a1, a2, np.array(mat, dtype=np.int32))
        # the same scores held in memory differently: a Fortran-ordered array and the transpose of the transposed matrix
        # (score matrices that are not C-contiguous)
        layouts = [SubstitutionMatrix(a1, a2, np.asfortranarray(np.array(mat, dtype=np.int32))),
                   SubstitutionMatrix(a2, a1, np.array(mat, dtype=np.int32).T.copy()).transpose()]
    s1, s2 = GeneralSequence(a1), GeneralSequence(a2)
    s1.code = np.array(c1, dtype=np.uint8)
    s2.code = np.array(c2, dtype=np.uint16 if wide_alphabet else np.uint8)
    alns = align_optimal(s1, s2, smat, gap_penalty=gap, terminal_penalty=term, local=local, max_number=MAXN[mx])
    if not wide_alphabet:
        for lay in layouts:
            other = align_optimal(s1, s2, lay, gap_penalty=gap, terminal_penalty=term, local=local, max_number=MAXN[mx])
            if [(x.score, x.trace.tolist()) for x in other] != [(x.score, x.trace.tolist()) for x in alns]:
                return (f"the same scores in another memory layout (strides {lay.score_matrix().strides}) give score "
                        f"{other[0].score if other else None}, the C-ordered matrix gives {alns[0].score if alns else None}")
    if not alns or len(alns) > MAXN[mx]:
        return f"{len(alns)} alignments for max_number={MAXN[mx]}"
    seen = set()
    for a in alns:
        cols = [tuple(int(x) for x in r) for r in a.trace]
        if a.score != want:
            return f"reported score {a.score}, optimum over all alignments {want}"
        if cols:
            if not K.valid_alignment(cols, n, m, local):
                return f"invalid trace {cols}"
            rec = aln_score(a, smat, gap_penalty=gap, terminal_penalty=term if not local else True)
            if rec != a.score:
                return f"trace {cols} recomputes to {rec}, reported {a.score}"
        if cols and tuple(cols) in seen:          # (only non-empty results must be pairwise distinct)
            return "duplicate alignment"
        seen.add(tuple(cols))
        if a.sequences[0] is not s1 and str(a.sequences[0].code.tolist()) != str(c1):
            return "sequences not preserved"
    if gi == 0 and mode == 0 and mx == 0:
        # documented defaults: gap_penalty=-10, terminal_penalty=True, local=False, max_number=1000
        d1 = align_optimal(s1, s2, smat)
        d2 = align_optimal(s1, s2, smat, gap_penalty=-10, terminal_penalty=True, local=False, max_number=1000)
        best = K.brute_force(c1, c2, mat, -10, False, False, True)
        if [(x.score, x.trace.tolist()) for x in d1] != [(x.score, x.trace.tolist()) for x in d2] or d1[0].score != best:
            return f"align_optimal with default options: scores {[x.score for x in d1]}, with the documented defaults spelled out {[x.score for x in d2]}, optimum {best}"
    return None


def _rep(w):
    try:
        r = check(w["n"], w["m"], w["codes"], w["mi"], w["gi"], w["mode"], w["mx"], w["wide"])
        return r is None, str(r)
    except Exception as e:
        return False, f"{type(e).__name__}: {e}"


def ob_align_optimal(tier):
    cases = []
    shapes = [(1, 1), (2, 2), (3, 2), (2, 3)] + ([(3, 3), (1, 3)] if tier == "thorough" else [])
    for (n, m) in shapes:
        for mode in range(3):
            cs = [z3.Int(f"c{i}") for i in range(6)]
            mi, gi, mx, wd = z3.Ints("mi gi mx wd")
            base = [z3.And(c >= 0, c <= 1) for c in cs] + [mi >= 0, mi < len(MATS), gi >= 0, gi < len(GAPS), mx >= 0, mx < 3, wd >= 0, wd <= 1]
            base += [cs[i] == 0 for i in range(n, 3)] + [cs[3 + j] == 0 for j in range(m, 3)]
            if tier == "quick":
                base += [z3.Implies(wd == 1, mx == 2)]

            def run(n=n, m=m, mode=mode, cs=cs, mi=mi, gi=gi, mx=mx, wd=wd):
                ex = cur()
                codes = [ex.choose(c, range(2)) for c in cs]
                a, b, c, d = ex.choose(mi, range(len(MATS))), ex.choose(gi, range(len(GAPS))), ex.choose(mx, range(3)), ex.choose(wd, range(2))
                return check(n, m, codes, a, b, mode, c, bool(d)) is None
            cases.append(Case(f"align_optimal {n}x{m} mode={MODES[mode]}", base, run,
                              dict(n=n, m=m, codes=cs, mi=mi, gi=gi, mode=mode, mx=mx, wide=wd), _rep))
    # long thin tables: chains of gap extensions along the border run through the 'minus infinity' cells of the affine
    # tables (their sentinel must not wrap however many penalties are added to it)
    for (n, m) in [(1, 8), (8, 1), (2, 6), (6, 2)]:
        for mode in range(2):
            cs = [z3.Int(f"c{i}") for i in range(6)]
            mi, gi = z3.Ints("mi gi")
            affine_ix = [k for k, g in enumerate(GAPS) if isinstance(g, tuple)]
            base = [z3.And(c >= 0, c <= 1) for c in cs] + [mi >= 0, mi < len(MATS), z3.Or(*[gi == k for k in affine_ix])]
            base += [cs[i] == 0 for i in range(min(n, 3), 3)] + [cs[3 + j] == 0 for j in range(min(m, 3), 3)]

            def run(n=n, m=m, mode=mode, cs=cs, mi=mi, gi=gi):
                ex = cur()
                codes = [ex.choose(c, range(2)) for c in cs]
                return check(n, m, codes, ex.choose(mi, range(len(MATS))), ex.choose(gi, affine_ix), mode, 2, False) is None
            cases.append(Case(f"align_optimal {n}x{m} mode={MODES[mode]} (affine, long border)", base, run,
                              dict(n=n, m=m, codes=cs, mi=mi, gi=gi, mode=mode, mx=2, wide=0), _rep))
    return cases
