"""C10 (KX engine): selector and mask kernels lowered from the .pyx source over symbolic arrays.

  * selector.pyx:_minimize with _chunk_wise_forward/reverse_argcummin: symbolic int64 sort keys, every window
    size; claim: position = leftmost minimum of every window (duplicates removed or kept).
  * kmertable.pyx:_to_kmer_mask: symbolic ignore mask, continuous and spaced models; claim: a k-mer is retained iff
    none of its informative positions is ignored, and no read leaves the mask buffer.
  * kmersimilarity.pyx:ScoreThresholdRule.similar_kmers: symbolic symmetric score matrix and threshold; claim: the
    branch-and-bound search returns exactly the k-mers whose score reaches the threshold.
"""
import z3

from vf.kx.kernel import Kernel, SymArray
from vf.kx.freshness import binary_state
from vf.kx import rt
from vf.kx.rt import CInt, View, MemorySafety, const_view
from vf.sx.ob import Case

I64, U32, U8, I32 = rt.TYPES["int64"], rt.TYPES["uint32"], rt.TYPES["uint8"], rt.TYPES["int32"]
MAX64 = 2 ** 63 - 1
_k = {}


def sel_kernel():
    if "sel" not in _k:
        _k["sel"] = Kernel("sequence/align/selector.pyx",
                           ["_minimize", "_chunk_wise_forward_argcummin", "_chunk_wise_reverse_argcummin"],
                           mode="int", package="sequence.align", unwind=16)
    return _k["sel"]


def mask_kernel():
    if "mask" not in _k:
        _k["mask"] = Kernel("sequence/align/kmertable.pyx", ["_to_kmer_mask"], mode="int", package="sequence.align", unwind=16)
    return _k["mask"]


def state(k):
    return binary_state(k.path, [(m["lineno"], m["nlines"]) for m in k.meta.values()])


def _ints(xs):
    return [int(x) if isinstance(x, int) else int(x.e if isinstance(x.e, int) else x.e.as_long()) for x in xs]


# ------------------------------------------------------------------------------------------- minimizers
def leftmost_min(vals, s, w):
    win = vals[s:s + w]
    return s + win.index(min(win))


def expected_minimizers(order, w, dup):
    out = []
    for s in range(len(order) - w + 1):
        p = leftmost_min(order, s, w)
        if dup or not out or out[-1] != p:
            out.append(p)
    return out


def source_minimize(w):
    k = sel_kernel()
    k._activate()
    order, win, dup = w["order"], w["window"], w["dup"]
    kmers = list(range(100, 100 + len(order)))
    try:
        pos, mins = k["_minimize"](const_view(kmers, "int64"), const_view(order, "int64"), CInt.const(win, U32), dup)
    except MemorySafety as e:
        return False, f"[source-level] {e}"
    got = _ints(pos.data)
    want = expected_minimizers(order, win, dup)
    return got == want and _ints(mins.data) == [kmers[p] for p in got], f"[source-level] positions {got}, expected {want}"


def real_minimize(w):
    """public API: MinimizerSelector with a permutation returning the given sort keys (duplicates removed), and
    SyncmerSelector-like use (duplicates kept) through the module-level _minimize"""
    import numpy as np
    from biotite.sequence.align import selector
    k = sel_kernel()
    if state(k) != "fresh":
        return source_minimize(w)
    order, win, dup = w["order"], w["window"], w["dup"]
    kmers = np.arange(100, 100 + len(order), dtype=np.int64)
    pos, mins = selector._minimize(kmers, np.array(order, dtype=np.int64), win, dup)
    want = expected_minimizers(order, win, dup)
    return pos.tolist() == want and mins.tolist() == [int(kmers[p]) for p in want], f"positions {pos.tolist()}, expected {want}"


def validate_minimize():
    k = sel_kernel()
    st = state(k)
    if st != "fresh":
        return f"skipped: binary_state={st}"
    n = 0
    for w in [dict(order=[5, 3, 8, 3, 9, 1, 1, 7], window=2, dup=False), dict(order=[5, 3, 8, 3, 9, 1, 1, 7], window=3, dup=True),
              dict(order=[1, 2, 3, 4], window=4, dup=False), dict(order=[-4, -4, -4], window=2, dup=True),
              dict(order=[0, 5, MAX64, MAX64], window=2, dup=False)]:
        a, b = source_minimize(w), real_minimize(w)
        if a[0] != b[0]:
            raise AssertionError(f"translator: {w}: lowered {a} vs compiled {b}")
        n += 1
    return f"{n} concrete vectors: lowered source and compiled module agree; binary_state={st}"


def ob_minimize(tier):
    k = sel_kernel()
    cases = []
    for n in ((2, 3, 4) if tier == "quick" else (2, 3, 4, 5, 6)):
        for win in range(2, n + 1):
            for dup in (False, True):
                vs = [z3.Int(f"o{i}") for i in range(n)]
                ks = [z3.Int(f"k{i}") for i in range(n)]
                base = [z3.And(v >= -2 ** 63, v <= MAX64) for v in vs + ks]

                def run(n=n, win=win, dup=dup, vs=vs, ks=ks):
                    k._activate()
                    order = View([CInt(v, I64) for v in vs], I64)
                    kmers = View([CInt(v, I64) for v in ks], I64)
                    try:
                        pos, mins = k["_minimize"](kmers, order, CInt.const(win, U32), dup)
                    except MemorySafety:
                        return False
                    R = [x.e if isinstance(x, CInt) else x for x in pos.data]
                    M = [x.e if isinstance(x, CInt) else x for x in mins.data]
                    nw = n - win + 1
                    # leftmost minimum of each window as a z3 term
                    exp = []
                    for s in range(nw):
                        e = z3.IntVal(s + win - 1)
                        for j in reversed(range(s, s + win - 1)):
                            is_min = z3.And(*[vs[j] <= vs[l] for l in range(s, s + win) if l != j])
                            e = z3.If(is_min, z3.IntVal(j), e)
                        # the chain above picks the smallest j that is a minimum (later j only if no earlier one is)
                        exp.append(e)
                    kval = lambda p: _select(ks, p)
                    if dup:
                        if len(R) != nw:
                            return False
                        return z3.And(*[R[s] == exp[s] for s in range(nw)], *[M[s] == kval(exp[s]) for s in range(nw)])
                    keep = [z3.BoolVal(True)] + [exp[s] != exp[s - 1] for s in range(1, nw)]
                    idx = []
                    acc = z3.IntVal(-1)
                    for s in range(nw):
                        acc = acc + z3.If(keep[s], 1, 0)
                        idx.append(acc)
                    conds = [idx[-1] + 1 == len(R)]
                    for s in range(nw):
                        for r in range(len(R)):
                            conds.append(z3.Implies(z3.And(keep[s], idx[s] == r), z3.And(R[r] == exp[s], M[r] == kval(exp[s]))))
                    return z3.And(*conds)
                cases.append(Case(f"_minimize n={n} window={win} duplicates={'kept' if dup else 'removed'}", base, run,
                                  dict(order=vs, window=win, dup=dup), real_minimize,
                                  known=[("C10-minimize-int64-max-key", z3.Or(*[v == MAX64 for v in vs]),
                                          dict(order=[0, 5, MAX64, MAX64][:max(n, 3)] if n >= 3 else [MAX64, MAX64], window=2, dup=dup),
                                          "a sort key equal to INT64_MAX is never smaller than the chunk placeholder: stale argcummin index")]))
    return cases, dict(functions=k.functions_info(), note=validate_minimize())


def _select(xs, p):
    e = xs[-1]
    for j in reversed(range(len(xs) - 1)):
        e = z3.If(p == j, xs[j], e)
    return e


# ------------------------------------------------------------------------------------------- k-mer mask
class _Alph:
    def __init__(self, k, spacing):
        self.k = k
        self.spacing = None if spacing is None else SymArray([CInt.const(o, I64) for o in spacing], I64)
        self._span = k if spacing is None else spacing[-1] + 1

    def kmer_array_length(self, n):
        n = n.e if isinstance(n, CInt) else n
        length = int(n) - self._span + 1
        if length < 0:
            raise ValueError("shorter than the k-mer span")
        return length


def expected_mask(mask, k, spacing):
    off = list(range(k)) if spacing is None else list(spacing)
    span = off[-1] + 1
    return [int(not any(mask[i + o] for o in off)) for i in range(len(mask) - span + 1)]


def source_mask(w):
    k = mask_kernel()
    k._activate()
    try:
        got = k["_to_kmer_mask"](const_view(w["mask"], "uint8"), _Alph(w["k"], w["spacing"]))
    except MemorySafety as e:
        return False, f"[source-level] {e}"
    got = [int(bool(v)) for v in _ints(got.data)]
    want = expected_mask(w["mask"], w["k"], w["spacing"])
    return got == want, f"[source-level] k-mer mask {got}, expected {want}"


def real_mask(w):
    import numpy as np
    from biotite.sequence import Alphabet
    from biotite.sequence.align import KmerAlphabet, kmertable
    k = mask_kernel()
    if state(k) != "fresh":
        return source_mask(w)
    ka = KmerAlphabet(Alphabet(["a", "b"]), w["k"], None if w["spacing"] is None else list(w["spacing"]))
    span = w["k"] if w["spacing"] is None else w["spacing"][-1] + 1
    want = expected_mask(w["mask"], w["k"], w["spacing"])
    # the mask lives inside a larger buffer so that an out-of-range read of the compiled code stays harmless, and the
    # padding is filled once with 0 and once with 1: a read beyond the mask shows up as a result that depends on it
    for pad in (0, 1):
        buf = np.full(len(w["mask"]) + 64, pad, dtype=np.uint8)
        buf[:len(w["mask"])] = w["mask"]
        got = np.asarray(kmertable._to_kmer_mask(buf[:len(w["mask"])], ka)).astype(bool).astype(int).tolist()
        if got != want:
            return False, f"k-mer mask {got}, expected {want} (bytes after the mask buffer = {pad})"
    return True, f"k-mer mask {got}"


def validate_mask():
    k = mask_kernel()
    st = state(k)
    if st != "fresh":
        return f"skipped: binary_state={st}"
    n = 0
    for w in [dict(mask=[0, 1, 0, 0, 0], k=2, spacing=None), dict(mask=[0, 0, 0, 0], k=3, spacing=None),
              dict(mask=[1, 0, 0, 0, 0], k=2, spacing=[0, 2]), dict(mask=[0, 0, 0, 0, 1, 0], k=3, spacing=[0, 1, 3])]:
        a, b = source_mask(w), real_mask(w)
        if a[0] != b[0]:
            raise AssertionError(f"translator: {w}: lowered {a} vs compiled {b}")
        n += 1
    return f"{n} concrete vectors: lowered source and compiled module agree; binary_state={st}"


def ob_kmer_mask(tier):
    k = mask_kernel()
    cases = []
    models = [(2, None), (3, None), (2, [0, 2]), (3, [0, 1, 3]), (2, [0, 3])] + ([] if tier == "quick" else [(4, None), (3, [0, 2, 4]), (4, [0, 1, 3, 4])])
    for kk, spacing in models:
        span = kk if spacing is None else spacing[-1] + 1
        for extra in ((0, 1, 2) if tier == "quick" else (0, 1, 2, 3, 4)):
            n = span + extra
            ms = [z3.Int(f"m{i}") for i in range(n)]
            base = [z3.And(m >= 0, m <= 1) for m in ms]      # a boolean array seen as bytes

            def run(kk=kk, spacing=spacing, n=n, ms=ms, span=span):
                k._activate()
                mask = View([CInt(m, U8) for m in ms], U8)
                try:
                    got = k["_to_kmer_mask"](mask, _Alph(kk, spacing))
                except MemorySafety:
                    return False
                off = list(range(kk)) if spacing is None else spacing
                conds = []
                for i, g in enumerate(got.data):
                    ge = g.e if isinstance(g, CInt) else g
                    nz = (ge != 0) if not isinstance(ge, int) else z3.BoolVal(ge != 0)
                    if isinstance(ge, z3.BitVecRef):
                        nz = ge != 0
                    conds.append(nz == z3.And(*[ms[i + o] == 0 for o in off]))
                return z3.And(len(got.data) == n - span + 1, *conds) if conds else len(got.data) == n - span + 1
            wit_n = n
            cases.append(Case(f"_to_kmer_mask k={kk} spacing={spacing} n={n}", base, run,
                              dict(mask=ms, k=kk, spacing=spacing), real_mask,
                              known=[] if spacing is None else [
                                  ("C10-spaced-kmer-mask", z3.BoolVal(True), dict(mask=[0] * (wit_n - 1) + [1], k=kk, spacing=spacing),
                                   "spaced k-mers with an ignore mask: _to_kmer_mask reads mask[j + offset]")]))
    return cases, dict(functions=k.functions_info(), note=validate_mask())


# ------------------------------------------------------------------------------------------- similarity rule
def _expand(a):
    """stands for kmersimilarity.pyx:expand (cdef, numpy slicing): double the first dimension, keep the rows"""
    rows = [list(r) for r in a.data]
    return SymArray(rows + [[CInt.const(0, a.t) for _ in rows[0]] for _ in rows], a.t)


def sim_kernel():
    if "sim" not in _k:
        _k["sim"] = Kernel("sequence/align/kmersimilarity.pyx", [("ScoreThresholdRule", "similar_kmers")], mode="int",
                           package="sequence.align", unwind=16, extra_ns=dict(expand=_expand))
    return _k["sim"]


def _digits(A, k, c):
    out = []
    for _ in range(k):
        out.append(c % A)
        c //= A
    return out[::-1]


class _KAlph:
    def __init__(self, A, k):
        self.A, self.k = A, k
        self.base_alphabet = type("Base", (), {"__len__": lambda s: A})()

    def split(self, kmer):
        kmer = int(kmer.e) if isinstance(kmer, CInt) else int(kmer)
        return SymArray([CInt.const(d, I64) for d in _digits(self.A, self.k, kmer)], I64)

    def fuse(self, arr):
        out = []
        for row in arr.data:
            c = 0
            for x in row:
                c = c * self.A + int(x.e if isinstance(x, CInt) else x)
            out.append(c)
        return out


class _Rule:
    def __init__(self, M, thr):
        self._matrix = type("Mat", (), {"get_alphabet1": lambda s: type("A1", (), {"extends": lambda s, o: True})(),
                                        "score_matrix": lambda s: M})()
        self._threshold = thr


def brute_similar(M, A, k, kmer, thr):
    a = _digits(A, k, kmer)
    return [o for o in range(A ** k) if sum(M[x][y] for x, y in zip(a, _digits(A, k, o))) >= thr]


def source_similar(w):
    kk = sim_kernel()
    kk._activate()
    M, A, k = w["matrix"], w["A"], w["k"]
    try:
        got = sorted(kk["similar_kmers"](_Rule(const_view(M, "int32"), CInt.const(w["thr"], I32)), _KAlph(A, k), w["kmer"]))
    except MemorySafety as e:
        return False, f"[source-level] {e}"
    want = brute_similar(M, A, k, w["kmer"], w["thr"])
    return got == want, f"[source-level] similar_kmers = {got}, expected {want}"


def real_similar(w):
    import numpy as np
    from biotite.sequence import Alphabet
    from biotite.sequence.align import KmerAlphabet, ScoreThresholdRule, SubstitutionMatrix
    kk = sim_kernel()
    if state(kk) != "fresh":
        return source_similar(w)
    M, A, k = w["matrix"], w["A"], w["k"]
    big = Alphabet(list("abcdefgh"[:len(M)]))
    base = Alphabet(list("abcdefgh"[:A]))
    rule = ScoreThresholdRule(SubstitutionMatrix(big, big, np.array(M, dtype=np.int32)), w["thr"])
    got = sorted(rule.similar_kmers(KmerAlphabet(base, k), w["kmer"]).tolist())
    want = brute_similar(M, A, k, w["kmer"], w["thr"])
    return got == want, f"similar_kmers({w['kmer']}) = {got}, expected {want}"


def validate_similar():
    kk = sim_kernel()
    st = state(kk)
    if st != "fresh":
        return f"skipped: binary_state={st}"
    n = 0
    for w in [dict(matrix=[[2, -1], [-1, 2]], A=2, k=2, kmer=1, thr=1), dict(matrix=[[1, 3], [3, 0]], A=2, k=3, kmer=5, thr=6),
              dict(matrix=[[2, -1, 0], [-1, 2, 1], [0, 1, 2]], A=3, k=2, kmer=4, thr=3),
              dict(matrix=[[2, -1, 5], [-1, 2, 1], [5, 1, 2]], A=2, k=2, kmer=2, thr=0)]:
        a, b = source_similar(w), real_similar(w)
        if a[0] != b[0]:
            raise AssertionError(f"translator: {w}: lowered {a} vs compiled {b}")
        n += 1
    return f"{n} concrete vectors: lowered source and compiled module agree; binary_state={st}"


def ob_similar_kmers(tier):
    kk = sim_kernel()
    cases = []
    shapes = [(2, 2, 2), (2, 2, 3), (2, 3, 2)] + ([] if tier == "quick" else [(3, 3, 2), (2, 3, 3), (3, 4, 2)])
    for A, A2, k in shapes:           # base alphabet size, matrix alphabet size (>= A: the matrix alphabet extends it), k
        for kmer in range(A ** k):
            ent = {(i, j): z3.Int(f"m{i}{j}") for i in range(A2) for j in range(i, A2)}
            M = [[ent[(min(i, j), max(i, j))] for j in range(A2)] for i in range(A2)]
            thr = z3.Int("thr")
            base = [z3.And(v >= -64, v <= 64) for v in ent.values()] + [thr >= -1000, thr <= 1000]

            def run(A=A, A2=A2, k=k, kmer=kmer, M=M, thr=thr):
                kk._activate()
                mat = View([[CInt(e, I32) for e in row] for row in M], I32)
                try:
                    got = kk["similar_kmers"](_Rule(mat, CInt(thr, I32)), _KAlph(A, k), kmer)
                except MemorySafety:
                    return False
                a = _digits(A, k, kmer)
                conds = [len(set(got)) == len(got)]
                for o in range(A ** k):
                    score = sum(M[x][y] for x, y in zip(a, _digits(A, k, o)))
                    conds.append((score >= thr) if o in got else (score < thr))
                return z3.And(*[c if not isinstance(c, bool) else z3.BoolVal(c) for c in conds])
            cases.append(Case(f"similar_kmers A={A} matrix {A2}x{A2} k={k} kmer={kmer}", base, run,
                              dict(matrix=M, A=A, k=k, kmer=kmer, thr=thr), real_similar))
    return cases, dict(functions=kk.functions_info(), note=validate_similar())
