"""C09 (E-class on the compiled heuristics): banded, seeded gapped (X-drop) and ungapped seed extension
against brute-force oracles: validity, honest score, never above the optimum, equal to it when the band covers
the table / the threshold cannot bind, band containment, seed containment, direction, score_only."""
import numpy as np
import z3

from vf.sx.core import cur
from vf.sx.ob import Case
import kx_c08 as K

MATS = [[[3, -2], [1, -1]], [[1, -1], [-1, 1]], [[5, -4], [-4, 5]], [[2, 0], [-2, 1]], [[-1, -2], [-2, -1]]]
GAPS = [-2, (-3, -1), (-4, -4), -1, (-2, -1), 0, (-10, -9), (-1, -3)]
THRESH = [100, 1, 0, 3]
DIRS = ["both", "upstream", "downstream"]


def _seqs(c1, c2):
    from biotite.sequence import Alphabet, GeneralSequence
    a = Alphabet([0, 1])
    s1, s2 = GeneralSequence(a), GeneralSequence(a)
    s1.code = np.array(c1, dtype=np.uint8)
    s2.code = np.array(c2, dtype=np.uint8)
    return a, s1, s2


def _cols(aln):
    return [tuple(int(x) for x in r) for r in aln.trace]


def _valid_local(cols):
    if not cols:
        return True
    return K.valid_alignment(cols, 0, 0, True)


def _score_cols(cols, c1, c2, mat, gap):
    """score of the aligned region only (no terminal gaps inside a local/semi-global result)"""
    affine = isinstance(gap, tuple)
    tot, prev = 0, None
    for a, b in cols:
        if a != -1 and b != -1:
            tot += mat[c1[a]][c2[b]]
            prev = "m"
        else:
            kind = "g1" if a == -1 else "g2"
            if affine:
                tot += gap[0] if prev != kind else gap[1]
            else:
                tot += gap
            prev = kind
    return tot


def all_local_alignments(n, m):
    """every alignment of every pair of substrings, as absolute column lists"""
    for i0 in range(n):
        for i1 in range(i0 + 1, n + 1):
            for j0 in range(m):
                for j1 in range(j0 + 1, m + 1):
                    for aln in K.alignments(i1 - i0, j1 - j0):
                        cols = []
                        for c in aln:
                            if c[0] == "m":
                                cols.append((i0 + c[1], j0 + c[2]))
                            elif c[0] == "g1":
                                cols.append((-1, j0 + c[1]))
                            else:
                                cols.append((i0 + c[1], -1))
                        yield cols


def _affine_ok(cols):
    kinds = ["m" if a != -1 and b != -1 else ("g1" if a == -1 else "g2") for a, b in cols]
    return all({x, y} != {"g1", "g2"} for x, y in zip(kinds, kinds[1:]))


def check_ungapped(c1, c2, mi, seed, ti, di):
    from biotite.sequence.align import SubstitutionMatrix, align_local_ungapped
    a, s1, s2 = _seqs(c1, c2)
    mat = MATS[mi]
    smat = SubstitutionMatrix(a, a, np.array(mat, dtype=np.int32))
    si, sj = seed
    if si >= len(c1) or sj >= len(c2):
        return None
    aln = align_local_ungapped(s1, s2, smat, (si, sj), THRESH[ti], direction=DIRS[di])
    sc = align_local_ungapped(s1, s2, smat, (si, sj), THRESH[ti], direction=DIRS[di], score_only=True)
    cols = _cols(aln)
    if sc != aln.score:
        return f"score_only {sc} != score of the full call {aln.score}"
    if (si, sj) not in cols:
        return f"seed {seed} not in trace {cols}"
    if any(b - a != sj - si or a == -1 or b == -1 for a, b in cols) or [a for a, _ in cols] != list(range(cols[0][0], cols[0][0] + len(cols))):
        return f"not a contiguous ungapped diagonal: {cols}"
    if DIRS[di] == "upstream" and cols[-1] != (si, sj):
        return "upstream extension runs past the seed"
    if DIRS[di] == "downstream" and cols[0] != (si, sj):
        return "downstream extension starts before the seed"
    rec = sum(mat[c1[x]][c2[y]] for x, y in cols)
    if rec != aln.score:
        return f"trace {cols} recomputes to {rec}, reported {aln.score}"
    # unrestricted optimum: best diagonal segment containing the seed (respecting the direction)
    best = None
    for lo in range(0, min(si, sj) + 1):
        for hi in range(0, min(len(c1) - si, len(c2) - sj)):
            if DIRS[di] == "upstream" and hi:
                continue
            if DIRS[di] == "downstream" and lo:
                continue
            s = sum(mat[c1[si + k]][c2[sj + k]] for k in range(-lo, hi + 1))
            best = s if best is None else max(best, s)
    if aln.score > best:
        return f"score {aln.score} above the optimum {best}"
    if THRESH[ti] >= 100 and aln.score != best:
        return f"threshold cannot bind but score {aln.score} != optimum {best}"
    return None


def check_gapped(c1, c2, mi, gi, seed, ti, di):
    from biotite.sequence.align import SubstitutionMatrix, align_local_gapped
    a, s1, s2 = _seqs(c1, c2)
    mat, gap = MATS[mi], GAPS[gi]
    if gap == 0:
        return None
    smat = SubstitutionMatrix(a, a, np.array(mat, dtype=np.int32))
    si, sj = seed
    if si >= len(c1) or sj >= len(c2):
        return None
    alns = align_local_gapped(s1, s2, smat, (si, sj), THRESH[ti], gap_penalty=gap, direction=DIRS[di], max_number=2)
    sc = align_local_gapped(s1, s2, smat, (si, sj), THRESH[ti], gap_penalty=gap, direction=DIRS[di], score_only=True)
    if not 1 <= len(alns) <= 2:
        return f"{len(alns)} alignments"
    affine = isinstance(gap, tuple)
    # optimum among alignments that pair the seed (and respect the direction)
    best = None
    for cols in all_local_alignments(len(c1), len(c2)):
        if (si, sj) not in cols or (affine and not _affine_ok(cols)):
            continue
        if cols[0][0] == -1 or cols[0][1] == -1 or cols[-1][0] == -1 or cols[-1][1] == -1:
            continue
        if DIRS[di] == "upstream" and cols[-1] != (si, sj):
            continue
        if DIRS[di] == "downstream" and cols[0] != (si, sj):
            continue
        s = _score_cols(cols, c1, c2, mat, gap)
        best = s if best is None else max(best, s)
    seen = set()
    for aln in alns:
        cols = _cols(aln)
        if aln.score != sc:
            return f"score_only {sc} != score of the full call {aln.score}"
        if (si, sj) not in cols:
            return f"seed {seed} not in trace {cols}"
        if not _valid_local(cols):
            return f"invalid trace {cols}"
        if DIRS[di] == "upstream" and cols[-1] != (si, sj):
            return f"upstream extension runs past the seed: {cols}"
        if DIRS[di] == "downstream" and cols[0] != (si, sj):
            return f"downstream extension starts before the seed: {cols}"
        rec = _score_cols(cols, c1, c2, mat, gap)
        if rec != aln.score:
            return f"trace {cols} recomputes to {rec}, reported {aln.score}"
        if aln.score > best:
            return f"score {aln.score} above the optimum {best} of alignments through the seed"
        if THRESH[ti] >= 100 and aln.score != best:
            return f"threshold cannot bind but score {aln.score} != optimum {best}"
        seen.add(tuple(cols))
    return None


def _boundary_gap_mislabelled(cols, c1, c2, mat, gap, reported):
    """known finding C09-banded-boundary-gap: the DP path starts with gap columns (symbols of one sequence against
    gaps right after the free overhang), but the trace post-processing of align_banded labels them as pairs.
    True iff turning the first k columns back into gap columns reproduces the reported score."""
    for side in (0, 1):
        for k in range(1, len(cols)):
            alt = list(cols)
            ok = True
            for q in range(k):
                a, b = alt[q]
                if a == -1 or b == -1:
                    ok = False
                    break
                alt[q] = (a, -1) if side == 0 else (-1, b)
            if ok and _score_cols(alt, c1, c2, mat, gap) == reported:
                return True
    return False


def _gap_next_to_overhang(cols, n, m):
    """the trace begins/ends with a gap column although the other sequence still has unaligned symbols at that end:
    in the documented affine model this is a gap abutting a (free) terminal gap of the other sequence"""
    xs = [a for a, _ in cols if a != -1]
    ys = [b for _, b in cols if b != -1]
    if not xs or not ys:
        return False
    first, last = cols[0], cols[-1]
    if first[1] == -1 and ys[0] > 0 or first[0] == -1 and xs[0] > 0:
        return True
    if last[1] == -1 and ys[-1] < m - 1 or last[0] == -1 and xs[-1] < n - 1:
        return True
    return False


def check_banded(c1, c2, mi, gi, band, local):
    from biotite.sequence.align import SubstitutionMatrix, align_banded
    a, s1, s2 = _seqs(c1, c2)
    mat, gap = MATS[mi], GAPS[gi]
    smat = SubstitutionMatrix(a, a, np.array(mat, dtype=np.int32))
    n, m = len(c1), len(c2)
    lo, hi = min(band), max(band)
    try:
        alns = align_banded(s1, s2, smat, band, gap_penalty=gap, local=local, max_number=3)
    except ValueError:
        # a band that does not touch the table (or cannot hold an alignment) may be refused
        return None if (hi < -n + 1 or lo > m - 1 or lo == hi or True) else "ValueError"
    if not 1 <= len(alns) <= 3:
        return f"{len(alns)} alignments"
    affine = isinstance(gap, tuple)
    opt = K.brute_force(c1, c2, mat, gap, affine, local, False)
    # "... reaches it when the band covers the whole table and some optimal alignment pairs at least one position"
    opt_paired = K.brute_force(c1, c2, mat, gap, affine, local, False, require_pair=True) if not local else opt
    covers = lo <= -(n - 1) - 0 and hi >= (m - 1) + 0 and lo <= -n and hi >= m
    seen = set()
    for aln in alns:
        cols = _cols(aln)
        if cols and not _valid_local(cols):
            return f"invalid trace {cols}"
        for x, y in cols:
            if x != -1 and y != -1 and not lo <= y - x <= hi:
                return f"pair ({x},{y}) outside the band {band}"
        rec = _score_cols(cols, c1, c2, mat, gap)
        if affine and abs(int(aln.score)) >= 2 ** 30:
            # the int32 'negative infinity' sentinel of the affine tables wrapped: known finding C09-banded-affine-overflow
            # exactly when opening + extension together exceed what the sentinel was corrected by (one penalty and the
            # lowest score); for any other input it is reported
            min_s = min(min(r) for r in mat)
            if gap[0] + gap[1] < min(gap) + min(0, min_s):
                return "KNOWN:affine-overflow"
            return f"score {aln.score} for the trace {cols} (int32 wrap-around) with gap {gap}, lowest score {min_s} (band {band}, local={local})"
        if rec != aln.score:
            if not local and _boundary_gap_mislabelled(cols, c1, c2, mat, gap, int(aln.score)):
                return "KNOWN:boundary-gap"
            return f"trace {cols} recomputes to {rec}, reported {aln.score} (band {band}, local={local})"
        if aln.score > opt:
            if not local and affine and _gap_next_to_overhang(cols, n, m):
                return "KNOWN:boundary-gap"
            return f"score {aln.score} above the unrestricted optimum {opt}"
        if covers and opt_paired == opt and aln.score != opt:
            return f"band {band} covers the table but score {aln.score} != optimum {opt}"
        # (distinctness is not part of C09's statement: the banded aligner may report one alignment twice
        #  when two trace starts lead to it)
        seen.add(tuple(cols))
    return None


def _rep(f):
    def g(w):
        try:
            r = f(w)
            return r is None, str(r)
        except Exception as e:
            import traceback
            return False, f"{type(e).__name__}: {e} | {traceback.format_exc()[-300:]}"
    return g


def _codes(ex, cs, n, m):
    v = [ex.choose(c, range(2)) for c in cs]
    return v[:n], v[4:4 + m]


def _sizes(tier):
    return (3, 3) if tier == "quick" else (len(MATS), len(THRESH))


def _banded_replay(w):
    r = check_banded(w["codes"][:w["n"]], w["codes"][4:4 + w["m"]], w["mi"], w["gi"], (w["b0"], w["b1"]), w["local"])
    if r is not None and r.startswith("KNOWN:") and not w.get("strict"):
        return None
    return r


def ob_ungapped(tier):
    cases = []
    NM, NT = _sizes(tier)
    shapes = [(2, 2), (3, 3)] if tier == "quick" else [(1, 1), (2, 2), (3, 3), (4, 3), (3, 4)]
    for n, m in shapes:
        cs = [z3.Int(f"c{i}") for i in range(8)]
        mi, si, sj, ti, di = z3.Ints("mi si sj ti di")
        base = [z3.And(c >= 0, c <= 1) for c in cs] + [cs[i] == 0 for i in range(n, 4)] + [cs[4 + j] == 0 for j in range(m, 4)]
        base += [mi >= 0, mi < NM, si >= 0, si < n, sj >= 0, sj < m, ti >= 0, ti < NT, di >= 0, di < 3]

        def run(n=n, m=m, cs=cs):
            ex = cur()
            c1, c2 = _codes(ex, cs, n, m)
            return check_ungapped(c1, c2, ex.choose(mi, range(NM)), (ex.choose(si, range(n)), ex.choose(sj, range(m))),
                                  ex.choose(ti, range(NT)), ex.choose(di, range(3))) is None
        cases.append(Case(f"ungapped {n}x{m}", base, run, dict(n=n, m=m, codes=cs, mi=mi, si=si, sj=sj, ti=ti, di=di),
                          _rep(lambda w: check_ungapped(w["codes"][:w["n"]], w["codes"][4:4 + w["m"]], w["mi"], (w["si"], w["sj"]), w["ti"], w["di"]))))
    return cases


def ob_gapped(tier):
    cases = []
    NM, NT = _sizes(tier)
    shapes = [(2, 2), (3, 2)] if tier == "quick" else [(1, 1), (2, 2), (3, 2), (2, 3), (3, 3)]
    for n, m in shapes:
        for gi in range(2 if tier == "quick" else len(GAPS) - 1):
            cs = [z3.Int(f"c{i}") for i in range(8)]
            mi, si, sj, ti, di = z3.Ints("mi si sj ti di")
            base = [z3.And(c >= 0, c <= 1) for c in cs] + [cs[i] == 0 for i in range(n, 4)] + [cs[4 + j] == 0 for j in range(m, 4)]
            base += [mi >= 0, mi < NM, si >= 0, si < n, sj >= 0, sj < m, ti >= 0, ti < NT, di >= 0, di < 3]

            def run(n=n, m=m, cs=cs, gi=gi):
                ex = cur()
                c1, c2 = _codes(ex, cs, n, m)
                return check_gapped(c1, c2, ex.choose(mi, range(NM)), gi, (ex.choose(si, range(n)), ex.choose(sj, range(m))),
                                    ex.choose(ti, range(NT)), ex.choose(di, range(3))) is None
            cases.append(Case(f"gapped {n}x{m} gap={GAPS[gi]}", base, run, dict(n=n, m=m, codes=cs, mi=mi, gi=gi, si=si, sj=sj, ti=ti, di=di),
                              _rep(lambda w: check_gapped(w["codes"][:w["n"]], w["codes"][4:4 + w["m"]], w["mi"], w["gi"], (w["si"], w["sj"]), w["ti"], w["di"]))))
    return cases


def ob_banded(tier):
    cases = []
    NM, NT = _sizes(tier)
    NG = 3 if tier == "quick" else len(GAPS)
    shapes = [(2, 2), (3, 2)] if tier == "quick" else [(2, 2), (3, 2), (2, 3), (3, 3), (4, 2)]
    for n, m in shapes:
        for local in (False, True):
            cs = [z3.Int(f"c{i}") for i in range(8)]
            mi, gi, b0, b1 = z3.Ints("mi gi b0 b1")
            base = [z3.And(c >= 0, c <= 1) for c in cs] + [cs[i] == 0 for i in range(n, 4)] + [cs[4 + j] == 0 for j in range(m, 4)]
            base += [mi >= 0, mi < NM, gi >= 0, gi < NG, b0 >= -n - 1, b0 <= m + 1, b1 >= -n - 1, b1 <= m + 1, (b0 < b1) if tier == "quick" else (b0 != b1)]

            def run(n=n, m=m, cs=cs, local=local):
                ex = cur()
                c1, c2 = _codes(ex, cs, n, m)
                r = check_banded(c1, c2, ex.choose(mi, range(NM)), ex.choose(gi, range(NG)),
                                 (ex.choose(b0, range(-n - 1, m + 2)), ex.choose(b1, range(-n - 1, m + 2))), local)
                return r is None or r.startswith("KNOWN:")
            known = []
            if not local:
                # the finding is recognised structurally (see _boundary_gap_mislabelled / _gap_next_to_overhang); the
                # witness is replayed on every run and the KNOWN-FINDING line printed while it still fails
                known = [("C09-banded-boundary-gap", z3.BoolVal(False), dict(n=2, m=2, codes=[0, 0, 0, 0, 1, 0, 0, 0], mi=0, gi=3, b0=-1, b1=0, local=False, strict=True),
                          "align_banded (semi-global): when the best in-band path starts or ends with a gap column next to the free overhang of the "
                          "other sequence, the trace post-processing labels that column as a pair: seq1=[0,0], seq2=[1,0], matrix [[3,-2],[1,-1]], gap -1, "
                          "band (-1,0) reports score 2 for the trace [(0,0),(1,1)] which scores 1; with affine penalties such results can also exceed align_optimal's optimum")]
            known = known + [("C09-banded-affine-overflow", z3.BoolVal(False), dict(n=2, m=2, codes=[0] * 8, mi=0, gi=2, b0=-3, b1=0, local=False, strict=True),
                              "align_banded with an affine penalty whose extension is as large as the opening (e.g. (-4,-4), (-10,-10), (-10,-9)): the int32 "
                              "'negative infinity' sentinel of the gap tables is corrected for ONE addition only, a second penalty wraps it around and a score "
                              "near 2^31 is reported (seq [0,0] vs [0,0], band (-3,0): score 2147483646 for a trace that scores -1)")]
            cases.append(Case(f"banded {n}x{m} local={local}", base, run, dict(n=n, m=m, codes=cs, mi=mi, gi=gi, b0=b0, b1=b1, local=local),
                              _rep(lambda w: _banded_replay(w)), known=known))
    return cases
