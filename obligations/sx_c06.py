"""C06 (SX engine): CIF text layer round trip with *symbolic characters*.

The transformed source of cif.py (vf/sx/pyload.py) is executed over SStr values: a table is
serialised by the real CIFFile/CIFBlock/CIFCategory.serialize code to (symbolic) text and parsed
back by the real deserialize code; z3 decides for every path whether the parsed table can differ
from the original.  Stubs (listed in evidence): CIFColumn -> HCol (value list + the documented
'.'/'?' mask convention is checked on the replay side), the 3 numpy attributes used by
_serialize_looped -> ShimNP.  Counterexamples are replayed through the unmodified public classes
(real CIFColumn + numpy) and only count if they fail there too.
"""
import hashlib

import numpy as np
import z3

from vf.sx import pyload
from vf.sx.core import SStr, s_eq, sym_and
from vf.sx.ob import Case

MOD = "biotite.structure.io.pdbx.cif"


class HCol:
    def __init__(self, data, mask=None):
        if isinstance(data, (str, SStr)):
            data = [data]
        self.vals = list(data)

    def as_item(self):
        return self.vals[0]

    def as_array(self, dtype=str, masked_value=None):
        return self.vals

    def __len__(self):
        return len(self.vals)


class _DT:
    def __init__(self, n):
        self.itemsize = n


class _SArr:
    def __init__(self, xs):
        self.xs = list(xs)
        self.dtype = _DT(max([1] + [len(x) for x in self.xs]) * 4)

    def __getitem__(self, i):
        return self.xs[i]


class ShimNP:
    @staticmethod
    def array(xs):
        return _SArr(xs)


_cache = {}


def cif_sx():
    if "m" not in _cache:
        _cache["m"] = pyload.load(MOD, inject=dict(CIFColumn=HCol, np=ShimNP))
    return _cache["m"]


def src_hash():
    return hashlib.sha1(open(pyload.source_path(MOD)).read().encode()).hexdigest()[:12]


# --------------------------------------------------------------------------- real replay
def real_roundtrip(table):
    from biotite.structure.io.pdbx.cif import CIFFile, CIFBlock, CIFCategory
    cat = CIFCategory({k: np.array(v, dtype=object).astype(str) for k, v in table.items()})
    f = CIFFile()
    blk = CIFBlock()
    blk["cat"] = cat
    f["blk"] = blk
    text = f.serialize()
    back = CIFFile.deserialize(text)
    c = back["blk"]["cat"]
    vals, masks = {}, {}
    for k in c.keys():
        col = c[k]
        vals[k] = [str(x) for x in col.as_array(str)]
        masks[k] = [0] * len(col) if col.mask is None else [int(m) for m in col.mask.array]
    return vals, masks, text


def replay_table(w):
    table = w["table"] if "table" in w else None
    if table is None:
        table = make_table(w["v"], w["pos"], w["rows"])
    table = {k: list(v) for k, v in table.items()}
    try:
        vals, masks, text = real_roundtrip(table)
    except Exception as e:
        return False, f"{type(e).__name__}: {e}"
    exp_masks = {k: [1 if x == "." else 2 if x == "?" else 0 for x in v] for k, v in table.items()}
    ok = vals == table and masks == exp_masks and list(vals.keys()) == list(table.keys())
    return ok, f"read back {vals!r} masks {masks!r}"


OTHER = ["x", "", "y z"]


OTHER_ML = ["a\nb", "'\"", "x"]


def make_table(v, pos, rows):
    if rows == 3:      # 2 rows, neighbours need the multiline form
        cells = [v if pos == k else OTHER_ML[k % 3] for k in range(4)]
        return {"k": cells[0::2], "z": cells[1::2]}
    if rows == 1:
        return {"k": [v if pos == 0 else "x"], "z": [v if pos == 1 else "x w"]}
    cells = [v if pos == k else OTHER[k % 3] for k in range(2 * rows)]
    return {"k": cells[0::2], "z": cells[1::2]}


# ------------------------------------------------------------------------ symbolic run
def sym_roundtrip(table):
    """table {col: [str|SStr]} -> z3 condition 'parsed table equals the original' (file level)."""
    m = cif_sx()
    cat = m.CIFCategory({k: HCol(v) for k, v in table.items()}, name="cat")
    f = m.CIFFile({"blk": m.CIFBlock({"cat": cat})})
    text = f.serialize()
    back = m.CIFFile.deserialize(text)
    if list(back.keys()) != ["blk"]:
        return False
    blk = back["blk"]
    if list(blk.keys()) != ["cat"]:
        return False
    c = blk["cat"]
    if list(c.keys()) != list(table.keys()):
        return False
    conds = []
    for k in table:
        got = c[k].vals
        if len(got) != len(table[k]):
            return False
        for a, b in zip(got, table[k]):
            e = s_eq(a, b)
            if e is False:
                return False
            if e is not True:
                conds.append(e)
    return z3.And(*conds) if conds else True


def _printable(v):
    return z3.Or(z3.And(v >= 32, v <= 126), v == 9, v == 10)


# known findings (region predicates over the symbolic characters of the value)
def _known(vs, rows, pos, n):
    """list of (id, region, witness, what) applicable to this case"""
    out = []
    if n == 0:
        return out
    c0 = vs[0]
    has_nl = z3.Or(*[v == 10 for v in vs])
    both_q = z3.And(z3.Or(*[v == 39 for v in vs]), z3.Or(*[v == 34 for v in vs]))
    multiline = z3.Or(has_nl, both_q)
    return out, multiline, c0


def cases_value(tier, rows, maxlen, positions, keyword=None, shapes=None):
    cases = []
    shapes = shapes or [(n, 0) for n in range(0, maxlen + 1)]
    for (n, n2) in shapes:
        for pos in positions:
            v, cons, vs = SStr.fresh(f"v{n}", n, extra=None)
            if keyword is not None:
                v2, _, vs2 = SStr.fresh(f"w{n2}", n2)
                v = v + keyword + v2
                vs = vs + vs2
                if not isinstance(v, SStr):
                    v = SStr(SStr.codes(v))
                allc = list(v.cs)
            else:
                allc = vs
            cons = [_printable(x) for x in vs]
            table = make_table(v, pos, rows)

            def run(table=table):
                try:
                    return sym_roundtrip(table)
                except (cif_sx().DeserializationError, cif_sx().SerializationError, IndexError, ValueError, KeyError, StopIteration):
                    return False
            known = KNOWN(allc, rows, pos)
            cases.append(Case(f"rows={rows} len={n}{'+' + keyword + '+' + str(n2) if keyword else ''} pos={pos}", cons, run,
                              dict(v=v, pos=pos, rows=rows), replay_table, known=known))
    return cases


def KNOWN(vs, rows, pos):
    """Known-finding regions (see known_findings.json); empty until triaged."""
    import json, os
    from vf.common import VERIF
    data = json.load(open(os.path.join(VERIF, "known_findings.json")))
    out = []
    for k in data.get("known", []):
        if k["property"] != "C06" or k.get("engine") != "SX":
            continue
        reg = REGIONS[k["region_id"]](vs, rows, pos)
        if reg is None:
            continue
        out.append((k["id"], reg, k["witness"], k["what"]))
    return out


def _any(vs, code):
    return z3.Or(*[v == code for v in vs]) if vs else z3.BoolVal(False)


def _multiline(vs):
    return z3.Or(_any(vs, 10), z3.And(_any(vs, 39), _any(vs, 34)))


def _ceq(a, b):
    if isinstance(a, int):
        return z3.BoolVal(a == b)
    return a == b


def _seq_at(vs, i, word):
    if i + len(word) > len(vs):
        return z3.BoolVal(False)
    return z3.And(*[_ceq(vs[i + k], ord(c)) for k, c in enumerate(word)])


def _after_newline(vs, words):
    alts = []
    for i in range(len(vs) - 1):
        for w in words:
            alts.append(z3.And(_ceq(vs[i], 10), _seq_at(vs, i + 1, w)))
    return z3.Or(*alts) if alts else None


REGIONS = {
    # a content line of a ';' text field that itself starts with ';' cannot be expressed in CIF 1.1
    "textfield_semicolon_line": lambda vs, rows, pos: _after_newline(vs, [";"]),
    # block/file splitting scans raw lines, also inside text fields
    "textfield_keyword_line": lambda vs, rows, pos: _after_newline(vs, ["_", "loop_", "data_"]),
}


def ob_single(tier):
    L = 4 if tier == "quick" else 5
    return cases_value(tier, 1, L, (0, 1)), dict(functions_hash=src_hash())


def ob_looped(tier):
    L = 3 if tier == "quick" else 4
    return cases_value(tier, 2, L, (0, 1, 2, 3)), dict(functions_hash=src_hash())


def ob_looped_ml(tier):
    """2x2 loop whose other cells need the ';' text-field form (line break / both quotes)"""
    L = 2 if tier == "quick" else 3
    return cases_value(tier, 3, L, (0, 1, 2, 3)), dict(functions_hash=src_hash())


KEYWORDS = ["data_", "loop_", "save_", "global_", "stop_", "DATA_", "Loop_"]


def ob_keywords(tier):
    cases = []
    shapes = [(0, 0), (0, 1), (1, 0)] + ([(1, 1)] if tier == "thorough" else [])
    for kw in KEYWORDS:
        cases += cases_value(tier, 1, 0, (0, 1), keyword=kw, shapes=shapes)
        cases += cases_value(tier, 2, 0, (0, 1, 2, 3), keyword=kw, shapes=shapes)
    return cases, dict(functions_hash=src_hash())
