"""C07 (E-class on the real pdb/file.py): ATOM/HETATM records have their fields in the standard fixed columns and
structures round-trip; input exceeding a column is refused.  Column table written from the PDB format
specification (not from the code)."""
import io
import math

import numpy as np
import z3

from vf.sx.core import cur
from vf.sx.ob import Case

# PDB v3.3 ATOM/HETATM columns (1-based inclusive) -> python slices
COLS = dict(record=(0, 6), serial=(6, 11), name=(12, 16), altloc=(16, 17), resname=(17, 20), chain=(21, 22),
            resseq=(22, 26), icode=(26, 27), x=(30, 38), y=(38, 46), z=(46, 54), occ=(54, 60), bfac=(60, 66),
            element=(76, 78), charge=(78, 80))

COORDS = [0.0, 1.234, -999.999, 9999.999, -999.9994, 9999.9994, -999.9996, 9999.9996, 10000.0, -1000.0, float("nan"), 123.4567]
BFACS = [0.0, 12.34, 999.99, 999.994, 999.996, 1000.0, -99.99, -99.996, float("nan")]
ATOMN = [("C", "C"), ("CA", "C"), ("CA", "CA"), ("HG11", "H"), ("O5'", "O"), ("FE", "FE"), ("1HB", "H"), ("N", "N")]
IDS = [1, 9999, 10000, 99999, 100000, -5, 0, 43770015]


def _rep(f, *keys):
    def g(w):
        try:
            r = f(*[w[k] for k in keys])
            return r is None, str(r)
        except Exception as e:
            import traceback
            return False, f"{type(e).__name__}: {e} | {traceback.format_exc()[-400:]}"
    return g


def build(sel):
    import biotite.structure as struc
    n = 4
    arr = struc.AtomArray(n)
    names = [ATOMN[(sel["name"] + k) % len(ATOMN)] for k in range(n)]
    arr.atom_name = np.array([a for a, _ in names])
    arr.element = np.array([e for _, e in names])
    arr.chain_id = np.array(CHAIN_IDS[sel.get("chn", 0)])       # (a blank chain identifier is legal in the format)
    arr.res_name = np.array([["ALA", "GL", "U", "HOH"][(sel["resn"] + k) % 4] for k in range(n)])
    arr.res_id = np.array([IDS[sel["rid"]], IDS[sel["rid"]], 1, 2])      # (second residue: same id, insertion code 'A')
    arr.ins_code = np.array(["", "A", "", ""])
    arr.hetero = np.array(HETERO[sel.get("het", 0)])
    coord = np.array([[1.0 + i, 2.0 + i, 3.0 + i] for i in range(n)], dtype=np.float32)
    coord[sel["catom"] % n, sel["caxis"] % 3] = COORDS[sel["coord"]]
    arr.coord = coord
    opt = sel["opt"]
    if opt & 1:
        b = np.array([10.0, 20.0, 30.0, 40.0], dtype=np.float32)
        b[sel["catom"] % n] = BFACS[sel["bfac"]]
        arr.set_annotation("b_factor", b)
    if opt & 2:
        o = np.array([1.0, 0.5, 0.25, 1.0], dtype=np.float32)
        o[(sel["catom"] + 1) % n] = BFACS[sel["bfac"]] if sel["bfac"] in (2, 4, 5, 8) else 0.75
        arr.set_annotation("occupancy", o)
    if opt & 4:
        arr.set_annotation("charge", np.array([0, sel["charge"], -sel["charge"], 0], dtype=int))
    if opt & 8:
        arr.set_annotation("atom_id", np.array([IDS[sel["aid"]] - 3, IDS[sel["aid"]] - 2, IDS[sel["aid"]] - 1, IDS[sel["aid"]]]))
    if sel["bonds"] and not (opt & 8 and (IDS[sel["aid"]] - 3 < 1 or (not sel["hybrid"] and IDS[sel["aid"]] > 99999))):
        # (CONECT parsing requires positive, increasing atom ids: without hybrid-36 ids beyond 99999 wrap around to 1)
        # (0, 2): between chains, same residue number and insertion code when rid selects 1 (e.g. a disulfide bridge of a homodimer)
        arr.bonds = struc.BondList(n, np.array([[2, 3, 1], [1, 2, 2], [0, 1, 1], [0, 2, 1]]))
    if sel["box"]:
        # (the second cell fills the CRYST1 length columns completely: b = 10000.000, c = 12345.678)
        arr.box = np.diag([10.0, 20.5, 30.25] if sel["box"] == 1 else [40.0, 10000.0, 12345.678]).astype(np.float32)
    if sel["models"] == 2:
        st = struc.stack([arr, arr])
        st.coord[0] = np.array([[1.0 + i, 2.0 + i, 3.0 + i] for i in range(n)], dtype=np.float32)   # the awkward value is in model 2 only
        return st
    return arr


def check_pdb(sel):
    import biotite.structure as struc
    from biotite.structure.io.pdb import PDBFile
    from biotite.structure.error import BadStructureError
    import warnings
    if sel["bonds"]:
        import ccd_fixture
        ccd_fixture.activate()
    atoms = build(sel)
    hy = bool(sel["hybrid"])
    f = PDBFile()
    with warnings.catch_warnings():
        warnings.simplefilter("ignore")
        try:
            f.set_structure(atoms, hybrid36=hy)
        except BadStructureError as e:
            return None          # refused
        except ValueError as e:
            return None          # refused (e.g. id too large for hybrid-36)
    lines = [l for l in f.lines if l.startswith(("ATOM", "HETATM"))]
    n = atoms.array_length()
    coords = atoms.coord if atoms.coord.ndim == 3 else atoms.coord[None]
    if len(lines) != n * len(coords):
        return f"{len(lines)} ATOM/HETATM records for {n} atoms x {len(coords)} models"
    for k, line in enumerate(lines):
        if len(line) != 80:
            return f"record has {len(line)} columns: {line!r}"
        i, mo = k % n, k // n
        fld = {name: line[a:b] for name, (a, b) in COLS.items()}
        try:
            x, y, z = float(fld["x"]), float(fld["y"]), float(fld["z"])
        except ValueError:
            return f"coordinate columns not numeric: {line!r}"
        for got, want in zip((x, y, z), coords[mo][i]):
            if not (abs(got - float(want)) <= 0.00051):
                return f"coordinate {float(want)!r} written as {got!r}: {line!r}"
        if fld["record"].strip() != ("HETATM" if atoms.hetero[i] else "ATOM"):
            return f"record name: {line!r}"
        if fld["name"].strip() != atoms.atom_name[i] or fld["resname"].strip() != atoms.res_name[i] or fld["chain"] != (atoms.chain_id[i] or " "):
            return f"name/resname/chain columns: {line!r}"
        if fld["element"].strip() != atoms.element[i] or fld["icode"].strip() != atoms.ins_code[i]:
            return f"element / insertion code columns: {line!r}"
        # atom name alignment rule: one-letter elements start in column 14 unless the name has 4 characters
        if len(atoms.element[i]) == 1 and len(atoms.atom_name[i]) < 4 and fld["name"][0] != " ":
            return f"atom name alignment: {line!r}"
        if line[11] != " " or line[20] != " " or line[27:30] != "   ":
            return f"separator columns not blank: {line!r}"
    # round trip
    out = io.StringIO()
    f.write(out)
    g = PDBFile.read(io.StringIO(out.getvalue()))
    extra = [c for bit, c in ((1, "b_factor"), (2, "occupancy"), (4, "charge"), (8, "atom_id")) if sel["opt"] & bit]
    with warnings.catch_warnings():
        warnings.simplefilter("ignore")
        back = g.get_structure(model=None if sel["models"] == 2 else 1, extra_fields=extra, include_bonds=atoms.bonds is not None, hybrid36=hy) \
            if "hybrid36" in PDBFile.get_structure.__code__.co_varnames else \
            g.get_structure(model=None if sel["models"] == 2 else 1, extra_fields=extra, include_bonds=atoms.bonds is not None)
    for cat in ("chain_id", "ins_code", "res_name", "hetero", "atom_name", "element"):
        if back.get_annotation(cat).tolist() != atoms.get_annotation(cat).tolist():
            return f"{cat}: written {atoms.get_annotation(cat).tolist()} read {back.get_annotation(cat).tolist()}"
    within = hy or all(-999 <= r <= 9999 for r in atoms.res_id.tolist())
    if within and back.res_id.tolist() != atoms.res_id.tolist():
        return f"res_id written {atoms.res_id.tolist()} read {back.res_id.tolist()} (hybrid36={hy})"
    if not np.allclose(np.asarray(back.coord), np.asarray(atoms.coord), atol=0.00051):
        return "coordinates differ after reading"
    if sel["opt"] & 1 and not np.allclose(back.b_factor, atoms.b_factor, atol=0.0051):
        return f"b_factor {back.b_factor.tolist()}"
    if sel["opt"] & 2 and not np.allclose(back.occupancy, atoms.occupancy, atol=0.0051):
        return f"occupancy {back.occupancy.tolist()}"
    if sel["opt"] & 4 and back.charge.tolist() != atoms.charge.tolist():
        return f"charge written {atoms.charge.tolist()} read {back.charge.tolist()}"
    if sel["opt"] & 8:
        ok_ids = hy or all(-9999 <= a <= 99999 for a in atoms.atom_id.tolist())
        if ok_ids and back.atom_id.tolist() != atoms.atom_id.tolist():
            return f"atom_id written {atoms.atom_id.tolist()} read {back.atom_id.tolist()} (hybrid36={hy})"
    if sel["box"] and (back.box is None or not np.allclose(np.asarray(back.box).reshape(-1, 3, 3)[0], np.asarray(atoms.box).reshape(-1, 3, 3)[0], atol=1e-2)):
        return "box"
    if atoms.bonds is not None:
        # CONECT carries bonds of hetero atoms / between residues: here (2,3) HOH-U hetero, (1,2) inter-chain; (0,1) inter-residue; (0,2) inter-chain at equal residue id
        wantb = {(0, 1), (1, 2), (2, 3), (0, 2)}
        gotb = {(int(a), int(b)) for a, b, _ in back.bonds.as_array().tolist()}
        if gotb != wantb:
            return f"bonds {sorted(gotb)} vs {sorted(wantb)}"
    return None


CHAIN_IDS = [["A", "A", "B", "B"], ["", "", "B", "B"], ["", "", "", ""], ["A", "A", "", ""]]
HETERO = [[False, False, True, True], [True, True, True, True], [False, False, False, False], [True, False, False, True]]
KEYS = dict(chn=len(CHAIN_IDS), het=len(HETERO), name=len(ATOMN), resn=4, rid=len(IDS), coord=len(COORDS), catom=4, caxis=3, opt=16, bfac=len(BFACS), charge=10,
            aid=len(IDS), bonds=2, box=3, models=2, hybrid=2)
DEFAULT = dict(chn=0, het=0, name=0, resn=0, rid=0, coord=0, catom=0, caxis=0, opt=0, bfac=0, charge=1, aid=0, bonds=0, box=0, models=1, hybrid=0)


def ob_records(tier):
    groups = [("coord", "catom", "caxis", "models"), ("bfac", "opt", "catom"), ("name", "resn", "charge", "opt"),
              ("rid", "aid", "hybrid", "opt"), ("bonds", "box", "models", "hybrid", "opt"),
              ("het", "models", "bonds", "resn", "box"), ("chn", "rid", "hybrid", "models"),
              ("bonds", "aid", "hybrid", "opt")]
    if tier == "thorough":
        groups += [("coord", "bfac", "opt", "models", "catom"), ("name", "rid", "aid", "hybrid", "opt")]
    cases = []
    for grp in groups:
        vs = {k: z3.Int(k) for k in grp}
        base = []
        for k, v in vs.items():
            base += [v >= (1 if k == "models" else 0), v < KEYS[k] + (1 if k == "models" else 0)]

        def run(vs=vs):
            ex = cur()
            sel = dict(DEFAULT)
            for k, v in vs.items():
                sel[k] = ex.choose(v, range(1, 3) if k == "models" else range(KEYS[k]))
            return check_pdb(sel) is None
        wit = dict(DEFAULT)
        wit.update(vs)
        cases.append(Case("pdb records vary " + "+".join(grp), base, run, dict(sel=wit), _rep(check_pdb, "sel")))
    return cases
