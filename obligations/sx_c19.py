"""C19 (E-class on the compiled phylo modules): trees contain every taxon once and keep distances through Newick.

Distance matrices and tree shapes are generated from z3-chosen selectors; UPGMA / neighbour joining / Tree are the
compiled extensions; oracles: explicit path sums on a plain nested-tuple model, average-linkage recomputation."""
import itertools

import numpy as np
import z3

from vf.sx.core import cur
from vf.sx.ob import Case

LENS = [0.5, 1.0, 2.0, 0.25, 3.0]


def _rep(f, *keys):
    def g(w):
        try:
            r = f(*[w[k] for k in keys])
            return r is None, str(r)
        except Exception as e:
            import traceback
            return False, f"{type(e).__name__}: {e} | {traceback.format_exc()[-400:]}"
    return g


# ----------------------------------------------------------------------------- model trees
# shape: nested tuples; a leaf is an int (its index); an inner node is a tuple of (child, branch length)
SHAPES = [
    ((0, 1.0), (1, 2.0)),
    (((( 0, 1.0), (1, 2.0)), 0.5), (2, 3.0)),
    ((0, 1.0), (1, 2.0), (2, 0.25)),
    (((( 0, 1.0), (1, 2.0)), 0.5), (((2, 0.25), (3, 3.0)), 1.0)),
    ((((((0, 1.0), (1, 2.0)), 10.0),), 5.0), (2, 8.0)),                       # single-child node
    (((((((( 0, 1.0), (1, 2.0)), 10.0),), 5.0),), 3.0), (2, 8.0)),             # chain of two single-child nodes
    ((((0, 0.5), (1, 0.5), (2, 0.5)), 1.0), (3, 2.0), (4, 0.25)),
    ((((((3, 1.0), (1, 2.0)), 0.5), (0, 3.0)), 1.0), (((2, 1.0),), 2.0)),
    ((((0, 1.0),), 2.0), (1, 3.0), (2, 4.0)),                                  # single-child node below a multifurcation
    (((((( 0, 1.0), (1, 0.5)), 0.25),), 1.5), (2, 3.0), (((((3, 0.5),), 0.75),), 0.125), (4, 2.0)),   # 4 children, chains below
]


def build_node(shape, perm):
    from biotite.sequence.phylo import TreeNode
    if isinstance(shape, int):
        return TreeNode(index=perm[shape])
    kids = [build_node(c, perm) for c, _ in shape]
    return TreeNode(children=kids, distances=[d for _, d in shape])


def leaf_paths(shape, perm, prefix=()):
    """{leaf index: [(node id path), cumulative distances]} for explicit path sums"""
    out = {}

    def rec(s, path, dists):
        if isinstance(s, int):
            out[perm[s]] = (path, dists)
            return
        for k, (c, d) in enumerate(s):
            rec(c, path + (k,), dists + (d,))
    rec(shape, (), ())
    return out


def model_distance(paths, a, b, topological=False):
    pa, da = paths[a]
    pb, db = paths[b]
    k = 0
    while k < len(pa) and k < len(pb) and pa[k] == pb[k]:
        k += 1
    if topological:
        return (len(pa) - k) + (len(pb) - k)
    return sum(da[k:]) + sum(db[k:])


def check_tree(si, pi):
    from biotite.sequence.phylo import Tree, TreeNode, as_binary
    shape = SHAPES[si]
    nleaves = len(leaf_paths(shape, list(range(10))))
    perm = list(list(itertools.permutations(range(nleaves)))[pi % 24 if nleaves >= 4 else pi % max(1, len(list(itertools.permutations(range(nleaves)))))])
    paths = leaf_paths(shape, perm)
    tree = Tree(build_node(shape, perm))
    if len(tree) != nleaves or sorted(l.index for l in tree.leaves) != list(range(nleaves)):
        return "leaves"
    labels = [f"tax{k}" for k in range(nleaves)]
    variants = {"original": tree, "copy": tree.copy(),
                "newick": Tree.from_newick(tree.to_newick()),
                "newick labels": Tree.from_newick(tree.to_newick(labels=labels), labels=labels),
                "newick spaces": Tree.from_newick(tree.to_newick().replace(",", " , ").replace("(", "( ")),
                # any white space is insignificant: line breaks and tabs of a wrapped / indented file, also inside numbers' surroundings
                "newick line breaks": Tree.from_newick(tree.to_newick().replace(",", ",\n\t").replace(")", "\n)").replace(":", ":\n").replace(";", "\n;\n")),
                "newick tabs + labels": Tree.from_newick(tree.to_newick(labels=labels).replace(",", "\t,\n").replace("(", "(\n\t"), labels=labels),
                # labels are names, also when they look like numbers: digit strings whose value is not their position
                "newick digit labels": Tree.from_newick(tree.to_newick(labels=[str(nleaves - 1 - k) for k in range(nleaves)]),
                                                        labels=[str(nleaves - 1 - k) for k in range(nleaves)]),
                "newick year labels": Tree.from_newick(tree.to_newick(labels=[str(1998 + 3 * k) for k in range(nleaves)]),
                                                       labels=[str(1998 + 3 * k) for k in range(nleaves)]),
                "binary": as_binary(tree)}
    for name, t in variants.items():
        if sorted(l.index for l in t.leaves) != list(range(nleaves)):
            return f"{name}: leaf indices {sorted(l.index for l in t.leaves)}"
        for a in range(nleaves):
            for b in range(nleaves):
                want = model_distance(paths, a, b)
                got = t.get_distance(a, b)
                if abs(got - want) > 1e-5:
                    return f"{name}: distance({a},{b}) = {got}, path sum {want}"
        if name in ("copy", "newick", "newick labels", "newick spaces", "newick digit labels", "newick year labels", "newick line breaks", "newick tabs + labels") and not (t == tree):
            return f"{name}: tree not equal to the original"
    # topology without distances
    topo = Tree.from_newick(tree.to_newick(include_distance=False))
    for a in range(nleaves):
        for b in range(nleaves):
            if topo.get_distance(a, b, topological=True) != model_distance(paths, a, b, True):
                return "topology lost without distances"
    # binary form: every inner node has at most two children
    stack = [variants["binary"].root]
    while stack:
        nd = stack.pop()
        if len(nd.children or ()) > 2:
            return "as_binary left a node with more than two children"
        stack.extend(nd.children or ())
    # lowest common ancestor = deepest node whose leaf set contains both
    for a in range(nleaves):
        for b in range(nleaves):
            la, lb = tree.leaves[a], tree.leaves[b]
            lca = la.lowest_common_ancestor(lb)
            dist = la.distance_to(lca) + lb.distance_to(lca)
            if abs(dist - model_distance(paths, a, b)) > 1e-5:
                return f"lowest_common_ancestor({a},{b})"
    if hash(tree) != hash(variants["copy"]):
        return "hash of copy"
    return None


# ------------------------------------------------------------------------------ clustering
def check_upgma(n, vals):
    from biotite.sequence.phylo import upgma
    D = np.zeros((n, n))
    k = 0
    for i in range(n):
        for j in range(i + 1, n):
            D[i, j] = D[j, i] = LENS[vals[k] % len(LENS)] * (1 + (k % 2))
            k += 1
    tree = upgma(D)
    # the caller's matrix is input only: whatever its dtype, it is the same afterwards and gives the same tree again
    for dt in (np.float32, np.float64):
        Dc = D.astype(dt)
        keep = Dc.copy()
        t1 = upgma(Dc)
        if not np.array_equal(Dc, keep):
            return f"upgma() changed the {dt.__name__} distance matrix it was given"
        if not (t1 == tree) or not (upgma(Dc) == tree):
            return f"upgma() on the same matrix as {dt.__name__} gives a different tree"
    if sorted(l.index for l in tree.leaves) != list(range(n)):
        return f"leaves {sorted(l.index for l in tree.leaves)}"
    # ultrametric + merge heights = half the average linkage distance
    depth = {l.index: l.distance_to(tree.root) for l in tree.leaves}
    if max(depth.values()) - min(depth.values()) > 1e-4:
        return f"not ultrametric: depths {depth}"

    def rec(node):
        if node.is_leaf():
            return [node.index], 0.0
        parts = [rec(c) for c in node.children]
        height = parts[0][1] + node.children[0].distance
        for (idx, h), c in zip(parts, node.children):
            if abs(h + c.distance - height) > 1e-4:
                raise AssertionError("children at different heights")
        if len(parts) == 2:
            avg = np.mean([D[a, b] for a in parts[0][0] for b in parts[1][0]])
            if abs(height - avg / 2) > 1e-4:
                raise AssertionError(f"merge height {height} != half average linkage {avg / 2}")
        return sum((p[0] for p in parts), []), height
    try:
        rec(tree.root)
    except AssertionError as e:
        return str(e)
    return None


def additive_matrix(shape, perm):
    paths = leaf_paths(shape, perm)
    n = len(paths)
    D = np.zeros((n, n))
    for a in range(n):
        for b in range(n):
            D[a, b] = model_distance(paths, a, b)
    return D


def check_nj(si, pi, zero):
    from biotite.sequence.phylo import neighbor_joining
    shape = [s for s in SHAPES if len(leaf_paths(s, list(range(10)))) >= 4][si % 3]
    n = len(leaf_paths(shape, list(range(10))))
    perm = list(list(itertools.permutations(range(n)))[pi % 24])
    D = additive_matrix(shape, perm)
    if zero == 1:
        # several identical taxa: duplicate taxon 0 twice (distance 0 between the copies)
        m = n + 2
        E = np.zeros((m, m))
        src = list(range(n)) + [0, 0]
        for a in range(m):
            for b in range(m):
                E[a, b] = D[src[a], src[b]]
        D, n = E, m
    elif zero == 2:
        D = np.zeros((4, 4))
        n = 4
    tree = neighbor_joining(D)
    if tree is None:
        return "neighbor_joining returned None"
    for dt in (np.float32, np.float64):
        Dc = np.asarray(D).astype(dt)
        keep = Dc.copy()
        t1 = neighbor_joining(Dc)
        if not np.array_equal(Dc, keep):
            return f"neighbor_joining() changed the {dt.__name__} distance matrix it was given"
        t2 = neighbor_joining(Dc)
        if [[round(t1.get_distance(a_, b_), 4) for b_ in range(n)] for a_ in range(n)] != [[round(t2.get_distance(a_, b_), 4) for b_ in range(n)] for a_ in range(n)]:
            return f"neighbor_joining() twice on the same {dt.__name__} matrix gives different trees"
    if sorted(l.index for l in tree.leaves) != list(range(n)):
        return f"leaves {sorted(l.index for l in tree.leaves)}"
    for a in range(n):
        for b in range(n):
            if abs(tree.get_distance(a, b) - D[a, b]) > 1e-3:
                return f"path length ({a},{b}) = {tree.get_distance(a, b)}, additive matrix says {D[a, b]}"
    return None


def ob_trees(tier):
    s, p = z3.Ints("s p")
    return [Case("tree shapes x leaf labelings", [s >= 0, s < len(SHAPES), p >= 0, p < (6 if tier == "quick" else 24)],
                 lambda: check_tree(cur().choose(s, range(len(SHAPES))), cur().choose(p, range(24))) is None,
                 dict(si=s, pi=p), _rep(check_tree, "si", "pi"))]


def ob_clustering(tier):
    cases = []
    for n in (2, 3, 4) if tier == "quick" else (2, 3, 4, 5):
        npairs = n * (n - 1) // 2
        vs = [z3.Int(f"d{k}") for k in range(npairs)]
        nv = 3 if n >= 4 else len(LENS)
        base = [z3.And(v >= 0, v < nv) for v in vs]

        def run(n=n, vs=vs, nv=nv):
            ex = cur()
            return check_upgma(n, [ex.choose(v, range(nv)) for v in vs]) is None
        cases.append(Case(f"upgma n={n}", base, run, dict(n=n, vals=vs), _rep(check_upgma, "n", "vals")))
    s, p, z = z3.Ints("s p z")
    cases.append(Case("neighbor joining on additive matrices", [s >= 0, s < 3, p >= 0, p < (8 if tier == "quick" else 24), z >= 0, z <= 2],
                      lambda: check_nj(cur().choose(s, range(3)), cur().choose(p, range(24)), cur().choose(z, range(3))) is None,
                      dict(si=s, pi=p, zero=z), _rep(check_nj, "si", "pi", "zero")))
    return cases


def check_upgma_large(n, seed):
    """many taxa (cluster sizes beyond 255): merge heights still equal half the average-linkage distance"""
    from biotite.sequence.phylo import upgma
    # points on a line in well separated groups -> one cluster grows beyond 255 members before the last merges
    xs = np.concatenate([np.arange(n - 6) * 0.001 + seed, [100.0, 101.0, 300.0, 302.0, 900.0, 1700.0]])
    D = np.abs(xs[:, None] - xs[None, :])
    tree = upgma(D)
    if sorted(l.index for l in tree.leaves) != list(range(len(xs))):
        return "leaves"

    def rec(node):
        """-> (leaf indices, height); checks only nodes whose two children are both large or far (the top merges)"""
        if node.is_leaf():
            return [node.index], 0.0
        (la, ha), (lb, hb) = rec(node.children[0]), rec(node.children[1])
        height = ha + node.children[0].distance
        if len(la) + len(lb) > 200:
            avg = D[np.ix_(la, lb)].mean()
            if abs(height - avg / 2) > 1e-3 * max(1.0, avg):
                raise AssertionError(f"merge of clusters with {len(la)} and {len(lb)} taxa at height {height}, half average linkage {avg / 2}")
        return la + lb, height
    import sys
    old = sys.getrecursionlimit()
    sys.setrecursionlimit(10000)
    try:
        rec(tree.root)
    except AssertionError as e:
        return str(e)
    finally:
        sys.setrecursionlimit(old)
    return None


def ob_upgma_large(tier):
    n, s = z3.Ints("n s")

    def run():
        ex = cur()
        return check_upgma_large(ex.choose(n, (300, 600)), ex.choose(s, (0, 7))) is None
    return [Case("upgma with clusters beyond 255 taxa", [z3.Or(n == 300, n == 600), z3.Or(s == 0, s == 7)], run, dict(n=n, seed=s), _rep(check_upgma_large, "n", "seed"))]
