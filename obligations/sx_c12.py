"""C12 (SX engine): sequence file formats return what was written.

fastq : the transformed FastqFile (+ TextFile) code runs over symbolic score characters; the two numpy
        helpers that turn scores into characters are replaced by the same +offset / -offset arithmetic on
        symbolic ints (stub, listed); writes go to a symbolic text file object.
genbank locations : _convert_to_loc_string / _parse_locs over symbolic positions (decimal rendering and
        parsing of symbolic ints is part of the SX runtime and is forked over the digit count).
"""
import hashlib
import io

import numpy as np
import z3

from vf.sx import pyload
from vf.sx.core import SInt, SStr, cur, s_eq
from vf.sx.ob import Case
from vf.sx.pyload import SFile

_cache = {}


def _hash(*mods):
    h = hashlib.sha1()
    for m in mods:
        h.update(open(pyload.source_path(m)).read().encode())
    return h.hexdigest()[:12]


# ===================================================================================== FASTQ
def fastq_sx():
    if "fq" not in _cache:
        bf = pyload.load("biotite.file")

        def scores_to_str(scores, offset):
            return SStr.mk([(s.e + offset) if isinstance(s, SInt) else int(s) + offset for s in scores])

        def str_to_scores(score_str, offset):
            return [SInt.mk(SInt.of(c) - offset) if not isinstance(c, int) else c - offset for c in SStr.codes(score_str)]
        m = pyload.load("biotite.sequence.io.fastq.file",
                        inject=dict(TextFile=bf.TextFile, wrap_string=bf.wrap_string, InvalidFileError=bf.InvalidFileError,
                                    _scores_to_score_str=scores_to_str, _score_str_to_scores=str_to_scores))
        _cache["fq"] = (m, bf)
    return _cache["fq"]


SEQS = ["ACGTN", "TTGCA"]


def fastq_real(w):
    """replay: real FastqFile, real numpy, real file objects"""
    from biotite.sequence.io.fastq import FastqFile
    cpl, offset = w["cpl"], w["offset"]
    entries = [(f"e{k + 1} x", SEQS[k][:len(sc)], np.array(sc, dtype=int)) for k, sc in enumerate(w["scores"])]
    f = FastqFile(offset, chars_per_line=cpl)
    for h, s, sc in entries:
        f[h] = (s, sc)
    for op in w.get("edits", []):
        if op[0] == "del":
            del f[entries[op[1]][0]]
            entries = [e for k, e in enumerate(entries) if k != op[1]]
        elif op[0] == "set":
            k = op[1]
            new = (entries[k][0], entries[k][1][::-1], entries[k][2][::-1])
            f[new[0]] = (new[1], new[2])
            entries = [e for j, e in enumerate(entries) if j != k] + [new]
    # in-memory view
    if list(f.keys()) != [e[0] for e in entries]:
        return False, f"in-memory keys {list(f.keys())}"
    for h, s, sc in entries:
        gs, gq = f[h]
        if gs != s or list(gq) != list(sc):
            return False, f"in-memory entry {h}: {gs!r} {list(gq)}"
    out = io.StringIO()
    f.write(out)
    try:
        back = FastqFile.read(io.StringIO(out.getvalue()), offset)
        got = [(h, back[h][0], list(back[h][1])) for h in back]
        it = [(h, s, list(q)) for h, (s, q) in FastqFile.read_iter(io.StringIO(out.getvalue()), offset)]
    except Exception as e:
        return False, f"{type(e).__name__}: {e} on text {out.getvalue()!r}"
    want = [(h, s, list(sc)) for h, s, sc in entries]
    return (got == want and it == want), f"text {out.getvalue()!r} read back {got!r} / iter {it!r}"


def fastq_run(lens, cpl, offset, scores, edits):
    m, bf = fastq_sx()
    entries = [(f"e{k + 1} x", SEQS[k][:n], scores[k]) for k, n in enumerate(lens)]
    f = m.FastqFile(offset, chars_per_line=cpl)
    for h, s, sc in entries:
        f[h] = (s, sc)
    for op in edits:
        if op[0] == "del":
            del f[entries[op[1]][0]]
            entries = [e for k, e in enumerate(entries) if k != op[1]]
        elif op[0] == "set":
            k = op[1]
            new = (entries[k][0], entries[k][1][::-1], entries[k][2][::-1])
            f[new[0]] = (new[1], new[2])
            entries = [e for j, e in enumerate(entries) if j != k] + [new]
    conds = []

    def same(got_s, got_q, s, sc):
        if got_s != s:          # sequences are concrete
            return False
        if len(got_q) != len(sc):
            return False
        for a, b in zip(got_q, sc):
            conds.append(SInt.of(a) == SInt.of(b))
        return True
    if list(f.keys()) != [e[0] for e in entries]:
        return False
    for h, s, sc in entries:
        gs, gq = f[h]
        if not same(gs, gq, s, sc):
            return False
    out = SFile()
    f.write(out)
    try:
        back = m.FastqFile.read(SFile(out.getvalue()), offset)
    except m.InvalidFileError:
        return False
    if list(back.keys()) != [e[0] for e in entries]:
        return False
    for h, s, sc in entries:
        gs, gq = back[h]
        if not same(gs, gq, s, sc):
            return False
    try:
        it = list(m.FastqFile.read_iter(SFile(out.getvalue()), offset))
    except m.InvalidFileError:
        return False
    if [h for h, _ in it] != [e[0] for e in entries]:
        return False
    for (h, (gs, gq)), (_, s, sc) in zip(it, entries):
        if not same(gs, gq, s, sc):
            return False
    return z3.And(*conds) if conds else True


def ob_fastq(tier):
    cases = []
    maxn = 3 if tier == "quick" else 4
    lens_list = [(a, b) for a in range(1, maxn + 1) for b in range(1, maxn + 1)] if tier == "thorough" else \
        [(1, 1), (2, 1), (1, 2), (2, 2), (3, 2), (2, 3), (3, 3)]
    for offset_name, offset, lo, hi in (("Sanger", 33, 0, 93), ("Illumina-1.3", 64, -31, 62)):      # characters '!' .. '~'
        for cpl in (None, 1, 2, 3):
            for lens in lens_list:
                for edits in ([], [("set", 0)], [("del", 0)]):
                    if edits and (tier == "quick" and (lens not in ((2, 2), (3, 2)) or cpl not in (None, 2))):
                        continue
                    vs = [[z3.Int(f"s{k}_{i}") for i in range(n)] for k, n in enumerate(lens)]
                    base = [z3.And(v >= lo, v <= hi) for row in vs for v in row]
                    scores = [[SInt(v) for v in row] for row in vs]

                    def run(lens=lens, cpl=cpl, offset_name=offset_name, scores=scores, edits=edits):
                        return fastq_run(lens, cpl, offset_name, scores, edits)
                    cases.append(Case(f"fastq {offset_name} cpl={cpl} lens={lens} edits={edits}", base, run,
                                      dict(offset=offset_name, cpl=cpl, scores=scores, edits=[list(e) for e in edits]),
                                      fastq_real))
    return cases, dict(functions_hash=_hash("biotite.sequence.io.fastq.file", "biotite.file"))


# ========================================================================== GenBank locations
def gb_sx():
    if "gb" not in _cache:
        _cache["gb"] = pyload.load("biotite.sequence.io.genbank.annotation")
    return _cache["gb"]


from biotite.sequence.annotation import Location  # noqa: E402

D = Location.Defect
_ALLD = [D(i) for i in range(64)]


def _mkdef(bl, br, unk, btw):
    d = D.NONE
    if bl:
        d |= D.BEYOND_LEFT
    if br:
        d |= D.BEYOND_RIGHT
    if unk:
        d |= D.UNK_LOC
    if btw:
        d |= D.BETWEEN
    return d


def gb_real(w):
    from biotite.sequence.io.genbank.annotation import _convert_to_loc_string, _parse_locs
    locs = [Location(f, l, Location.Strand.REVERSE if rev else Location.Strand.FORWARD, _mkdef(*fl))
            for (f, l, rev, fl) in w["locs"]]
    s = _convert_to_loc_string(locs)
    try:
        back = _parse_locs(s)
    except Exception as e:
        return False, f"{s!r}: {type(e).__name__}: {e}"
    return back == locs, f"{s!r} parsed as {back!r}"


def gb_run(locspec):
    m = gb_sx()
    locs = [Location(f, l, Location.Strand.REVERSE if rev else Location.Strand.FORWARD, _mkdef(*fl))
            for (f, l, rev, fl) in locspec]
    s = m._convert_to_loc_string(locs)
    try:
        back = m._parse_locs(s)
    except (ValueError, IndexError):
        return False
    if len(back) != len(locs):
        return False
    conds = []
    for a, b in zip(back, locs):
        if a.strand != b.strand or a.defect != b.defect:
            return False
        conds += [SInt.of(a.first) == SInt.of(b.first), SInt.of(a.last) == SInt.of(b.last)]
    return z3.And(*conds)


def ob_gb_locs(tier):
    cases = []
    flagsets = [(bl, br, unk, btw) for bl in (0, 1) for br in (0, 1) for unk in (0, 1) for btw in (0, 1) if not (unk and btw)]
    B = 10 ** 5 if tier == "quick" else 10 ** 8
    B2 = 999 if tier == "quick" else 99999
    # one location: every expressible flag combination, both strands, single-base and ranges
    for fl in flagsets:
        for rev in (False, True):
            for single in (False, True):
                f, l = z3.Int("f"), z3.Int("l")
                base = [f >= 1, l <= B]
                if single:
                    if fl[2] or fl[3]:
                        continue          # UNK_LOC / BETWEEN need two distinct positions
                    base.append(f == l)
                elif fl[3]:
                    base.append(l == f + 1)      # 'between' two adjacent bases
                else:
                    base.append(f < l)
                spec = [(SInt(f), SInt(l), rev, fl)]
                cases.append(Case(f"1 loc flags={fl} rev={rev} single={single}", base, lambda spec=spec: gb_run(spec),
                                  dict(locs=[[SInt(f), SInt(l), rev, list(fl)]]), gb_real, known=KNOWN_GB(f, l, fl, single)))
    # two locations (join), mixed strands
    for rev1 in (False, True):
        for rev2 in (False, True):
            for fl2 in ((0, 0, 0, 0), (1, 0, 0, 0), (0, 1, 0, 0)):
                f1, l1, f2, l2 = z3.Ints("f1 l1 f2 l2")
                base = [f1 >= 1, f1 < l1, l1 < f2, f2 < l2, l2 <= B2]
                spec = [(SInt(f1), SInt(l1), rev1, (0, 0, 0, 0)), (SInt(f2), SInt(l2), rev2, fl2)]
                cases.append(Case(f"2 locs rev={rev1},{rev2} flags2={fl2}", base, lambda spec=spec: gb_run(spec),
                                  dict(locs=[[SInt(f1), SInt(l1), rev1, [0, 0, 0, 0]], [SInt(f2), SInt(l2), rev2, list(fl2)]]), gb_real))
    return cases, dict(functions_hash=_hash("biotite.sequence.io.genbank.annotation"))


def KNOWN_GB(f, l, fl, single):
    return []


# ======================================================================================== GFF3
def gff_sx():
    if "gff" not in _cache:
        bf = pyload.load("biotite.file")
        _cache["gff"] = pyload.load("biotite.sequence.io.gff.file", sdict=True,
                                    inject=dict(TextFile=bf.TextFile, InvalidFileError=bf.InvalidFileError,
                                                quote=pyload.sx_quote, unquote=pyload.sx_unquote))
    return _cache["gff"]


def gff_real(w):
    from biotite.sequence.io.gff import GFFFile
    f = GFFFile()
    attrs = {w["key"]: w["val"]}
    f.append(w["seqid"], w["source"], "gene", 1, 10, None, Location.Strand.FORWARD, None, attrs)
    out = io.StringIO()
    f.write(out)
    try:
        back = GFFFile.read(io.StringIO(out.getvalue()))
        got = back[0]
    except Exception as e:
        return False, f"{type(e).__name__}: {e} text {out.getvalue()!r}"
    want = (w["seqid"], w["source"], "gene", 1, 10, None, Location.Strand.FORWARD, None, attrs)
    return (len(back) == 1 and got == want), f"text {out.getvalue()!r} -> {got!r}"


def gff_run(seqid, source, key, val):
    m = gff_sx()
    f = m.GFFFile()
    f.append(seqid, source, "gene", 1, 10, None, Location.Strand.FORWARD, None, pyload.SDict([(key, val)]))
    out = SFile()
    f.write(out)
    try:
        back = m.GFFFile.read(SFile(out.getvalue()))
        if len(back) != 1:
            return False
        g = back[0]
    except (m.InvalidFileError, ValueError, IndexError):
        return False
    if g[2:8] != ("gene", 1, 10, None, Location.Strand.FORWARD, None):
        return False
    items = g[8].items()
    if len(items) != 1:
        return False
    conds = [s_eq(g[0], seqid), s_eq(g[1], source), s_eq(items[0][0], key), s_eq(items[0][1], val)]
    if any(c is False for c in conds):
        return False
    conds = [c for c in conds if c is not True]
    return z3.And(*conds) if conds else True


def _gff_char(v):
    # printable ASCII incl. tab; values are stripped by the writer, so no blanks at the ends (see bounds)
    return z3.Or(z3.And(v >= 32, v <= 126), v == 9)


def ob_gff(tier):
    cases = []
    L = 3 if tier == "quick" else 4
    for which in ("val", "key", "seqid", "source"):
        for n in range(1, L + 1):
            s, _, vs = SStr.fresh(which, n)
            base = [_gff_char(v) for v in vs]
            if which in ("seqid", "source"):
                # the writer strips these two fields and refuses '>' as first seqid character (documented)
                base += [z3.Not(z3.Or(vs[0] == 32, vs[0] == 9)), z3.Not(z3.Or(vs[-1] == 32, vs[-1] == 9))]
                if which == "seqid":
                    base.append(vs[0] != 62)
            args = dict(seqid="chr1", source="src", key="ID", val="v")
            args[which] = s
            known = []
            if which == "val":
                known = [("C12-gff-trailing-blank", z3.Or(vs[-1] == 32), dict(seqid="chr1", source="src", key="ID", val="a "),
                          "GFF3: an attribute value ending with a space in the last column loses it on re-read (lines are stripped, spaces are not percent-encoded)")]
            cases.append(Case(f"gff {which} len={n}", base,
                              lambda args=args: gff_run(args["seqid"], args["source"], args["key"], args["val"]),
                              dict(args), gff_real, known=known))
    return cases, dict(functions_hash=_hash("biotite.sequence.io.gff.file"))


# =========================================================================== GenBankFile edits
# (field names are case-insensitive on input: the file holds and reports them in upper case)
FIELDS = [("LOCUS", ["l1"], None), ("definition", ["d1", "d2"], None),
          ("SOURCE", ["s1"], {"ORGANISM": ["o1", "o2"]}),
          ("FEATURES", ["     gene            1..2", '                     /gene="x"'], None),
          ("ORIGIN", ["        1 acgt"], None), ("COMMENT", ["c1", "c2", "c3"], None)]


def _gb_expected(field):
    from collections import OrderedDict
    name, content, sub = field
    return (name.upper(), list(content), OrderedDict((k, list(v)) for k, v in (sub or {}).items()))


def gbfile_seq(ops):
    """ops: list of (kind, index, fieldno); returns True iff file and list model agree throughout and
    the text re-read gives the same fields"""
    from biotite.sequence.io.genbank import GenBankFile
    f = GenBankFile()
    model = []
    for no in (0, 3, 4):              # start: LOCUS, FEATURES, ORIGIN
        f.append(*FIELDS[no])
        model.append(FIELDS[no])

    def agree(g):
        if len(g) != len(model):
            return False
        for i, fld in enumerate(model):
            if tuple(g[i]) != _gb_expected(fld):
                return False
            if tuple(g[i - len(model)]) != _gb_expected(fld):
                return False
        return True
    if not agree(f):
        return False
    for kind, idx, no in ops:
        n = len(model)
        fld = FIELDS[no]
        try:
            if kind == 0:        # replace
                valid = -n <= idx < n
                f[idx] = fld
                if valid:
                    model[idx] = fld
            elif kind == 1:      # insert
                valid = -n <= idx <= n
                f.insert(idx, *fld)
                if valid:
                    model.insert(idx if idx >= 0 else n + idx, fld)
            elif kind == 2:      # delete
                valid = -n <= idx < n
                del f[idx]
                if valid:
                    del model[idx]
            else:                # set_field by name (replace the unique field of that name or append)
                valid = True
                names = [m[0].upper() for m in model]
                fld_name = fld[0].upper()
                if names.count(fld_name) > 1:
                    # documented: refuses to choose among several fields of one name
                    from biotite.file import InvalidFileError
                    try:
                        f.set_field(*fld)
                        return False
                    except InvalidFileError:
                        continue
                f.set_field(*fld)
                if fld_name in names:
                    model[names.index(fld_name)] = fld
                else:
                    model.append(fld)
                if [x[0] for x in f.get_fields(fld_name)] != [list(m_[1]) for m_ in model if m_[0].upper() == fld_name]:
                    return False
            raised = False
        except IndexError:
            raised = True
        if raised == valid:
            return False
        if not agree(f):
            return False
        out = io.StringIO()
        f.write(out)
        if not agree(GenBankFile.read(io.StringIO(out.getvalue()))):
            return False
    return True


def gbfile_replay(w):
    try:
        ok = gbfile_seq([tuple(o) for o in w["ops"]])
        return ok, f"sequence returned {ok}"
    except Exception as e:
        return False, f"{type(e).__name__}: {e}"


def ob_gbfile(tier):
    NF = 4 if tier == "quick" else len(FIELDS)
    cases = []
    variants = [(2, range(-5, 5), NF)] if tier == "quick" else [(2, range(-7, 7), NF), (3, range(-1, 2), 2)]
    for k, IDX, NF in variants:
      for first_kind in range(4):
        ks = [z3.Int(f"k{i}") for i in range(k)]
        ix = [z3.Int(f"i{i}") for i in range(k)]
        no = [z3.Int(f"n{i}") for i in range(k)]
        base = [ks[0] == first_kind]
        for a, b, c in zip(ks, ix, no):
            base += [a >= 0, a <= 3, b >= IDX[0], b <= IDX[-1], c >= 0, c < NF]
        # set_field ignores the index: fix it to avoid duplicate paths
        for a, b in zip(ks, ix):
            base.append(z3.Implies(a == 3, b == 0))

        def run(ks=ks, ix=ix, no=no, IDX=IDX, NF=NF):
            ex = cur()
            ops = []
            for a, b, c in zip(ks, ix, no):
                kind = ex.choose(a, range(4))
                idx = ex.choose(b, IDX)
                fno = ex.choose(c, range(NF))
                ops.append((kind, idx, fno))
            return gbfile_seq(ops)
        cases.append(Case(f"gbfile first={first_kind} k={k} idx={IDX[0]}..{IDX[-1]} fields={NF}", base, run,
                          dict(ops=[[a, b, c] for a, b, c in zip(ks, ix, no)]), gbfile_replay,
                          known=KNOWN_GBFILE(ks, ix, no)))
    return cases, dict(functions_hash=_hash("biotite.sequence.io.genbank.file"))


def KNOWN_GBFILE(ks, ix, no):
    return []


# ============================================================== FASTA / FASTQ objects (E-class)
SEQ_MENU = [("nuc", "ACGT"), ("nuc", "ACGTTGCA"), ("nuc_amb", "ACNRYT"), ("prot", "MSTTLKV*PTQT*"), ("prot", "MKT"), ("nuc", "T")]


def _mkseq(kind, s):
    from biotite.sequence import NucleotideSequence, ProteinSequence
    return ProteinSequence(s) if kind == "prot" else NucleotideSequence(s, ambiguous=(kind == "nuc_amb"))


# headers: the format keeps everything after the leading '>' up to the line end; surrounding white space and line breaks
# are not part of a header (the writer removes them), so the model holds the normalised header
HDR_MENU = ["h{k} d", ">h{k}", "h{k}>x;y", " h{k} ", "h{k}\tz", ">>{k}", "h{k}\nw"]


def _norm_header(h):
    return h.replace("\n", "").strip()


def fasta_seq(cpl, as_rna, picks, edits, hdr=0):
    """write sequences picks (indices in SEQ_MENU) under headers h0.., apply edits, compare in-memory view,
    text re-read and read_iter with the dict model"""
    from biotite.sequence.io import fasta
    from biotite.sequence import ProteinSequence
    f = fasta.FastaFile(chars_per_line=cpl)
    model = {}
    raw = {k: HDR_MENU[hdr if k == 0 else 0].format(k=k) for k in range(2)}
    if hdr:
        # through the mapping interface with the raw header; the parsed view answers under the normalised header
        for k, p in enumerate(picks):
            f[raw[k]] = str(_mkseq(*SEQ_MENU[p])).replace("T", "U") if as_rna and SEQ_MENU[p][0] != "prot" else str(_mkseq(*SEQ_MENU[p]))
            model[_norm_header(raw[k])] = _mkseq(*SEQ_MENU[p])
        if list(f.keys()) != list(model.keys()):
            return False
        o = io.StringIO()
        f.write(o)
        g = fasta.FastaFile.read(io.StringIO(o.getvalue()))
        if list(g.keys()) != list(model.keys()):
            return False
        if [h for h, _ in fasta.FastaFile.read_iter(io.StringIO(o.getvalue()))] != list(model.keys()):
            return False
        for e in edits:
            h = _norm_header(raw[e[1]])
            if e[0] == "del":
                del f[h]
                del model[h]
            else:
                s = _mkseq(*SEQ_MENU[e[2]])
                fasta.set_sequence(f, s, header=raw[e[1]], as_rna=as_rna)
                del model[h]
                model[h] = s
        if list(f.keys()) != list(model.keys()):
            return False
        o = io.StringIO()
        f.write(o)
        g = fasta.FastaFile.read(io.StringIO(o.getvalue()))
        if list(g.keys()) != list(model.keys()):
            return False
        got = fasta.get_sequences(g)
        return all(str(got[h]) == str(sq) for h, sq in model.items())
    seqs = {f"h{k} d": _mkseq(*SEQ_MENU[p]) for k, p in enumerate(picks)}
    fasta.set_sequences(f, seqs, as_rna=as_rna)
    model.update(seqs)
    for e in edits:
        if e[0] == "del":
            h = f"h{e[1]} d"
            if h in model:
                del f[h]
                del model[h]
        elif e[0] == "set":          # replace (moves the entry to the end like a re-insert)
            h = f"h{e[1]} d"
            s = _mkseq(*SEQ_MENU[e[2]])
            fasta.set_sequence(f, s, header=h, as_rna=as_rna)
            if h in model:
                del model[h]
            model[h] = s
    if len(model) == 0:
        return len(f) == 0

    def check(ff):
        if list(ff.keys()) != list(model.keys()) or len(ff) != len(model):
            return False
        got = fasta.get_sequences(ff)
        for h, s in model.items():
            g = got[h]
            # (the sequence type is auto-detected on reading - 'MKT' is also a valid ambiguous
            #  nucleotide sequence - so only the symbols are compared)
            if str(g) != str(s):
                return False
        return True
    if not check(f):
        return False
    out = io.StringIO()
    f.write(out)
    text = out.getvalue()
    if not check(fasta.FastaFile.read(io.StringIO(text))):
        return False
    it = list(fasta.FastaFile.read_iter(io.StringIO(text)))
    if [h for h, _ in it] != list(model.keys()):
        return False
    # the raw text holds every sequence completely, wrapped at cpl
    for line in text.splitlines():
        if not line.startswith(">") and len(line) > cpl:
            return False
    return True


def fasta_replay(w):
    try:
        ok = fasta_seq(w["cpl"], w["as_rna"], w["picks"], [tuple(e) for e in w["edits"]], w.get("hdr", 0))
        return ok, f"returned {ok}"
    except Exception as e:
        return False, f"{type(e).__name__}: {e}"


def ob_fasta(tier):
    cases = []
    for cpl in (1, 3, 80):
        for as_rna in (False, True):
            p0, p1, e0, e1, e2, hd = z3.Ints("p0 p1 e0 e1 e2 hd")
            base = [p0 >= 0, p0 < len(SEQ_MENU), p1 >= 0, p1 < len(SEQ_MENU), e0 >= 0, e0 <= 2, e1 >= 0, e1 <= 1,
                    e2 >= 0, e2 < len(SEQ_MENU), z3.Implies(e0 != 2, e2 == 0), z3.Implies(e0 == 0, e1 == 0),
                    hd >= 0, hd < len(HDR_MENU)]

            def run(cpl=cpl, as_rna=as_rna, p0=p0, p1=p1, e0=e0, e1=e1, e2=e2, hd=hd):
                ex = cur()
                h = ex.choose(hd, range(len(HDR_MENU)))
                a = ex.choose(p0, range(len(SEQ_MENU)))
                b = ex.choose(p1, range(len(SEQ_MENU)))
                k = ex.choose(e0, range(3))
                i = ex.choose(e1, range(2))
                j = ex.choose(e2, range(len(SEQ_MENU)))
                edits = [] if k == 0 else [("del", i)] if k == 1 else [("set", i, j)]
                return fasta_seq(cpl, as_rna, [a, b], edits, h)
            cases.append(Case(f"fasta cpl={cpl} as_rna={as_rna}", base, run,
                              dict(cpl=cpl, as_rna=as_rna, picks=[p0, p1], edits=[], hdr=hd), _fasta_replay_sym))
    return cases, dict(functions_hash=_hash("biotite.sequence.io.fasta.file", "biotite.sequence.io.fasta.convert"))


def _fasta_replay_sym(w):
    # the explorer reports only the picks; edits are re-enumerated on replay
    for k in range(3):
        for i in range(2):
            for j in (range(len(SEQ_MENU)) if k == 2 else [0]):
                edits = [] if k == 0 else [("del", i)] if k == 1 else [("set", i, j)]
                ok, obs = fasta_replay(dict(cpl=w["cpl"], as_rna=w["as_rna"], picks=w["picks"], edits=edits, hdr=w.get("hdr", 0)))
                if not ok:
                    return False, f"edits={edits}: {obs}"
    return True, "all edit variants ok"
