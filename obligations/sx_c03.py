"""C03 (E-class obligations on the real Python/compiled classes): alphabets, mappers, sequences, translation.
Selectors are z3 variables case-split by the explorer; the assertion is evaluated concretely per path."""
import itertools

import numpy as np
import z3

from vf.sx.core import cur
from vf.sx.ob import Case

STD_CODE = "FFLLSSSSYY**CC*WLLLLPPPPHHQQRRRRIIIMTTTTNNKKSSRRVVVVAAAADDEEGGGG"     # NCBI table 1, TCAG order
IUPAC = {"A": "T", "C": "G", "G": "C", "T": "A", "R": "Y", "Y": "R", "K": "M", "M": "K", "S": "S", "W": "W",
         "B": "V", "V": "B", "D": "H", "H": "D", "N": "N"}


def std_aa(codon):
    i = "TCAG".index(codon[0]) * 16 + "TCAG".index(codon[1]) * 4 + "TCAG".index(codon[2])
    return STD_CODE[i]


def alphabets():
    from biotite.sequence import Alphabet, LetterAlphabet, NucleotideSequence, ProteinSequence
    from biotite.sequence.align import KmerAlphabet
    base = NucleotideSequence.alphabet_unamb
    import string
    return [
        Alphabet(["a", "b", "c"]), Alphabet([1, 2, 3, "x", (1, 2)]), Alphabet(list(range(300))), Alphabet([299, 5, 256]),
        LetterAlphabet("ACGT"), LetterAlphabet("ACGTN"), LetterAlphabet(string.digits + string.ascii_letters + string.punctuation),
        KmerAlphabet(base, 2), KmerAlphabet(base, 5), Alphabet(["AAAAA", "GGGGG", "TTTTT", "ACGTA"]),
        NucleotideSequence.alphabet_amb, ProteinSequence.alphabet, Alphabet(["A", "C", "G", "T"]), LetterAlphabet("x"),
        Alphabet(list(range(256))), Alphabet(list(range(257))), Alphabet(list(range(65536))), Alphabet(list(range(65537))),
    ]


def check_alphabet(i):
    from biotite.sequence import AlphabetError
    a = alphabets()[i]
    syms = list(a.get_symbols()) if not hasattr(a, "_k") else None
    n = len(a)
    codes = sorted(set([0, 1, n // 2, n - 2, n - 1, 255, 256, 257]) & set(range(n)))
    for c in codes:
        s = a.decode(c)
        if a.encode(s) != c:
            return f"encode(decode({c})) = {a.encode(s)}"
        if syms is not None and s != syms[c]:
            return f"decode({c}) = {s!r}"
    for bad in (-1, n, n + 1):
        try:
            a.decode(bad)
            return f"decode({bad}) did not raise"
        except AlphabetError:
            pass
    for bad in ("~~", "zz", 10 ** 9, None):
        if syms is not None and bad in syms:
            continue
        try:
            a.encode(bad)
            return f"encode({bad!r}) did not raise"
        except AlphabetError:
            pass
        except Exception as e:
            if hasattr(a, "_k"):
                continue         # k-mer alphabets are only defined on symbol tuples
            return f"encode({bad!r}) raised {type(e).__name__} instead of AlphabetError"
    seq = [a.decode(c) for c in codes]
    code = a.encode_multiple(seq)
    if list(np.asarray(code).tolist()) != codes:
        return f"encode_multiple {list(code)} vs {codes}"
    # any iterable of symbols: tuple, iterator, generator, reversed view, dict keys
    if not hasattr(a, "_k"):
        for label, it, want in (("tuple", tuple(seq), codes), ("iterator", iter(seq), codes), ("generator", (x for x in seq), codes),
                                ("reversed", reversed(seq), codes[::-1]), ("dict keys", dict.fromkeys(seq).keys(), codes), ("empty iterator", iter(()), [])):
            try:
                got = np.asarray(a.encode_multiple(it)).tolist()
            except TypeError:
                continue          # (a container kind may be refused as such, but never mis-encoded)
            if got != want:
                return f"encode_multiple({label}) = {got} vs {want}"
    # a sequence over this alphabet holds every code, the last one included (code dtype wide enough)
    if syms is not None:
        from biotite.sequence import GeneralSequence
        picks = [syms[c] for c in codes]
        gs = GeneralSequence(a, picks)
        if [int(c) for c in gs.code] != codes or list(gs.symbols) != picks:
            return f"GeneralSequence over {n} symbols: codes {[int(c) for c in gs.code]} vs {codes} (dtype {gs.code.dtype})"
        gs2 = GeneralSequence(a, iter(picks))
        if [int(c) for c in gs2.code] != codes:
            return f"GeneralSequence from an iterator: codes {[int(c) for c in gs2.code]} vs {codes}"
        gs.code = np.array(codes)
        if [int(c) for c in gs.code] != codes or list(gs.symbols) != picks:
            return f"code assignment over {n} symbols: {[int(c) for c in gs.code]} (dtype {gs.code.dtype})"
    back = a.decode_multiple(np.asarray(code))
    if [tuple(x) if isinstance(x, np.ndarray) else x for x in back] != [tuple(x) if isinstance(x, np.ndarray) else x for x in seq] \
            and [str(x) for x in back] != [str(x) for x in seq]:
        return f"decode_multiple {list(back)} vs {seq}"
    try:
        a.decode_multiple(np.array([n]))
        return "decode_multiple(out of range) did not raise"
    except AlphabetError:
        pass
    return None


def check_mapper(i, j):
    from biotite.sequence import AlphabetMapper, AlphabetError
    al = alphabets()
    src, tgt = al[i], al[j]
    ssyms = [src.decode(c) for c in range(min(len(src), 400))]

    def has(sym):
        try:
            tgt.encode(sym)
            return True
        except Exception:
            return False
    if not all(has(s) for s in ssyms) or len(src) > 400:
        return None          # mapping only defined when the target contains every source symbol
    m = AlphabetMapper(src, tgt)
    for c, s in enumerate(ssyms):
        t = int(m[c])
        if tgt.encode(s) != t:
            return f"mapper[{c}] = {t}, but {s!r} has code {tgt.encode(s)} in the target"
    arr = m[np.arange(len(ssyms), dtype=np.uint64)]
    if [int(x) for x in arr] != [tgt.encode(s) for s in ssyms]:
        return f"array mapping {list(arr)}"
    arr8 = m[list(range(len(ssyms)))]
    if [int(x) for x in arr8] != [tgt.encode(s) for s in ssyms]:
        return f"list mapping {list(arr8)}"
    return None


def check_common(i, j):
    from biotite.sequence import common_alphabet
    al = alphabets()
    a, b = al[i], al[j]
    c = common_alphabet([a, b])
    def nz(x):
        return tuple(x.tolist()) if isinstance(x, np.ndarray) else (tuple(x) if isinstance(x, list) else x)
    sa = [nz(a.decode(k)) for k in range(min(len(a), 50))]
    sb = [nz(b.decode(k)) for k in range(min(len(b), 50))]
    a_ext_b = len(a) >= len(b) and sa[:len(sb)] == sb and (len(b) <= 50 or a.extends(b))
    b_ext_a = len(b) >= len(a) and sb[:len(sa)] == sa and (len(a) <= 50 or b.extends(a))
    if a.extends(b) != a_ext_b and len(b) <= 50:
        return f"extends({i},{j}) = {a.extends(b)}"
    if c is None:
        return None if not (a_ext_b or b_ext_a) else "common_alphabet None although one extends the other"
    if not (c.extends(a) and c.extends(b)):
        return "common alphabet does not extend both"
    return None


def _rep(f, *a):
    try:
        r = f(*a)
        return r is None, str(r)
    except Exception as e:
        import traceback
        return False, f"{type(e).__name__}: {e} | {traceback.format_exc()[-300:]}"


def ob_alphabets(tier):
    n = len(alphabets())
    cases = []
    i, j = z3.Int("i"), z3.Int("j")
    cases.append(Case("alphabet encode/decode", [i >= 0, i < n], lambda: check_alphabet(cur().choose(i, range(n))) is None,
                      dict(i=i), lambda w: _rep(check_alphabet, w["i"])))
    cases.append(Case("alphabet mapper", [i >= 0, i < n, j >= 0, j < n],
                      lambda: check_mapper(cur().choose(i, range(n)), cur().choose(j, range(n))) is None,
                      dict(i=i, j=j), lambda w: _rep(check_mapper, w["i"], w["j"])))
    cases.append(Case("extends / common_alphabet", [i >= 0, i < n, j >= 0, j < n],
                      lambda: check_common(cur().choose(i, range(n)), cur().choose(j, range(n))) is None,
                      dict(i=i, j=j), lambda w: _rep(check_common, w["i"], w["j"])))
    return cases


# ------------------------------------------------------------------------------ sequences
def check_sequence(kind, codes, codes2):
    from biotite.sequence import NucleotideSequence, ProteinSequence, GeneralSequence, Alphabet
    if kind == 0:
        alph = NucleotideSequence.alphabet_unamb
        mk = lambda s: NucleotideSequence(s)
    elif kind == 1:
        alph = NucleotideSequence.alphabet_amb
        mk = lambda s: NucleotideSequence(s, ambiguous=True)
    else:
        alph = ProteinSequence.alphabet
        mk = lambda s: ProteinSequence(s)
    syms = alph.get_symbols()
    s1 = "".join(syms[c % len(syms)] for c in codes)
    s2 = "".join(syms[c % len(syms)] for c in codes2)
    a, b = mk(s1), mk(s2)
    if str(a) != s1 or len(a) != len(s1) or list(a.symbols) != list(s1):
        return f"str/len/symbols of {s1!r}: {str(a)!r}"
    if [int(c) for c in a.code] != [c % len(syms) for c in codes]:
        return "codes"
    if kind == 1:
        # the requested alphabet is the one that is used: ambiguous=False means the unambiguous alphabet, and a letter
        # outside it is refused; no request means the unambiguous alphabet whenever it suffices
        from biotite.sequence import AlphabetError
        plain = all(ch in "ACGT" for ch in s1)
        try:
            u = NucleotideSequence(s1, ambiguous=False)
            if not plain:
                return f"NucleotideSequence({s1!r}, ambiguous=False) accepted letters outside the unambiguous alphabet"
            if u.alphabet != NucleotideSequence.alphabet_unamb or str(u) != s1:
                return f"NucleotideSequence({s1!r}, ambiguous=False): alphabet {u.alphabet}"
        except AlphabetError:
            if plain:
                return f"NucleotideSequence({s1!r}, ambiguous=False) refused"
        d = NucleotideSequence(s1)
        if (d.alphabet == NucleotideSequence.alphabet_unamb) != plain or str(d) != s1:
            return f"NucleotideSequence({s1!r}): alphabet {d.alphabet}"
        if a.alphabet != NucleotideSequence.alphabet_amb:
            return f"NucleotideSequence({s1!r}, ambiguous=True): alphabet {a.alphabet}"
    for k in range(-len(s1), len(s1)):
        if a[k] != s1[k]:
            return f"index {k}"
    for sl in (slice(1, None), slice(None, -1), slice(None, None, 2), slice(None, None, -1), slice(1, 3)):
        if str(a[sl]) != s1[sl]:
            return f"slice {sl}"
    if str(a + b) != s1 + s2 or str(b + a) != s2 + s1:
        return "concatenation"
    if str(a.reverse()) != s1[::-1] or str(a.reverse().reverse()) != s1:
        return "reverse"
    if len(s1):               # the reversed sequence is a copy (default copy=True) - also for a single symbol
        r = a.reverse()
        r[0] = syms[(codes[-1] + 1) % len(syms)]
        if str(a) != s1:
            return f"assignment to reverse() of {s1!r} changed the original to {str(a)!r}"
        r2 = a.reverse()
        a2 = mk(s1)
        a2r = a2.reverse()
        a2[len(s1) - 1] = syms[(codes[-1] + 1) % len(syms)]
        if str(a2r) != s1[::-1]:
            return f"assignment to {s1!r} changed its earlier reverse() to {str(a2r)!r}"
    if (a == b) != (s1 == s2) or a != mk(s1) or (a == mk(s1)) is False:
        return "equality"
    c = a.copy()
    if c != a or str(c) != s1:
        return "copy not equal"
    if len(s1):
        c[0] = syms[(codes[0] + 1) % len(syms)]
        if str(a) != s1:
            return "copy shares state with the original"
        if str(c) != syms[(codes[0] + 1) % len(syms)] + s1[1:]:
            return "assignment"
        # every index kind: Python int (any position, negative too), numpy integer, index array, boolean mask
        new = syms[(codes[-1] + 2) % len(syms)]
        for k in range(-len(s1), len(s1)):
            for idx in (k, np.int64(k), np.int32(k)):
                e = a.copy()
                e[idx] = new
                want = list(s1)
                want[k] = new
                if str(e) != "".join(want):
                    return f"assignment at index {idx!r} ({type(idx).__name__}): {str(e)!r}"
                if a[idx] != s1[k]:
                    return f"index {idx!r} ({type(idx).__name__})"
        e = a.copy()
        e[np.array([0, len(s1) - 1])] = mk(new * 2)
        want = list(s1)
        want[0] = want[-1] = new
        if str(e) != "".join(want) or str(a[np.array([len(s1) - 1, 0])]) != s1[-1] + s1[0]:
            return f"index array assignment / lookup: {str(e)!r}"
        mask = np.array([i % 2 == 0 for i in range(len(s1))])
        if str(a[mask]) != s1[::2]:
            return "boolean mask lookup"
        d = a.copy()
        d[0:len(s2)] = b[0:len(a)] if len(s2) <= len(s1) else b[0:len(s1)]
        m = min(len(s1), len(s2))
        if str(d) != s2[:m] + s1[m:]:
            return f"slice assignment: {str(d)!r}"
    if kind in (0, 1):
        comp = a.complement()
        if str(comp) != "".join(IUPAC[ch] for ch in s1):
            return f"complement of {s1!r} = {str(comp)!r}"
        if str(comp.complement()) != s1:
            return "complement is not an involution"
    return None


def ob_sequences(tier):
    cases = []
    L = 3 if tier == "quick" else 4
    for kind, nsym in ((0, 4), (1, 15), (2, 4)):
        # (protein: 4 of the symbols per position keeps the product small; all symbols appear via offsets)
        for n in range(0, L + 1):
            vs = [z3.Int(f"c{i}") for i in range(n)]
            w = z3.Int("w")
            base = [z3.And(v >= 0, v < (nsym if kind != 1 or n <= 2 else 6)) for v in vs] + [w >= 0, w < 3]

            def run(kind=kind, vs=vs, w=w, nsym=nsym):
                ex = cur()
                codes = [ex.choose(v, range(nsym)) for v in vs]
                ww = ex.choose(w, range(3))
                off = 7 if kind == 2 else (9 if kind == 1 and len(vs) > 2 else 0)
                codes = [c + off for c in codes]
                return check_sequence(kind, codes, [[1, 2], [3], [0, 0, 2]][ww]) is None
            cases.append(Case(f"sequence kind={kind} len={n}", base, run, dict(kind=kind, codes=vs, w=w),
                              lambda wd: _rep(check_sequence, wd["kind"],
                                              [c + (7 if wd["kind"] == 2 else (9 if wd["kind"] == 1 and len(wd["codes"]) > 2 else 0)) for c in wd["codes"]],
                                              [[1, 2], [3], [0, 0, 2]][wd["w"]])))
    return cases


# ----------------------------------------------------------------------------- translation
def orf_model(s, starts, aa_of, met_start):
    out = []
    for shift in range(3):
        codons = [s[k:k + 3] for k in range(shift, len(s) - 2, 3)]
        for si, c in enumerate(codons):
            if c in starts:
                prot = []
                for cj in codons[si:]:
                    prot.append(aa_of(cj))
                    if prot[-1] == "*":
                        break
                p = "".join(prot)
                if met_start:
                    p = "M" + p[1:]
                out.append((shift + 3 * si, shift + 3 * (si + len(prot)), p))
    out.sort(key=lambda t: t[0])
    return out


def check_translate(codes, variant):
    from biotite.sequence import NucleotideSequence, CodonTable
    s = "".join("ACGT"[c] for c in codes)
    seq = NucleotideSequence(s)
    default = CodonTable.default_table()
    aa = std_aa
    starts = {"ATG"}
    table = default
    if variant == 1:
        table = default.with_start_codons(["TTG", "CTG"])
        starts = {"TTG", "CTG"}
    elif variant == 2:
        table = default.with_codon_mappings({"TGA": "W"})
        aa = lambda c: "W" if c == "TGA" else std_aa(c)
    elif variant == 3:
        # deriving a table must not change its parent
        default.with_codon_mappings({"TGA": "W", "ATG": "L"})
        default.with_start_codons(["AAA"])
        table = CodonTable.default_table()
    if len(s) % 3 == 0 and len(s) > 0:
        got = str(seq.translate(complete=True, codon_table=table))
        want = "".join(aa(s[k:k + 3]) for k in range(0, len(s), 3))
        if got != want:
            return f"complete translation of {s}: {got} vs {want}"
    # translation is defined on the unambiguous alphabet only: an ambiguous sequence is refused, never translated through
    # codes that are not nucleotides
    from biotite.sequence import AlphabetError
    for amb_text in (s + "N", "ATGAAR", s):
        amb = NucleotideSequence(amb_text, ambiguous=True)
        for kw in (dict(complete=True), dict()):
            if kw and len(amb_text) % 3:
                continue
            try:
                r_ = amb.translate(codon_table=table, **kw)
            except AlphabetError:
                continue
            except Exception as e_:
                return f"translate() of the ambiguous sequence {amb_text} raised {type(e_).__name__} instead of AlphabetError"
            return f"translate() of the sequence {amb_text} over the ambiguous alphabet answered {r_}"
    # documented defaults: met_start=False, complete=False
    dp, dpos = seq.translate(codon_table=table)
    ep, epos = seq.translate(codon_table=table, met_start=False, complete=False)
    if [str(x) for x in dp] != [str(x) for x in ep] or [tuple(map(int, x)) for x in dpos] != [tuple(map(int, x)) for x in epos]:
        return f"translate() with default options differs from met_start=False: {[str(x) for x in dp]} vs {[str(x) for x in ep]}"
    for met in (False, True):
        prots, pos = seq.translate(codon_table=table, met_start=met)
        got = [(int(p[0]), int(p[1]), str(q)) for p, q in zip(pos, prots)]
        want = orf_model(s, starts, aa, met)
        # order among ORFs with the same start is not specified: compare sorted
        if sorted(got) != sorted(want) or [g[0] for g in got] != sorted(g[0] for g in got):
            return f"ORFs of {s} (variant {variant}, met_start={met}): {got} vs {want}"
    for k in range(0, len(s) - 2):
        c = s[k:k + 3]
        if table[c] != aa(c):
            return f"table[{c}] = {table[c]}"
    return None


def ob_translate(tier):
    cases = []
    for variant in range(4):
        L = 6 if tier == "quick" else 7
        vs = [z3.Int(f"n{i}") for i in range(L)]
        pre = z3.Int("pre")
        base = [z3.And(v >= 0, v < 4) for v in vs] + [pre >= 0, pre < 3]
        if tier == "quick":
            # first codon from a small menu (start codons / stop codons / others) to bound the product
            pass

        def run(vs=vs, pre=pre, variant=variant):
            ex = cur()
            p = ex.choose(pre, range(3))
            head = [[0, 3, 2], [3, 3, 2], [1, 3, 2]][p]        # ATG, TTG, CTG
            codes = head + [ex.choose(v, range(4)) for v in vs[:len(vs) - 2 if tier == "quick" else len(vs)]]
            return check_translate(codes, variant) is None
        cases.append(Case(f"translate variant={variant}", base, run, dict(codes=vs, pre=pre, variant=variant),
                          lambda w: _rep(check_translate, [[0, 3, 2], [3, 3, 2], [1, 3, 2]][w["pre"]] + w["codes"][:len(w["codes"]) - 2 if tier == "quick" else len(w["codes"])], w["variant"])))
    # start codons in two different reading frames, the one of the later frame upstream of the other: proteins and
    # positions stay paired (check_translate pairs them by index) and are ordered by start
    p1, p2 = z3.Ints("p1 p2")
    fill = [z3.Int(f"f{i}") for i in range(6)]

    def two(p1v, p2v, fv):
        seq = [1 if x else 0 for x in fv] * 2          # filler from {A, C}: never a start or stop codon
        seq = seq[:12]
        for p in (p1v, p2v):
            seq[p:p + 3] = [0, 3, 2]
        return seq

    def run_two():
        ex = cur()
        a_ = ex.choose(p1, range(0, 6))
        b_ = ex.choose(p2, range(a_ + 3, 10))
        fv = [ex.choose(f, range(2)) for f in fill]
        return check_translate(two(a_, b_, fv), 0) is None
    cases.append(Case("two start codons in different frames", [p1 >= 0, p1 < 6, p2 >= p1 + 3, p2 < 10] + [z3.And(f >= 0, f < 2) for f in fill],
                      run_two, dict(p1=p1, p2=p2, fill=fill), lambda w: _rep(check_translate, two(w["p1"], w["p2"], w["fill"]), 0)))
    # every codon against the standard code
    a, b, c = z3.Ints("a b c")

    def run_codon():
        ex = cur()
        codes = [ex.choose(a, range(4)), ex.choose(b, range(4)), ex.choose(c, range(4))]
        return check_translate(codes, 0) is None and check_translate(codes, 3) is None
    cases.append(Case("all 64 codons", [z3.And(v >= 0, v < 4) for v in (a, b, c)], run_codon, dict(codes=[a, b, c]),
                      lambda w: _rep(check_translate, w["codes"], 0)))
    return cases


# ------------------------------------------------------------------------- KmerAlphabet.fuse / split
def check_fuse(A, k, codes):
    from biotite.sequence import Alphabet, AlphabetError
    from biotite.sequence.align import KmerAlphabet
    ka = KmerAlphabet(Alphabet(list(range(A))), k)
    legal = all(0 <= c < A for c in codes)
    try:
        v = ka.fuse(np.array(codes))
    except AlphabetError:
        return None if not legal else "fuse raised for legal codes"
    if not legal:
        return f"fuse({codes}) = {int(v)} for an alphabet of {A} symbols (no AlphabetError)"
    want = sum(c * A ** (k - 1 - j) for j, c in enumerate(codes))
    if int(v) != want or ka.split(v).tolist() != list(codes):
        return f"fuse({codes}) = {int(v)}, split -> {ka.split(v).tolist()}"
    for bad in (len(ka), -1):
        try:
            ka.split(bad)
            return f"split({bad}) did not raise"
        except AlphabetError:
            pass
    return None


def ob_fuse(tier):
    cases = []
    for A, k in ((4, 2), (2, 3), (5, 2)):
        vs = [z3.Int(f"c{i}") for i in range(k)]
        base = [z3.And(v >= 0, v <= A + 1) for v in vs]

        def run(A=A, k=k, vs=vs):
            ex = cur()
            codes = [ex.choose(v, range(A + 2)) for v in vs]
            return check_fuse(A, k, codes) is None
        known = [("C03-fuse-accepts-alphabet-length", z3.And(z3.Or(*[v == A for v in vs]), z3.And(*[v <= A for v in vs])),
                  dict(A=4, k=2, codes=[4, 0]),
                  "KmerAlphabet.fuse accepts a symbol code equal to the base alphabet length ('>' instead of '>='): "
                  "fuse([4, 0]) over 4 symbols returns 16 (>= len(alphabet)) instead of raising AlphabetError")]
        cases.append(Case(f"fuse/split |A|={A} k={k}", base, run, dict(A=A, k=k, codes=vs),
                          lambda w: _rep(check_fuse, w["A"], w["k"], w["codes"]), known=known))
    return cases
