"""C14 (E-class on the compiled CellList): neighbour search is exact on dyadic coordinates.

All coordinates, radii, cell sizes and box vectors are multiples of 1/4 with small magnitude, so every float32
operation of the implementation and every float64 operation of the oracle is exact: 'distance <= radius' has no rounding
edge.  z3 integers select the atom positions, cell size, box and selection; every query point and radius of the menus is
then tried on that configuration."""
import itertools

import numpy as np
import z3

from vf.sx.core import cur
from vf.sx.ob import Case

# atom / query positions: cell borders for all cell sizes, duplicates, collinear triples, points outside
POINTS = [(0, 0, 0), (1, 0, 0), (2, 0, 0), (0.5, 0.5, 0.5), (1, 1, 1), (1.5, 0, 0.25), (3, 3, 3), (0, 2.75, 1), (2, 2, 0), (0.25, 0, 0),
          (-1, -1.5, 0.5), (1, 0, 0.75)]
QUERIES = POINTS + [(-3, 0, 0), (10, 10, 10), (1.25, 0.25, 0), (-0.25, 3.25, 1), (100, 0, 0), (3, 3, 3.25)]
RADII = [0.0, 0.5, 1.0, 1.5, 2.0, 5.25, 200.0]
CELL_SIZES = [0.5, 1.0, 1.5, 2.0, 7.0, 0.25]
BOXES = [None,
         ((4, 0, 0), (0, 4, 0), (0, 0, 4)),
         ((4, 0, 0), (0, 5, 0), (0, 0, 3.5)),
         ((4, 0, 0), (1, 4, 0), (0.5, 1, 4)),          # triclinic
         ((4, 0, 0), (-1.5, 4, 0), (1, -1, 4)),         # triclinic, negative off-diagonal
         ((2.4, -3.2, 0), (4.0, 3.0, 0), (0, 0, 3.5))]  # orthorhombic (4 x 5 x 3.5) rotated about z: orthogonal but not axis-aligned


def _rep(f, *keys):
    def g(w):
        try:
            r = f(*[w[k] for k in keys])
            return r is None, str(r)
        except Exception as e:
            import traceback
            return False, f"{type(e).__name__}: {e} | {traceback.format_exc()[-500:]}"
    return g


_IMAGES = list(itertools.product((-2, -1, 0, 1, 2), repeat=3))


def _inv3(m):
    """inverse of a 3x3 matrix of Fractions"""
    (a, b, c), (d, e, f), (g, h, i) = m
    det = a * (e * i - f * h) - b * (d * i - f * g) + c * (d * h - e * g)
    adj = [[e * i - f * h, c * h - b * i, b * f - c * e],
           [f * g - d * i, a * i - c * g, c * d - a * f],
           [d * h - e * g, b * g - a * h, a * e - b * d]]
    return [[x / det for x in row] for row in adj]


def dist2_matrix(P, Q, box):
    """exact squared minimum-image distances as Fractions (rows: queries)"""
    from fractions import Fraction as F
    P = [[F(c) for c in p] for p in P]
    Q = [[F(c) for c in q] for q in Q]
    if box is not None:
        b = [[F(c) for c in v] for v in box]
        inv = _inv3(b)          # row vectors: d = frac @ b  =>  frac = d @ inv(b)
    out = []
    for q in Q:
        row = []
        for p in P:
            d = [p[k] - q[k] for k in range(3)]
            if box is None:
                row.append(sum(x * x for x in d))
                continue
            frac = [sum(d[k] * inv[k][j] for k in range(3)) for j in range(3)]
            frac = [x - round(x) for x in frac]
            d0 = [sum(frac[k] * b[k][j] for k in range(3)) for j in range(3)]
            best = None
            for i, j, k in _IMAGES:
                v = [d0[t] + i * b[0][t] + j * b[1][t] + k * b[2][t] for t in range(3)]
                n2 = sum(x * x for x in v)
                best = n2 if best is None or n2 < best else best
            row.append(best)
        out.append(row)
    return out


_D2_CACHE = {}


def dist_matrix(P, Q, box):
    """float view of dist2_matrix (for messages); comparisons use within()"""
    key = (tuple(map(tuple, P)), tuple(map(tuple, Q)), box)
    if key not in _D2_CACHE:
        if len(_D2_CACHE) > 5000:
            _D2_CACHE.clear()
        _D2_CACHE[key] = dist2_matrix(P, Q, box)
    return _D2_CACHE[key]


def within(d2, r):
    from fractions import Fraction as F
    return d2 <= F(r) * F(r)


def on_edge(d2, r, box):
    """periodic cells whose fractional transformation is inexact in floats (lengths that are not powers of two, skewed
    cells): a pair whose exact distance is within 1e-4 of the radius may fall on either side"""
    if box is None or all(box[i][j] == (4 if i == j else 0) for i in range(3) for j in range(3)):
        return False
    import math
    return abs(math.sqrt(float(d2)) - r) <= 1e-4


def min_image_dist2(p, q, box):
    return dist_matrix([p], [q], box)[0][0]


def usable_radii(cs, periodic):
    out = []
    for r in RADII:
        if periodic and r > 1.5:
            continue            # minimum image: radius below half the smallest cell height
        if r / cs > 30:
            continue            # (2 * ceil(r / cell) + 1)^3 result slots per query: see ob_large_radius
        out.append(r)
    return out


def check_config(idx, ci, bi, sel):
    """idx: tuple of atom position indices; ci cell size; bi box; sel: selection pattern"""
    import biotite.structure as struc
    pts = [POINTS[i] for i in idx]
    n = len(pts)
    coord = np.array(pts, dtype=np.float32)
    cs = CELL_SIZES[ci]
    box = BOXES[bi]
    periodic = box is not None
    selection = None
    if sel:
        selection = np.array([(a + sel) % 2 == 0 for a in range(n)], dtype=bool)
        if not selection.any():
            selection[0] = True
    kw = dict(periodic=True, box=np.array(box, dtype=np.float32)) if periodic else {}
    cl = struc.CellList(coord, cs, selection=selection, **kw)
    allowed = [a for a in range(n) if selection is None or selection[a]]
    radii = usable_radii(cs, periodic)
    queries = QUERIES
    qarr = np.array(queries, dtype=np.float32)
    dist2 = dist_matrix(pts, queries, box)
    pair2 = dist_matrix(pts, pts, box)
    ctx = f"(cell size {cs}, box {box}, selection {None if selection is None else selection.tolist()}, atoms {pts})"

    def sets(d2row, r):
        must = {a for a in allowed if within(d2row[a], r) and not on_edge(d2row[a], r, box)}
        may = {a for a in allowed if on_edge(d2row[a], r, box)}
        return must, may

    def bad(got, d2row, r):
        must, may = sets(d2row, r)
        got = set(got)
        return not (must <= got <= must | may)

    for r in radii:
        for qi in (3, 12, 13, 15, 17):
            got = cl.get_atoms(qarr[qi], r)
            vals = got[got != -1].tolist()
            if got.dtype.kind != "i" or bad(vals, dist2[qi], r) or (not periodic and len(vals) != len(set(vals))):
                return f"get_atoms({queries[qi]}, {r}) = {got.tolist()}, within radius {sorted(sets(dist2[qi], r)[0])} {ctx}"
            mask = cl.get_atoms(qarr[qi], r, as_mask=True)
            if mask.dtype != bool or mask.shape != (n,) or bad(np.where(mask)[0].tolist(), dist2[qi], r):
                return f"get_atoms({queries[qi]}, {r}, as_mask) = {mask.tolist()}, within radius {sorted(sets(dist2[qi], r)[0])} {ctx}"
        got = cl.get_atoms(qarr, r)
        masks = cl.get_atoms(qarr, r, as_mask=True)
        for qi in range(len(queries)):
            row = got[qi]
            vals = row[row != -1].tolist()
            if bad(vals, dist2[qi], r):
                return f"batch get_atoms row {qi} ({queries[qi]}, r={r}) = {row.tolist()}, within radius {sorted(sets(dist2[qi], r)[0])} {ctx}"
            if (row[len(vals):] != -1).any() or (not periodic and len(vals) != len(set(vals))):
                return f"batch get_atoms row {qi}: padding / duplicates {row.tolist()} {ctx}"
            if bad(np.where(masks[qi])[0].tolist(), dist2[qi], r):
                return f"batch mask row {qi} (r={r}) = {masks[qi].tolist()} {ctx}"
        adj = cl.create_adjacency_matrix(r)
        if adj.shape != (n, n) or adj.dtype != bool:
            return f"adjacency matrix shape/dtype {adj.shape} {adj.dtype}"
        for a in range(n):
            row = np.where(adj[a])[0].tolist()
            if a not in allowed:
                if row:
                    return f"adjacency row of unselected atom {a} = {row} {ctx}"
                continue
            if bad(row, pair2[a], r):
                return f"adjacency matrix (threshold {r}) row {a} = {row}, within threshold {sorted(sets(pair2[a], r)[0])} {ctx}"
        edge_free = not any(on_edge(pair2[a][b], r, box) for a in range(n) for b in range(n))
        if edge_free and (adj != adj.T).any():
            return f"adjacency matrix not symmetric {ctx}"
    # a batch that contains positions without a finite value (e.g. unresolved atoms): those rows are empty, every other
    # row of the batch is answered as if it had been asked alone
    r0 = radii[len(radii) // 2]
    for bad_at, val in ((0, np.nan), (len(queries) // 2, np.inf), (len(queries) - 1, -np.inf)):
        qb = qarr.copy()
        qb[bad_at, bad_at % 3] = val
        got = cl.get_atoms(qb, r0)
        masks = cl.get_atoms(qb, r0, as_mask=True)
        cells = cl.get_atoms_in_cells(qb, 1)
        for qi in range(len(queries)):
            row = got[qi]
            vals = row[row != -1].tolist()
            if qi == bad_at:
                if vals or masks[qi].any() or (cells[qi] != -1).any():
                    return f"query {qb[qi].tolist()} without a finite position is answered with atoms {vals} {ctx}"
                continue
            if bad(vals, dist2[qi], r0) or bad(np.where(masks[qi])[0].tolist(), dist2[qi], r0):
                return f"batch with a non-finite position at row {bad_at}: row {qi} ({queries[qi]}, r={r0}) = {row.tolist()}, within radius {sorted(sets(dist2[qi], r0)[0])} {ctx}"
            need = sets(dist2[qi], cs)[0]
            if not need <= set(cells[qi][cells[qi] != -1].tolist()):
                return f"batch with a non-finite position at row {bad_at}: get_atoms_in_cells row {qi} misses atoms {ctx}"
    # one radius per query
    rr = np.array([radii[qi % len(radii)] for qi in range(len(queries))], dtype=np.float32)
    got = cl.get_atoms(qarr, rr)
    masks = cl.get_atoms(qarr, rr, as_mask=True)
    for qi in range(len(queries)):
        row = got[qi]
        if bad(row[row != -1].tolist(), dist2[qi], float(rr[qi])) or bad(np.where(masks[qi])[0].tolist(), dist2[qi], float(rr[qi])):
            return f"per-query radii: row {qi} ({queries[qi]}, r={float(rr[qi])}) = {row.tolist()}, within radius {sorted(sets(dist2[qi], float(rr[qi]))[0])} {ctx}"
    # cell-based queries: superset of everything within cell_radius * cell_size
    for c in (0, 1, 2):
        got = cl.get_atoms_in_cells(qarr, c)
        masks = cl.get_atoms_in_cells(qarr, c, as_mask=True)
        for qi in range(len(queries)):
            row = set(got[qi][got[qi] != -1].tolist())
            need = sets(dist2[qi], c * cs)[0] if c else {a for a in allowed if dist2[qi][a] == 0 and not on_edge(dist2[qi][a], 0, box)}
            if not need <= row or not row <= set(allowed):
                return f"get_atoms_in_cells({queries[qi]}, {c}) = {sorted(row)} misses {sorted(need - row)} {ctx}"
            if set(np.where(masks[qi])[0].tolist()) != row:
                return f"get_atoms_in_cells mask row {qi} differs from the index row {ctx}"
    cr = np.array([qi % 3 for qi in range(len(queries))], dtype=np.int32)
    got = cl.get_atoms_in_cells(qarr, cr)
    for qi in range(len(queries)):
        row = set(got[qi][got[qi] != -1].tolist())
        c = int(cr[qi])
        need = sets(dist2[qi], c * cs)[0] if c else {a for a in allowed if dist2[qi][a] == 0 and not on_edge(dist2[qi][a], 0, box)}
        if not need <= row:
            return f"get_atoms_in_cells with per-query cell radii: row {qi} misses {sorted(need - row)} {ctx}"
    return None


def ob_celllist(tier):
    cases = []
    quick = tier == "quick"
    npts = 8 if quick else len(POINTS)
    ncs = 4 if quick else len(CELL_SIZES)
    for n in (1, 2, 3):
        for bi in range(len(BOXES)):
            vs = [z3.Int(f"p{i}") for i in range(n)]
            c, s = z3.Ints("c s")
            base = [z3.And(v >= 0, v < npts) for v in vs] + [c >= 0, c < ncs, s >= 0, s <= (1 if quick else 2)]
            # atoms are an unordered multiset only up to index order: keep every ordered tuple for n <= 2, sorted for 3
            if n == 3:
                base += [vs[0] <= vs[1], vs[1] <= vs[2]] if quick else []

            def run(n=n, bi=bi, vs=vs, c=c, s=s, npts=npts, ncs=ncs, quick=quick):
                ex = cur()
                idx = tuple(ex.choose(v, range(npts)) for v in vs)
                return check_config(idx, ex.choose(c, range(ncs)), bi, ex.choose(s, range(3))) is None
            case = Case(f"cell list {n} atoms box {bi}", base, run, dict(idx=vs, ci=c, bi=bi, sel=s), _rep(check_config, "idx", "ci", "bi", "sel"))
            if n == 3:
                for v in range(npts):
                    cases.append(Case(f"{case.label} [p0={v}]", list(base) + [vs[0] == v], run, case.witness, case.replay))
            else:
                cases.append(case)
    return cases


def check_box_images(bi, pi, amount):
    """box.py:repeat_box_coord / move_inside_box on dyadic data: the periodic copies are coord + i*a + j*b + k*c"""
    import biotite.structure as struc
    box = np.array(BOXES[bi], dtype=np.float64)
    pts = np.array([POINTS[pi], POINTS[(pi + 3) % len(POINTS)]], dtype=np.float64)
    rep, idx = struc.repeat_box_coord(pts, box, amount)
    m = 2 * amount + 1
    if rep.shape != (len(pts) * m ** 3, 3) or idx.tolist() != list(range(len(pts))) * m ** 3:
        return f"shape {rep.shape}, indices {idx.tolist()[:8]}"
    if (rep[:len(pts)] != pts).any():
        return "the first copy is not the original"
    want = set()
    for i, j, k in itertools.product(range(-amount, amount + 1), repeat=3):
        for a, p in enumerate(pts):
            want.add((a,) + tuple(round(float(v), 9) + 0.0 for v in (p + i * box[0] + j * box[1] + k * box[2])))
    got = {(int(idx[r]),) + tuple(round(float(v), 9) + 0.0 for v in rep[r]) for r in range(len(rep))}        # (non-dyadic box entries: compare to 1e-9)
    if got != want:
        return f"periodic images differ: {sorted(got - want)[:2]} unexpected, {sorted(want - got)[:2]} missing (box {box.tolist()})"
    inside = struc.move_inside_box(pts, box)
    frac = np.linalg.solve(box.T, inside.T).T
    if (frac < -1e-9).any() or (frac >= 1 + 1e-9).any():
        return f"move_inside_box left fractional coordinates {frac.tolist()}"
    shift = np.linalg.solve(box.T, (inside - pts).T).T
    if np.abs(shift - np.round(shift)).max() > 1e-9:
        return f"move_inside_box moved by a non-lattice vector {shift.tolist()}"
    return None


def ob_box_images(tier):
    b, p, a = z3.Ints("b p a")

    def run():
        ex = cur()
        return check_box_images(ex.choose(b, range(1, len(BOXES))), ex.choose(p, range(len(POINTS))), ex.choose(a, (1, 2))) is None
    return [Case("periodic images", [b >= 1, b < len(BOXES), p >= 0, p < len(POINTS), a >= 1, a <= 2], run,
                 dict(bi=b, pi=p, amount=a), _rep(check_box_images, "bi", "pi", "amount"))]


def check_large_radius(ci, ri, batch):
    """radius far beyond the extent of the atoms: every atom is within reach"""
    import biotite.structure as struc
    pts = [POINTS[i] for i in (0, 1, 6, 7)]
    cs, r = CELL_SIZES[ci], [50.0, 200.0, 1000.0, 5000.0][ri]
    cl = struc.CellList(np.array(pts, dtype=np.float32), cs)
    q = np.array([[1, 1, 1], [-2, 0, 5]][:2 if batch else 1], dtype=np.float32)
    try:
        got = cl.get_atoms(q if batch else q[0], r)
    except (MemoryError, ValueError) as e:
        return f"get_atoms(radius {r}) on a cell list with cell size {cs}: {type(e).__name__}: {e}"
    rows = got if batch else [got]
    for row in rows:
        if sorted(row[row != -1].tolist()) != [0, 1, 2, 3]:
            return f"get_atoms(radius {r}) = {row.tolist()}, expected all four atoms"
    return None


def ob_large_radius(tier):
    c, r, b = z3.Ints("c r b")

    def run():
        ex = cur()
        return check_large_radius(ex.choose(c, range(len(CELL_SIZES))), ex.choose(r, range(4)), ex.choose(b, (0, 1))) is None
    # (2 * ceil(r / cs) + 1)^3 slots of 4 bytes per query: beyond ~100 cell layers the allocation fails or the C int
    # holding the slot count overflows
    ratio_big = z3.Or(*[z3.And(c == ci, r == ri) for ci, cs in enumerate(CELL_SIZES) for ri, rad in enumerate([50.0, 200.0, 1000.0, 5000.0])
                        if rad / cs > 100])
    return [Case("radius far beyond the extent", [c >= 0, c < len(CELL_SIZES), r >= 0, r < 4, b >= 0, b <= 1], run,
                 dict(ci=c, ri=r, batch=b), _rep(check_large_radius, "ci", "ri", "batch"),
                 known=[("C14-large-radius-allocation", ratio_big, dict(ci=1, ri=2, batch=0),
                         "get_atoms with radius / cell_size beyond ~100..645: worst-case result buffer (2r+1)^3 * max_cell_length overflows a C int (ValueError: negative dimensions) or cannot be allocated (MemoryError)")])]
