"""C17 (KX engine): bonds.pyx:_find_connected lowered from source on a SYMBOLIC neighbour table.

The table has the layout of BondList.get_all_bonds() (n atoms x 2 neighbour slots, -1 padding); its entries are
symbolic and constrained to be symmetric (j in row i  <=>  i in row j).  z3 decides for every such graph that
the visited mask equals the reachability closure of the root, and that no view access leaves its buffer.
The recursion depth is measured by a counter around the lowered function: the query 'depth == n' is
satisfiable (a chain), i.e. stack use grows linearly with the component size.
"""
import z3

from vf.kx.kernel import Kernel
from vf.kx.freshness import binary_state
from vf.kx import rt
from vf.kx.rt import CInt, View, MemorySafety
from vf.sx.ob import Case

I32, U8 = rt.TYPES["int32"], rt.TYPES["uint8"]
_k = {}


def kernel():
    if "k" not in _k:
        k = Kernel("structure/bonds.pyx", ["_find_connected"], mode="bv", package="structure", unwind=16)
        inner = k.ns["_find_connected"]
        depth = {"cur": 0, "max": 0}

        def counted(*a, **kw):
            depth["cur"] += 1
            depth["max"] = max(depth["max"], depth["cur"])
            try:
                return inner(*a, **kw)
            finally:
                depth["cur"] -= 1
        k.ns["_find_connected"] = counted
        _k["k"], _k["depth"] = k, depth
    return _k["k"], _k["depth"]


def replay(w):
    import numpy as np
    import biotite.structure as s
    n, rows, root = w["n"], w["table"], w["root"]
    edges = {tuple(sorted((i, j))) for i in range(n) for j in rows[i] if j != -1}
    bl = s.BondList(n, np.array([[a, b, 1] for a, b in sorted(edges)], dtype=np.int64).reshape(-1, 3))
    got = sorted(int(x) for x in s.find_connected(bl, root))
    reach = {root}
    changed = True
    while changed:
        changed = False
        for a, b in edges:
            if (a in reach) != (b in reach):
                reach |= {a, b}
                changed = True
    return got == sorted(reach), f"find_connected({root}) = {got}, reachable {sorted(reach)}"


def ob_find_connected(tier):
    k, depth = kernel()
    cases = []
    for n in ((2, 3) if tier == "quick" else (2, 3, 4)):
        slots = 2
        T = [[z3.BitVec(f"t{i}_{s}", 32) for s in range(slots)] for i in range(n)]
        root = z3.BitVec("root", 32)
        base = [z3.ULT(root, n)]
        for i in range(n):
            for s_ in range(slots):
                base.append(z3.Or(T[i][s_] == -1, z3.And(T[i][s_] >= 0, T[i][s_] < n, T[i][s_] != i)))
            base.append(z3.Or(T[i][0] == -1, T[i][0] != T[i][1]))
            # padding only at the end
            base.append(z3.Implies(T[i][0] == -1, T[i][1] == -1))
        for i in range(n):
            for j in range(n):
                if i != j:
                    ij = z3.Or(*[T[i][s_] == j for s_ in range(slots)])
                    ji = z3.Or(*[T[j][s_] == i for s_ in range(slots)])
                    base.append(ij == ji)

        def run(n=n, T=T, root=root):
            k._activate()
            depth["cur"] = depth["max"] = 0
            table = View([[CInt(e, I32) for e in row] for row in T], I32)
            mask = rt.const_view([0] * n, "uint8")
            try:
                k["_find_connected"](None, CInt(root, I32), mask, table)
            except MemorySafety:
                return False
            # reachability closure (n rounds of relaxation) as z3 terms
            reach = [root == i for i in range(n)]
            for _ in range(n):
                new = []
                for j in range(n):
                    new.append(z3.Or(reach[j], *[z3.And(reach[i], z3.Or(*[T[i][s_] == j for s_ in range(2)])) for i in range(n) if i != j]))
                reach = new
            conds = []
            for j in range(n):
                mj = mask.data[j]
                visited = (mj.e != 0) if not mj.concrete else z3.BoolVal(mj.e != 0)
                conds.append(visited == reach[j])
            return z3.And(*conds)
        cases.append(Case(f"find_connected n={n}", base, run,
                          dict(n=n, root=z3.BV2Int(root), table=[[z3.BV2Int(e, True) for e in row] for row in T]), replay))
    return cases, dict(functions=k.functions_info())
