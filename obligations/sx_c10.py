"""C10 (E-class on the compiled align modules): k-mer tables return exactly the matching triples; selectors obey
their definitions.

Every configuration (alphabet size, k, spacing model, reference sequences, query, masks, bucket count, similarity
matrix and threshold, window, s, offsets, permutation) is a tuple of z3 integers that the explorer case-splits;
the compiled classes are run on each and compared with plain set/loop definitions written here."""
import itertools
import pickle

import numpy as np
import z3

from vf.sx.core import cur
from vf.sx.ob import Case

LETTERS = "abcdefgh"
# (alphabet size, k, spacing model)
CONFIGS = [(2, 2, None), (2, 3, None), (2, 2, "101"), (3, 2, None), (2, 3, "1101"), (2, 2, "1001"), (4, 2, None), (3, 3, None), (3, 2, "1001")]
MASKS = [None, (0,), (1,), (2,), (0, 3), (3,), (4,)]      # positions ignored in a sequence (clipped to its length)
BUCKETS = (1, 2, 3, 7)
# reference sequences for the matching obligations (symbols taken modulo the alphabet size): repeats, runs, short ones
REF_MENU = [[0, 1, 0, 1, 0, 1, 0], [0, 0, 0, 0, 0, 0], [0, 1, 1, 0, 1, 1, 0, 0], [1, 0, 0, 1, 0], [0, 1, 2, 0, 1, 2, 1],
            [2, 2, 1, 0, 0, 1, 2, 3], [3, 1, 3, 1, 2], [1, 1, 1, 1]]


def _rep(f, *keys):
    def g(w):
        try:
            r = f(*[w[k] for k in keys])
            return r is None, str(r)
        except Exception as e:
            import traceback
            return False, f"{type(e).__name__}: {e} | {traceback.format_exc()[-500:]}"
    return g


def offsets(k, spacing):
    return list(range(k)) if spacing is None else [i for i, c in enumerate(spacing) if c == "1"]


def digits(A, L, c):
    out = []
    for _ in range(L):
        out.append(c % A)
        c //= A
    return out[::-1]


def nseq(A, lmin, lmax):
    return sum(A ** l for l in range(lmin, lmax + 1))


def seq_by_index(A, lmin, lmax, idx):
    """idx-th sequence of length lmin..lmax in length-lexicographic order"""
    for l in range(lmin, lmax + 1):
        if idx < A ** l:
            return digits(A, l, idx)
        idx -= A ** l
    raise IndexError(idx)


def index_of(A, lmin, codes):
    return sum(A ** l for l in range(lmin, len(codes))) + kmer_code(A, codes)


def span_of(ci):
    A, k, spacing = CONFIGS[ci]
    return offsets(k, spacing)[-1] + 1


def fit_lmax(A, lmin, budget):
    """largest lmax >= lmin with at most `budget` sequences of length lmin..lmax"""
    L = lmin
    while nseq(A, lmin, L + 1) <= budget:
        L += 1
    return L


def split(case, var, values, mod=None):
    """one case per value of `var` (or of `var % mod`): the explorer's partition for parallel workers"""
    out = []
    for v in values:
        cond = (var == v) if mod is None else (var % mod == v)
        out.append(Case(f"{case.label} [{var}{'' if mod is None else ' mod ' + str(mod)}={v}]", list(case.base) + [cond], case.run,
                        case.witness, case.replay, known=case.known, timeout=case.timeout))
    return out


def split2(case, var1, values1, var2, mod2):
    return [c2 for c1 in split(case, var1, values1) for c2 in split(c1, var2, range(mod2), mod2)]


def alphabet(A):
    from biotite.sequence import Alphabet
    return Alphabet(list(LETTERS[:A]))


def mkseq(A, codes):
    from biotite.sequence import GeneralSequence
    s = GeneralSequence(alphabet(A))
    s.code = np.array(codes, dtype=np.uint8)
    return s


def kmer_code(A, syms):
    c = 0
    for s in syms:
        c = c * A + s
    return c


def model_entries(A, k, spacing, codes, ref_id, ignored=()):
    """[(kmer code, ref id, position)] of one sequence, k-mers touching an ignored informative position dropped"""
    off = offsets(k, spacing)
    span = off[-1] + 1
    out = []
    for p in range(len(codes) - span + 1):
        if any(p + o in ignored for o in off):
            continue
        out.append((kmer_code(A, [codes[p + o] for o in off]), ref_id, p))
    return out


def table_entries(t, nk):
    out = []
    for kmer in range(nk):
        for ref, pos in t[kmer].tolist():
            out.append((kmer, ref, pos))
    return sorted(out)


def ignore_mask(n, ignored):
    if ignored is None:
        return None
    m = np.zeros(n, dtype=bool)
    for i in ignored:
        if i < n:
            m[i] = True
    return m


def clip(ignored, n):
    return () if ignored is None else tuple(i for i in ignored if i < n)


def build_tables(A, k, spacing, refs, ref_ids, ignored, nb):
    """every way to build the same index: {name: table}; `ignored` per reference (or None)"""
    from biotite.sequence.align import KmerTable, BucketKmerTable, KmerAlphabet
    kalph = KmerAlphabet(alphabet(A), k, spacing)
    off = offsets(k, spacing)
    span = off[-1] + 1
    seqs = [mkseq(A, r) for r in refs]
    masks = [ignore_mask(len(r), ig) for r, ig in zip(refs, ignored)]
    use_masks = None if all(m is None for m in masks) else masks
    kmers = [kalph.create_kmers(s.code) if len(s) >= span else np.zeros(0, dtype=np.int64) for s in seqs]
    kmasks = []
    for r, ig in zip(refs, ignored):
        n = max(0, len(r) - span + 1)
        kmasks.append(np.array([not any(p + o in clip(ig, len(r)) for o in off) for p in range(n)], dtype=bool))
    positions = [np.where(m)[0].astype(np.uint32) for m in kmasks]
    selected = [km[p] for km, p in zip(kmers, positions)]
    tables = {}
    for cls, extra, tag in [(KmerTable, {}, "direct")] + ([(BucketKmerTable, dict(n_buckets=nb), f"bucket{nb}")] if nb else []):
        t = tables[f"{tag}.from_sequences"] = cls.from_sequences(k, seqs, ref_ids, use_masks, alphabet(A), spacing, **extra)
        tables[f"{tag}.from_kmers"] = cls.from_kmers(kalph, kmers, ref_ids, kmasks, **extra)
        tables[f"{tag}.from_kmer_selection"] = cls.from_kmer_selection(kalph, positions, selected, ref_ids, **extra)
        singles = [cls.from_sequences(k, [s], [i], None if m is None else [m], alphabet(A), spacing, **extra)
                   for s, i, m in zip(seqs, ref_ids, masks)]
        tables[f"{tag}.from_tables"] = cls.from_tables(singles)
        tables[f"{tag}.pickle"] = pickle.loads(pickle.dumps(t))
        if cls is KmerTable:
            tables[f"{tag}.from_positions"] = cls.from_positions(kalph, {km: t[km] for km in t})
    return kalph, tables


def check_tables(ci, i0, i1, mi, lmax, lmax1, all_buckets=False):
    """all builders give the model's entry set; count / get_kmers / iteration / lookup / equality agree with it"""
    from biotite.sequence.align import KmerTable
    A, k, spacing = CONFIGS[ci]
    lmin = span_of(ci)
    refs = [seq_by_index(A, lmin, lmax, i0), seq_by_index(A, lmin, lmax1, i1)]
    ignored = [MASKS[mi], MASKS[(mi * 2) % len(MASKS)]]
    ref_ids = [5, 2]
    want = sorted(model_entries(A, k, spacing, refs[0], 5, clip(ignored[0], len(refs[0])))
                  + model_entries(A, k, spacing, refs[1], 2, clip(ignored[1], len(refs[1]))))
    nk = A ** k
    counts = [sum(1 for e in want if e[0] == km) for km in range(nk)]
    if spacing is not None and mi == 0:
        # a spacing model may also be given as a list of informative positions, in any order: same alphabet, same k-mers,
        # same tables as the '10..1' string
        from biotite.sequence.align import KmerAlphabet, BucketKmerTable
        off = offsets(k, spacing)
        ref_alph = KmerAlphabet(alphabet(A), k, spacing)
        ref_kmers = ref_alph.create_kmers(np.array(refs[0], dtype=np.uint8)).tolist()
        for form in (list(off), list(off)[::-1], list(off)[1:] + list(off)[:1], np.array(list(off)[::-1])):
            ka = KmerAlphabet(alphabet(A), k, form)
            if ka != ref_alph or ka.kmer_array_length(len(refs[0])) != ref_alph.kmer_array_length(len(refs[0])):
                return f"KmerAlphabet with spacing {list(form)} differs from the one with spacing {spacing!r}"
            if ka.create_kmers(np.array(refs[0], dtype=np.uint8)).tolist() != ref_kmers:
                return f"k-mers with spacing {list(form)}: {ka.create_kmers(np.array(refs[0], dtype=np.uint8)).tolist()} vs {ref_kmers}"
            for cls, extra in ((KmerTable, {}), (BucketKmerTable, dict(n_buckets=3))):
                tl = cls.from_sequences(k, [mkseq(A, refs[0])], [5], None, alphabet(A), list(form), **extra)
                if table_entries(tl, nk) != sorted(model_entries(A, k, spacing, refs[0], 5)):
                    return f"{cls.__name__} built with spacing {list(form)}: {table_entries(tl, nk)}"
    for nb in (BUCKETS if all_buckets else (BUCKETS[(i0 + i1) % len(BUCKETS)],)):
        kalph, tables = build_tables(A, k, spacing, refs, ref_ids, ignored, nb)
        for name, t in tables.items():
            if all_buckets and nb != BUCKETS[0] and name.startswith("direct"):
                continue
            got = table_entries(t, nk)
            if got != want:
                return f"{name}: entries {got}, expected {want}"
            if len(t) != nk:
                return f"{name}: len {len(t)}"
            if sorted(t.get_kmers().tolist()) != sorted({e[0] for e in want}):
                return f"{name}: get_kmers {t.get_kmers().tolist()}"
            if t.count(np.arange(nk)).tolist() != counts:
                return f"{name}: count(all) {t.count(np.arange(nk)).tolist()} vs {counts}"
            sel = np.array([nk - 1, 0, nk - 1], dtype=np.int64)
            if t.count(sel).tolist() != [counts[nk - 1], counts[0], counts[nk - 1]]:
                return f"{name}: count(selection)"
            if isinstance(t, KmerTable):
                if t.count().tolist() != counts:
                    return f"{name}: count() {t.count().tolist()}"
                if [km for km in t] != sorted({e[0] for e in want}):
                    return f"{name}: iteration {[km for km in t]}"
                if [km in t for km in range(nk)] != [c > 0 for c in counts]:
                    return f"{name}: __contains__"
        groups = {}
        for name, t in tables.items():
            groups.setdefault(name.split(".")[0], []).append((name, t))
        for tag, members in groups.items():
            ref = members[0][1]
            # same content => equal as sets of entries; the classes define == on the stored arrays, whose order
            # depends on insertion order: only builders with the same insertion order are required to be ==
            for name, t in members:
                if name.endswith(("from_kmers", "pickle")) and not (t == ref):
                    return f"{name} != {members[0][0]}"
    return None


def model_matches(entries, A, k, spacing, query, qignored=(), similar=None):
    """{(query pos, ref id, ref pos)}"""
    out = set()
    for qk, _, qp in model_entries(A, k, spacing, query, 0, qignored):
        for km, ref, pos in entries:
            if (km == qk) if similar is None else (km in similar[qk]):
                out.add((qp, ref, pos))
    return out


def check_match(ci, i0, i1, iq, mi, lmax, qmax):
    from biotite.sequence.align import KmerTable, BucketKmerTable
    A, k, spacing = CONFIGS[ci]
    lmin = span_of(ci)
    refs = [[c % A for c in REF_MENU[i0]], [c % A for c in REF_MENU[i1][::-1]]]
    query = seq_by_index(A, max(0, lmin - 2), qmax, iq)
    ignored = [MASKS[mi], None]
    qignored = MASKS[(mi * 3) % len(MASKS)]
    ref_ids = [7, 0]
    entries = (model_entries(A, k, spacing, refs[0], 7, clip(ignored[0], len(refs[0])))
               + model_entries(A, k, spacing, refs[1], 0))
    span = offsets(k, spacing)[-1] + 1
    nb = BUCKETS[(i0 + i1 + iq) % len(BUCKETS)]
    kalph, tables = build_tables(A, k, spacing, refs, ref_ids, ignored, nb)
    qseq = mkseq(A, query)
    for qi in (None, qignored):
        want = sorted(model_matches(entries, A, k, spacing, query, clip(qi, len(query))))
        for name, t in tables.items():
            try:
                m = t.match(qseq, ignore_mask=ignore_mask(len(query), qi))
            except ValueError as e:
                if len(query) < span:
                    continue            # a query shorter than the k-mer span has no k-mers: refusing it is allowed
                return f"{name}.match raised {e}"
            got = sorted(map(tuple, m.tolist()))
            if got != want:
                return f"{name}.match(mask {qi}) = {got}, expected {want}"
            if m.tolist() != sorted(m.tolist(), key=lambda r: r[0]):
                return f"{name}.match not ordered by query position"
            if len(set(map(tuple, m.tolist()))) != len(m):
                return f"{name}.match has duplicate rows"
    # table vs table: cartesian product per k-mer
    qentries = model_entries(A, k, spacing, query, 3, clip(qignored, len(query)))
    want4 = sorted((qr, qp, r, p) for qk, qr, qp in qentries for km, r, p in entries if km == qk)
    for cls, extra in ((KmerTable, {}), (BucketKmerTable, dict(n_buckets=nb))):
        if len(query) < span:
            continue
        qt = cls.from_sequences(k, [qseq], [3], [ignore_mask(len(query), qignored)], alphabet(A), spacing, **extra)
        for name, t in tables.items():
            if type(t) is not cls:
                continue
            got = sorted(map(tuple, t.match_table(qt).tolist()))
            if got != want4:
                return f"{name}.match_table = {got}, expected {want4}"
    # selection of query k-mers
    if len(query) >= span:
        qk = kalph.create_kmers(qseq.code)
        pos = np.array([p for p in range(len(qk)) if p % 2 == 0], dtype=np.uint32)
        want = sorted((int(p), r, rp) for p in pos for km, r, rp in entries if km == qk[p])
        for name, t in tables.items():
            got = sorted(map(tuple, t.match_kmer_selection(pos, qk[pos]).tolist()))
            if got != want:
                return f"{name}.match_kmer_selection = {got}, expected {want}"
    return None


# ------------------------------------------------------------------------------------- similarity
MATRICES = {
    2: [[[2, -1], [-1, 2]], [[1, 3], [3, 0]], [[0, 0], [0, 0]], [[-2, 1], [1, 4]]],
    3: [[[2, -1, 0], [-1, 2, 1], [0, 1, 2]], [[-1, 0, 3], [0, 1, 0], [3, 0, -1]], [[4, 2, -3], [2, 0, 1], [-3, 1, 5]]],
}


def check_similarity(A, k, mi, thr, nb):
    from biotite.sequence.align import KmerTable, BucketKmerTable, KmerAlphabet, ScoreThresholdRule, SubstitutionMatrix
    M = MATRICES[A][mi % len(MATRICES[A])]
    alph = alphabet(A)
    rule = ScoreThresholdRule(SubstitutionMatrix(alph, alph, np.array(M, dtype=np.int32)), thr)
    kalph = KmerAlphabet(alph, k)
    nk = A ** k
    similar = {}
    for km in range(nk):
        a = digits(A, k, km)
        similar[km] = {o for o in range(nk) if sum(M[x][y] for x, y in zip(a, digits(A, k, o))) >= thr}
        got = sorted(rule.similar_kmers(kalph, km).tolist())
        if got != sorted(similar[km]):
            return f"similar_kmers({km}) = {got}, expected {sorted(similar[km])} (matrix {M}, threshold {thr})"
    # matching with the rule: reference contains every k-mer once (de-Bruijn-like concatenation), query likewise
    ref = [s for km in range(nk) for s in digits(A, k, km)]
    query = ref[::-1]
    entries = model_entries(A, k, None, ref, 4)
    want = sorted(model_matches(entries, A, k, None, query, (), similar))
    qentries = model_entries(A, k, None, query, 9)
    want4 = sorted((qr, qp, r, p) for qk, qr, qp in qentries for km, r, p in entries if km in similar[qk])
    for cls, extra in ((KmerTable, {}), (BucketKmerTable, dict(n_buckets=nb))):
        t = cls.from_sequences(k, [mkseq(A, ref)], [4], **extra)
        got = sorted(map(tuple, t.match(mkseq(A, query), similarity_rule=rule).tolist()))
        if got != want:
            return f"{cls.__name__}.match with rule: {len(got)} rows, expected {len(want)}; missing {sorted(set(want) - set(got))[:3]} extra {sorted(set(got) - set(want))[:3]}"
        # the rule together with an ignore mask on the query
        for qi in ((1,), (0, len(query) - 1), tuple(range(2, len(query), 3))):
            want_m = sorted(model_matches(entries, A, k, None, query, qi, similar))
            got = sorted(map(tuple, t.match(mkseq(A, query), similarity_rule=rule, ignore_mask=ignore_mask(len(query), qi)).tolist()))
            if got != want_m:
                return (f"{cls.__name__}.match with rule and ignore mask {qi}: {len(got)} rows, expected {len(want_m)}; missing "
                        f"{sorted(set(want_m) - set(got))[:3]} extra {sorted(set(got) - set(want_m))[:3]}")
        qt = cls.from_sequences(k, [mkseq(A, query)], [9], **extra)
        got = sorted(map(tuple, t.match_table(qt, similarity_rule=rule).tolist()))
        if got != want4:
            return f"{cls.__name__}.match_table with rule: {len(got)} rows, expected {len(want4)}; missing {sorted(set(want4) - set(got))[:3]} extra {sorted(set(got) - set(want4))[:3]}"
    return None


# -------------------------------------------------------------------------------------- selectors
def make_permutation(kind, kalph):
    from biotite.sequence.align import RandomPermutation, FrequencyPermutation, Permutation
    n = len(kalph)
    if kind == 0:
        return None, (lambda c: c), 0, n
    if kind == 1:
        p = RandomPermutation()
        f = lambda c: ((0xd1342543de82ef95 * c + 1 + 2 ** 63) % 2 ** 64) - 2 ** 63
        return p, f, -2 ** 63, 2 ** 64
    if kind == 2:
        counts = [(7 * c + 3) % 5 for c in range(n)]
        p = FrequencyPermutation(kalph, np.array(counts))
        order = sorted(range(n), key=lambda c: (counts[c], c))
        rank = {c: r for r, c in enumerate(order)}
        return p, (lambda c: rank[c]), 0, n

    class Reverse(Permutation):
        @property
        def min(self):
            return -n

        @property
        def max(self):
            return -1

        def permute(self, kmers):
            return -(np.asarray(kmers).astype(np.int64)) - 1
    return Reverse(), (lambda c: -c - 1), -n, n


def check_selectors(A, k, par, perm, idx, lmax):
    from biotite.sequence.align import (KmerAlphabet, MinimizerSelector, SyncmerSelector, CachedSyncmerSelector,
                                       MincodeSelector)
    codes = seq_by_index(A, max(0, k - 1), lmax, idx)
    alph = alphabet(A)
    kalph = KmerAlphabet(alph, k)
    seq = mkseq(A, codes)
    kmers = [kmer_code(A, codes[p:p + k]) for p in range(len(codes) - k + 1)]
    p_obj, key, pmin, prange = make_permutation(perm, kalph)
    # --- minimizers: leftmost minimum in every window of `w` k-mers, duplicates omitted
    w = 2 + par % 3
    sel = MinimizerSelector(kalph, w, p_obj)
    if len(kmers) >= w:
        want = []
        for s in range(len(kmers) - w + 1):
            win = [key(c) for c in kmers[s:s + w]]
            pos = s + win.index(min(win))
            if not want or want[-1] != pos:
                want.append(pos)
        for how in ("select", "select_from_kmers"):
            pos, got = sel.select(seq) if how == "select" else sel.select_from_kmers(np.array(kmers, dtype=np.int64))
            if pos.tolist() != want or got.tolist() != [kmers[p] for p in want]:
                return f"MinimizerSelector(window {w}, perm {perm}).{how}: positions {pos.tolist()} k-mers {got.tolist()}, expected {want}"
    else:
        try:
            pos, _ = sel.select(seq)
            return f"MinimizerSelector on {len(kmers)} k-mers with window {w} returned {pos.tolist()}"
        except ValueError:
            pass
    # --- syncmers: the (leftmost) minimum s-mer of the k-mer sits at one of the offsets
    s_len = 2 + par % (k - 2) if k > 2 else 0
    nwin = k - s_len + 1
    offs = [(0,), (-1,), (0, -1), (1 % nwin,)][(par // 3) % 4]
    if s_len and len(set(o % nwin for o in offs)) == len(offs):
        salph = KmerAlphabet(alph, s_len)
        p_s, key_s, _, _ = make_permutation(perm, salph)
        allowed = {o % nwin for o in offs}
        want = []
        for p in range(len(kmers)):
            sm = [key_s(kmer_code(A, codes[p + j:p + j + s_len])) for j in range(nwin)]
            if sm.index(min(sm)) in allowed:
                want.append(p)
        for cls in (SyncmerSelector, CachedSyncmerSelector):
            sel = cls(alph, k, s_len, p_s, offs)
            if len(codes) >= k:
                for how in ("select", "select_from_kmers"):
                    pos, got = sel.select(seq) if how == "select" else sel.select_from_kmers(np.array(kmers, dtype=np.int64))
                    if pos.tolist() != want or got.tolist() != [kmers[p] for p in want]:
                        return f"{cls.__name__}(k {k}, s {s_len}, offset {offs}, perm {perm}).{how}: {pos.tolist()}, expected {want}"
    # --- min-code: permuted code below min + range / compression
    for comp in (1, 1.5, 2, 3, 4):
        sel = MincodeSelector(kalph, comp, p_obj)
        thr = pmin + prange / comp
        if abs(sel.threshold - thr) > abs(thr) * 1e-12:
            return f"MincodeSelector threshold {sel.threshold}, expected {thr}"
        exact = [key(c) < sel.threshold for c in kmers]
        if len(codes) >= k:
            for how in ("select", "select_from_kmers"):
                pos, got = sel.select(seq) if how == "select" else sel.select_from_kmers(np.array(kmers, dtype=np.int64))
                pos = np.where(pos)[0].tolist() if pos.dtype == bool else pos.tolist()
                wantp = [p for p, e in enumerate(exact) if e]
                if pos != wantp:
                    # codes whose float64 image equals the threshold may fall on either side (documented float threshold)
                    near = [p for p in set(pos) ^ set(wantp) if float(key(kmers[p])) != sel.threshold]
                    if near:
                        return f"MincodeSelector(compression {comp}, perm {perm}).{how}: {pos}, expected {wantp} (threshold {sel.threshold})"
                if got.tolist() != [kmers[p] for p in pos]:
                    return f"MincodeSelector.{how}: k-mers do not belong to the positions"
    return None


# --------------------------------------------------------------------------------------- large codes
def check_large_codes(k, lead, nb, what):
    """k-mer codes above 2^32 (large alphabet x k) in the bucketed table: lookup, count, match agree"""
    from biotite.sequence import Alphabet, GeneralSequence
    from biotite.sequence.align import BucketKmerTable
    A = 200
    alph = Alphabet(list(range(A)))

    def mk(codes):
        s = GeneralSequence(alph)
        s.code = np.array(codes, dtype=np.uint8)
        return s
    ref = [lead, 1, 2, 3, 4, 5, 6, lead, 1, 2, 3, 4, 5][:k + 4]
    t = BucketKmerTable.from_sequences(k, [mk(ref)], [1], n_buckets=nb)
    entries = model_entries(A, k, None, ref, 1)
    for km in sorted({e[0] for e in entries}):
        want = sorted((r, p) for c, r, p in entries if c == km)
        if what == 0:
            got = sorted(map(tuple, t[km].tolist()))
            if got != want:
                return f"BucketKmerTable[{km}] = {got}, expected {want} (code {'>=' if km >= 2 ** 32 else '<'} 2^32)"
        elif t.count(np.array([km])).tolist() != [len(want)]:
            return f"count({km})"
    if what == 0:
        return None
    if sorted(t.get_kmers().tolist()) != sorted({e[0] for e in entries}):
        return "get_kmers"
    query = ref[1:] + [lead]
    want = sorted(model_matches(entries, A, k, None, query))
    got = sorted(map(tuple, t.match(mk(query)).tolist()))
    if got != want:
        return f"match = {got}, expected {want}"
    return None


# ---------------------------------------------------------------------------------------- obligations
def known_spaced_mask(ci, m, wit):
    """region of the recorded finding: spaced k-mers with any ignore mask (mask selector != 0)"""
    if CONFIGS[ci][2] is None:
        return []
    return [("C10-spaced-kmer-mask", m != 0, wit, "spaced k-mers with an ignore mask: _to_kmer_mask reads mask[j + offset]")]


def ob_tables(tier):
    cases = []
    quick = tier == "quick"
    for ci, (A, k, spacing) in enumerate(CONFIGS):
        if quick and ci >= 6:
            continue
        lmin = span_of(ci)
        lmax, lmax1 = fit_lmax(A, lmin, 50 if quick else 100), fit_lmax(A, lmin, 16 if quick else 50)
        n, n1 = nseq(A, lmin, lmax), nseq(A, lmin, lmax1)
        i0, i1, m = z3.Ints("i0 i1 m")
        nm = 3 if quick else len(MASKS)

        def run(ci=ci, n=n, n1=n1, lmax=lmax, lmax1=lmax1, nm=nm, i0=i0, i1=i1, m=m, ab=not quick):
            ex = cur()
            return check_tables(ci, ex.choose(i0, range(n)), ex.choose(i1, range(n1)), ex.choose(m, range(nm)), lmax, lmax1, ab) is None
        wit = dict(ci=ci, i0=index_of(A, lmin, ([0, 1] * 4)[:lmin + 1]), i1=0, mi=1, lmax=max(lmax, lmin + 1), lmax1=lmax1, ab=not quick)
        c = Case(f"tables A={A} k={k} spacing={spacing}", [i0 >= 0, i0 < n, i1 >= 0, i1 < n1, m >= 0, m < nm], run,
                 dict(ci=ci, i0=i0, i1=i1, mi=m, lmax=lmax, lmax1=lmax1, ab=not quick),
                 _rep(check_tables, "ci", "i0", "i1", "mi", "lmax", "lmax1", "ab"), known=known_spaced_mask(ci, m, wit))
        cases.extend(split2(c, m, range(nm), i1, 4))
    return cases


def ob_match(tier):
    cases = []
    quick = tier == "quick"
    for ci, (A, k, spacing) in enumerate(CONFIGS):
        if quick and ci >= 6:
            continue
        lmin = span_of(ci)
        lmax, qmax = 0, fit_lmax(A, max(0, lmin - 2), 64 if quick else 250)
        n, n1, nq = len(REF_MENU), (4 if quick else len(REF_MENU)), nseq(A, max(0, lmin - 2), qmax)
        i0, i1, q, m = z3.Ints("i0 i1 q m")
        nm = 2 if quick else 4

        def run(ci=ci, n=n, n1=n1, nq=nq, lmax=lmax, qmax=qmax, nm=nm, i0=i0, i1=i1, q=q, m=m):
            ex = cur()
            return check_match(ci, ex.choose(i0, range(n)), ex.choose(i1, range(n1)), ex.choose(q, range(nq)),
                               ex.choose(m, range(nm)), lmax, qmax) is None
        wit = dict(ci=ci, i0=0, i1=0, iq=index_of(A, max(0, lmin - 2), ([0, 1] * 4)[:min(lmin + 1, qmax)]), mi=1, lmax=lmax, qmax=qmax)
        c = Case(f"match A={A} k={k} spacing={spacing}",
                 [i0 >= 0, i0 < n, i1 >= 0, i1 < n1, q >= 0, q < nq, m >= 0, m < nm], run,
                 dict(ci=ci, i0=i0, i1=i1, iq=q, mi=m, lmax=lmax, qmax=qmax),
                 _rep(check_match, "ci", "i0", "i1", "iq", "mi", "lmax", "qmax"), known=known_spaced_mask(ci, m, wit))
        cases.extend(split2(c, m, range(nm), i0, 4))
    return cases


def ob_similarity(tier):
    cases = []
    for A, k in ((2, 2), (2, 3), (3, 2)) + (() if tier == "quick" else ((3, 3), (2, 4))):
        mi, thr, nb = z3.Ints("mi thr nb")
        nmat = len(MATRICES[A])
        lo, hi = -3 * k, 5 * k + 1

        def run(A=A, k=k, nmat=nmat, lo=lo, hi=hi, mi=mi, thr=thr, nb=nb):
            ex = cur()
            return check_similarity(A, k, ex.choose(mi, range(nmat)), ex.choose(thr, range(lo, hi + 1)), ex.choose(nb, (1, 2, 3, 5))) is None
        c = Case(f"similarity A={A} k={k}", [mi >= 0, mi < nmat, thr >= lo, thr <= hi, z3.Or(nb == 1, nb == 2, nb == 3, nb == 5)], run,
                 dict(A=A, k=k, mi=mi, thr=thr, nb=nb), _rep(check_similarity, "A", "k", "mi", "thr", "nb"))
        cases.extend(split(c, mi, range(nmat)))
    return cases


def ob_selectors(tier):
    cases = []
    quick = tier == "quick"
    for A, k in ((2, 2), (2, 3), (3, 2), (2, 4)) + (() if quick else ((3, 3), (4, 2), (4, 3))):
        lmax = fit_lmax(A, max(0, k - 1), 64 if quick else 400)
        n = nseq(A, max(0, k - 1), lmax)
        par, perm, idx = z3.Ints("par perm idx")
        npar = 12

        def run(A=A, k=k, n=n, lmax=lmax, npar=npar, par=par, perm=perm, idx=idx):
            ex = cur()
            return check_selectors(A, k, ex.choose(par, range(npar)), ex.choose(perm, range(4)), ex.choose(idx, range(n)), lmax) is None
        c = Case(f"selectors A={A} k={k}", [par >= 0, par < npar, perm >= 0, perm < 4, idx >= 0, idx < n], run,
                 dict(A=A, k=k, par=par, perm=perm, idx=idx, lmax=lmax),
                 _rep(check_selectors, "A", "k", "par", "perm", "idx", "lmax"))
        cases.extend(split2(c, perm, range(4), par, 3))
    return cases


def ob_large_codes(tier):
    k, lead, nb, what = z3.Ints("k lead nb what")

    def run():
        ex = cur()
        return check_large_codes(ex.choose(k, (3, 4, 5, 6)), ex.choose(lead, (0, 1, 2, 57, 199)), ex.choose(nb, (1, 7, 101)),
                                 ex.choose(what, (0, 1))) is None
    return [Case("bucketed table, k-mer codes around 2^32",
                 [k >= 3, k <= 6, z3.Or(*[lead == v for v in (0, 1, 2, 57, 199)]), z3.Or(nb == 1, nb == 7, nb == 101), what >= 0, what <= 1],
                 run, dict(k=k, lead=lead, nb=nb, what=what), _rep(check_large_codes, "k", "lead", "nb", "what"),
                 known=[("C10-bucket-getitem-32bit", z3.And(k >= 5, what == 0), dict(k=5, lead=2, nb=7, what=0),
                         "BucketKmerTable[kmer] compares only the low 32 bits of the stored k-mer code: codes >= 2^32 are never found")])]
