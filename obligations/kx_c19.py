"""C19 (KX engine, real-number semantics): upgma.pyx:upgma and nj.pyx:neighbor_joining lowered from source over
symbolic distance matrices.

Distances are exact rationals with symbolic integer numerators (vf/kx/rat.py): the float32 rounding of the
implementation is outside this obligation, the algorithm is not.  Tree / TreeNode are replaced by a plain node model
(the real classes are compiled; they are exercised by the E obligations of C19).

  ob_upgma : every symmetric matrix over n taxa (entries m/4, 0 <= m <= LIM): every index is one leaf; all leaves
             have the same depth; every merge joins the two clusters of minimum average distance and places the node
             at half that distance (average linkage over the ORIGINAL matrix, i.e. the proportional update is right).
  ob_nj    : every additive matrix of the 4- and 5-leaf topologies with symbolic branch lengths: the path length
             between any two leaves of the returned tree equals the matrix entry, every index is one leaf.
"""
import itertools

import z3

from vf.kx.kernel import Kernel, SymArray, _SymNP, _DType
from vf.kx.freshness import binary_state
from vf.kx import rt
from vf.kx.rt import CInt, View
from vf.kx.rat import CRat
from vf.sx.ob import Case

U8 = rt.TYPES["uint8"]
_k = {}


class TNode:
    def __init__(self, children=None, distances=None, index=None):
        self.children = None if children is None else tuple(children)
        self.distances = None if distances is None else tuple(distances)
        self.index = index.e if isinstance(index, CInt) else index


class TTree:
    def __init__(self, root):
        self.root = root


class _Any:
    def __init__(self, v):
        self.v = v

    def any(self):
        return self.v


class Dist:
    """the `distances` argument: shape, .T, comparisons used by the validation prelude, astype -> float32 view"""

    def __init__(self, rows):
        self.rows = rows
        self.shape = (len(rows), len(rows))
        self.T = self

    def __len__(self):
        return len(self.rows)

    def __ge__(self, o):
        return _Any(False)           # entries are bounded by the harness

    def __lt__(self, o):
        return _Any(False)           # entries are >= 0 by the harness

    def astype(self, dtype, copy=True):
        return FArr2([list(r) for r in self.rows])


class FArr2(SymArray):
    def __init__(self, rows):
        SymArray.__init__(self, rows, None)


class _ObjArr:
    def __init__(self, items):
        self.items = list(items)

    def _i(self, i):
        return i.e if isinstance(i, CInt) else i

    def __getitem__(self, i):
        return self.items[self._i(i)]

    def __setitem__(self, i, v):
        self.items[self._i(i)] = v

    def __len__(self):
        return len(self.items)


class _Mask:
    def __init__(self, bits):
        self.bits = bits

    def __invert__(self):
        return _Mask([not b for b in self.bits])


class _PNP(_SymNP):
    float32 = _DType("float32")

    def allclose(self, a, b):
        return True                 # the matrix is symmetric by construction

    def isnan(self, a):
        return _Any(False)

    def array(self, rows, dtype=None):
        if dtype is None:
            return _ObjArr(rows)
        return _SymNP.array(self, rows, dtype)

    def full(self, shape, fill, dtype=None):
        return _SymNP.full(self, shape, int(fill) if isinstance(fill, bool) else fill, dtype)

    def zeros(self, shape, dtype=None):
        name = dtype.name if isinstance(dtype, _DType) else str(dtype)
        if name.startswith("float"):
            dims = shape if isinstance(shape, tuple) else (shape,)
            dims = [int(d.e if isinstance(d, CInt) else d) for d in dims]
            if len(dims) == 1:
                return FArr2([CRat(0) for _ in range(dims[0])])
            return FArr2([[CRat(0) for _ in range(dims[1])] for _ in range(dims[0])])
        return _SymNP.zeros(self, shape, dtype)

    def asarray(self, x, dtype=None):
        if dtype is bool and isinstance(x, View):
            return _Mask([bool(int(v.e if isinstance(v, CInt) else v)) for v in x.data])
        return x

    def count_nonzero(self, x):
        data = x.data if isinstance(x, View) else x.bits
        return sum(1 for v in data if int(v.e if isinstance(v, CInt) else v))

    def where(self, m):
        return ([i for i, b in enumerate(m.bits) if b],)


def kernel(which):
    if which not in _k:
        path = {"upgma": "sequence/phylo/upgma.pyx", "neighbor_joining": "sequence/phylo/nj.pyx"}[which]
        _k[which] = Kernel(path, [which], mode="int", package="sequence.phylo", unwind=32,
                           extra_ns=dict(np=_PNP(), TreeNode=TNode, Tree=TTree, MAX_FLOAT=CRat(2 ** 127)))
    return _k[which]


def run_kernel(which, D):
    k = kernel(which)
    k._activate()
    rt.FLOAT_DOMAIN = lambda x: CRat(x.e if isinstance(x, CInt) else x)
    try:
        return k[which](Dist(D))
    finally:
        rt.FLOAT_DOMAIN = None


def state(which):
    k = kernel(which)
    return binary_state(k.path, [(m["lineno"], m["nlines"]) for m in k.meta.values()])


# ------------------------------------------------------------------------------- tree helpers
def leaves(node):
    if node.children is None:
        return [node.index]
    return [x for c in node.children for x in leaves(c)]


def leaf_depths(node, acc=None, out=None):
    """{leaf index: path length from `node` as CRat}"""
    acc = CRat(0) if acc is None else acc
    out = {} if out is None else out
    if node.children is None:
        out[node.index] = acc
        return out
    for c, d in zip(node.children, node.distances):
        leaf_depths(c, acc + d, out)
    return out


def term(x):
    """CRat -> z3 real term"""
    n = x.n if not isinstance(x.n, int) else z3.IntVal(x.n)
    return z3.ToReal(n) / x.d


def path_lengths(root):
    """{(a, b): CRat path length} for all leaf pairs of a rooted tree given as TNode"""
    out = {}

    def rec(node):
        if node.children is None:
            return {node.index: CRat(0)}
        maps = []
        for c, d in zip(node.children, node.distances):
            maps.append({i: v + d for i, v in rec(c).items()})
        for x, y in itertools.combinations(range(len(maps)), 2):
            for a, va in maps[x].items():
                for b, vb in maps[y].items():
                    out[(a, b)] = out[(b, a)] = va + vb
        merged = {}
        for m in maps:
            merged.update(m)
        return merged
    rec(root)
    return out


# ------------------------------------------------------------------------------- replay on the compiled modules
def _real_tree_paths(tree, n):
    return {(a, b): tree.get_distance(a, b) for a in range(n) for b in range(n) if a != b}


def real_upgma(w):
    import numpy as np
    from biotite.sequence.phylo import upgma
    if state("upgma") != "fresh":
        return source_upgma(w)
    D = np.array(w["D"], dtype=float)
    n = len(D)
    tree = upgma(D)
    if sorted(l.index for l in tree.leaves) != list(range(n)):
        return False, f"leaves {sorted(l.index for l in tree.leaves)}"
    msg = _check_upgma_concrete(tree.root, D, lambda nd: nd.children, lambda nd: [c.distance for c in nd.children], lambda nd: nd.index)
    return msg is None, str(msg)


def _check_upgma_concrete(root, D, kids, dists, index):
    import numpy as np

    def rec(node):
        ch = kids(node)
        if not ch:
            return [index(node)], 0.0
        parts = [rec(c) for c in ch]
        ds = dists(node)
        height = parts[0][1] + ds[0]
        for (idx, h), d in zip(parts, ds):
            if abs(h + d - height) > 1e-4:
                raise AssertionError(f"children of a node at different heights ({h + d} vs {height})")
        avg = float(np.mean([D[a][b] for a in parts[0][0] for b in parts[1][0]]))
        if abs(height - avg / 2) > 1e-4:
            raise AssertionError(f"merge height {height} != half the average linkage distance {avg / 2}")
        return parts[0][0] + parts[1][0], height
    try:
        rec(root)
    except AssertionError as e:
        return str(e)
    return None


def source_upgma(w):
    D = [[CRat(float(x)) for x in row] for row in w["D"]]
    tree = run_kernel("upgma", D)
    fl = lambda x: float(x.n) / x.d
    msg = _check_upgma_concrete(tree.root, w["D"], lambda nd: nd.children or (), lambda nd: [fl(d) for d in nd.distances], lambda nd: nd.index)
    if sorted(leaves(tree.root)) != list(range(len(D))):
        return False, "[source-level] leaves"
    return msg is None, f"[source-level] {msg}"


def real_nj(w):
    import numpy as np
    from biotite.sequence.phylo import neighbor_joining
    if state("neighbor_joining") != "fresh":
        return source_nj(w)
    D = np.array(w["D"], dtype=float)
    n = len(D)
    tree = neighbor_joining(D)
    if sorted(l.index for l in tree.leaves) != list(range(n)):
        return False, f"leaves {sorted(l.index for l in tree.leaves)}"
    for a in range(n):
        for b in range(n):
            if a != b and abs(tree.get_distance(a, b) - D[a, b]) > 1e-3:
                return False, f"path length ({a},{b}) = {tree.get_distance(a, b)}, matrix {D[a, b]}"
    return True, "ok"


def source_nj(w):
    D = [[CRat(float(x)) for x in row] for row in w["D"]]
    tree = run_kernel("neighbor_joining", D)
    pl = path_lengths(tree.root)
    n = len(D)
    for a in range(n):
        for b in range(n):
            if a != b and abs(float(pl[(a, b)].n) / pl[(a, b)].d - w["D"][a][b]) > 1e-9:
                return False, f"[source-level] path length ({a},{b}) = {float(pl[(a, b)].n) / pl[(a, b)].d}, matrix {w['D'][a][b]}"
    return sorted(leaves(tree.root)) == list(range(n)), "[source-level] leaves"


def validate():
    notes = []
    for which, real, src, vecs in (
            ("upgma", real_upgma, source_upgma, [[[0, 1, 7, 7, 9], [1, 0, 7, 6, 8], [7, 7, 0, 2, 4], [7, 6, 2, 0, 3], [9, 8, 4, 3, 0]],
                                                 [[0, 2, 2], [2, 0, 2], [2, 2, 0]], [[0, 0.5], [0.5, 0]]]),
            ("neighbor_joining", real_nj, source_nj, [[[0, 5, 9, 9, 8], [5, 0, 10, 10, 9], [9, 10, 0, 8, 7], [9, 10, 8, 0, 3], [8, 9, 7, 3, 0]],
                                                      [[0, 3, 4, 5], [3, 0, 5, 6], [4, 5, 0, 3], [5, 6, 3, 0]]])):
        st = state(which)
        if st != "fresh":
            notes.append(f"{which}: skipped (binary_state={st})")
            continue
        for D in vecs:
            a, b = src(dict(D=D)), real(dict(D=D))
            if a[0] != b[0]:
                raise AssertionError(f"translator: {which} {D}: lowered {a} vs compiled {b}")
        notes.append(f"{which}: {len(vecs)} concrete matrices, lowered source and compiled module agree")
    return "; ".join(notes)


# ------------------------------------------------------------------------------- obligations
def ob_upgma(tier):
    k = kernel("upgma")
    cases = []
    LIM = 40
    for n in ((2, 3, 4) if tier == "quick" else (2, 3, 4, 5)):
        pairs = list(itertools.combinations(range(n), 2))
        V = {p: z3.Int(f"d{p[0]}{p[1]}") for p in pairs}
        base = [z3.And(v >= 0, v <= LIM) for v in V.values()]

        def run(n=n, pairs=pairs, V=V):
            D = [[CRat(0, 4) if a == b else CRat(V[(min(a, b), max(a, b))], 4) for b in range(n)] for a in range(n)]
            tree = run_kernel("upgma", D)
            root = tree.root
            if sorted(leaves(root)) != list(range(n)):
                return False
            conds = []
            # replay the merges bottom-up: clusters present at each merge are the maximal subtrees built so far; the
            # kernel builds nodes in merge order, so order the internal nodes by height ties are irrelevant for the claims
            def avg(A, B):
                s = CRat(0, 4)
                for a in A:
                    for b in B:
                        s = s + D[a][b]
                return s / (len(A) * len(B))

            def rec(node):
                if node.children is None:
                    return [node.index], CRat(0)
                (la, ha), (lb, hb) = rec(node.children[0]), rec(node.children[1])
                height = ha + node.distances[0]
                conds.append(term(hb + node.distances[1]) == term(height))          # both children end at the same height
                conds.append(term(height) * 2 == term(avg(la, lb)))                  # height = half the average linkage
                conds.append(term(node.distances[0]) >= 0)
                conds.append(term(node.distances[1]) >= 0)
                return la + lb, height
            rec(root)
            # minimality: when a node was created, no pair of then-existing clusters was strictly closer.  The clusters
            # existing at that time are reconstructed from the merge order = order of creation recorded by the node model
            order = sorted(_internal(root), key=lambda nd: nd.serial)
            clusters = [[i] for i in range(n)]
            for nd in order:
                la, lb = sorted(leaves(nd.children[0])), sorted(leaves(nd.children[1]))
                cur = avg(la, lb)
                for X, Y in itertools.combinations(clusters, 2):
                    conds.append(term(avg(X, Y)) >= term(cur))
                clusters = [c for c in clusters if sorted(c) not in (la, lb)] + [la + lb]
            return z3.And(*conds)
        cases.append(Case(f"upgma over the reals, n={n}", base, run,
                          dict(D=[[0 if a == b else z3.ToReal(V[(min(a, b), max(a, b))]) / 4 for b in range(n)] for a in range(n)]),
                          real_upgma, timeout=900))
    return cases, dict(functions=k.functions_info(), note=validate())


_serial = [0]
_orig_init = TNode.__init__


def _init(self, children=None, distances=None, index=None):
    _orig_init(self, children, distances, index)
    _serial[0] += 1
    self.serial = _serial[0]


TNode.__init__ = _init


def _internal(node):
    if node.children is None:
        return []
    return [node] + [x for c in node.children for x in _internal(c)]


# unrooted topologies as nested tuples of leaf indices; each edge gets a symbolic length
TOPOLOGIES = {
    4: [((0, 1), (2, 3)), ((0, 2), (1, 3)), ((0, 3), (1, 2))],
    5: [(((0, 1), 2), (3, 4)), (((0, 2), 4), (1, 3)), (((1, 4), 0), (2, 3)), (((3, 4), 1), (0, 2))],
}


def additive(topo, n, mk):
    """distance matrix of the tree `topo` with one symbolic length per edge: {(a,b): linear z3 term}, [edge vars]"""
    edges = []

    def rec(t):
        """returns {leaf: [edge vars on the path to this subtree's root]}"""
        if isinstance(t, int):
            return {t: []}
        out = {}
        for c in t:
            e = mk(len(edges))
            edges.append(e)
            for leaf, path in rec(c).items():
                out[leaf] = path + [e]
        return out
    paths = rec(topo)
    D = {}
    for a in range(n):
        for b in range(n):
            if a != b:
                common = 0
                pa, pb = paths[a][::-1], paths[b][::-1]
                while common < len(pa) and common < len(pb) and pa[common] is pb[common]:
                    common += 1
                D[(a, b)] = sum(pa[common:] + pb[common:])
    return D, edges


def ob_nj(tier):
    k = kernel("neighbor_joining")
    cases = []
    LIM = 20
    for n in (4, 5):
        for ti, topo in enumerate(TOPOLOGIES[n]):
            D, edges = additive(topo, n, lambda i: z3.Int(f"e{i}"))
            base = [z3.And(e >= 0, e <= LIM) for e in edges]

            def run(n=n, D=D):
                M = [[CRat(0, 2) if a == b else CRat(D[(a, b)], 2) for b in range(n)] for a in range(n)]
                tree = run_kernel("neighbor_joining", M)
                if sorted(leaves(tree.root)) != list(range(n)):
                    return False
                pl = path_lengths(tree.root)
                return z3.And(*[term(pl[(a, b)]) == term(M[a][b]) for a in range(n) for b in range(a)])
            cases.append(Case(f"neighbor joining over the reals, additive matrices of topology {topo}", base, run,
                              dict(D=[[0 if a == b else z3.ToReal(D[(a, b)]) / 2 for b in range(n)] for a in range(n)]),
                              real_nj, timeout=900))
    return cases, dict(functions=k.functions_info(), note=validate())


# ------------------------------------------------------------------------------- Newick writer -> parser
from vf.sx.core import SStr, SInt, cur, Escape as _Escape      # noqa: E402


class NNode:
    """stands for the compiled TreeNode: fields as the lowered to_newick / from_newick use them"""
    to_newick = None
    from_newick = None

    def __init__(self, children=None, distances=None, index=None):
        self._distance = 0.0
        if index is None:
            self._index = -1
            self._children = tuple(children)
            for c, d in zip(children, distances):
                c._distance = d
        else:
            self._index = index
            self._children = None

    def is_leaf(self):
        return self._children is None


def _sx_float(x):
    if isinstance(x, SStr):
        s = x.concrete_text() if hasattr(x, "concrete_text") else None
        if s is None:
            cs = []
            for c in x.cs:
                if not isinstance(c, int):
                    raise _Escape("float() of a string with symbolic characters")
                cs.append(chr(c))
            s = "".join(cs)
        return float(s)
    return float(x)


def newick_kernel():
    if "newick" not in _k:
        from biotite import InvalidFileError
        k = Kernel("sequence/phylo/tree.pyx", [("TreeNode", "to_newick"), ("TreeNode", "from_newick")], mode="int",
                   package="sequence.phylo", unwind=32,
                   extra_ns=dict(TreeNode=NNode, InvalidFileError=InvalidFileError, float=_sx_float))
        NNode.to_newick = lambda self, labels=None, include_distance=True, round_distance=None: k["to_newick"](self, labels, include_distance, round_distance)
        NNode.from_newick = staticmethod(lambda newick, labels=None: k["from_newick"](newick, labels))
        _k["newick"] = k
    return _k["newick"]


SHAPES = [((0, 1.0), (1, 2.5)), (((( 0, 0.5), (1, 1.0)), 2.0), (2, 0.25)), ((0, 1.0), (1, 2.0), (2, 4.0)), ((((0, 1.0),), 0.5), (1, 3.0))]


def build(shape, cls):
    if isinstance(shape, int):
        return cls(index=shape)
    return cls(children=[build(c, cls) for c, _ in shape], distances=[d for _, d in shape])


def same_tree(a, shape):
    if isinstance(shape, int):
        return a.is_leaf() and a._index == shape
    if a.is_leaf() or len(a._children) != len(shape):
        return False
    r = True
    for c, (s, d) in zip(a._children, shape):
        r = r and c._distance == d and same_tree(c, s)
    return r


def nleaves(shape):
    return 1 if isinstance(shape, int) else sum(nleaves(c) for c, _ in shape)


def real_newick(w):
    from biotite.sequence.phylo import Tree, TreeNode
    shape, labels, incl = SHAPES[w["shape"]], w["labels"], w["include_distance"]
    st = binary_state(newick_kernel().path, [(m["lineno"], m["nlines"]) for m in newick_kernel().meta.values()])
    if st != "fresh":
        return source_newick(w)
    tree = Tree(build(shape, TreeNode))
    try:
        text = tree.to_newick(labels=labels, include_distance=incl)
    except ValueError as e:
        return True, f"writer refuses the labels: {e}"
    try:
        back = Tree.from_newick(text, labels=labels)
    except Exception as e:
        return False, f"from_newick({text!r}, labels={labels!r}) raised {type(e).__name__}: {e}"
    ok = [l.index for l in back.leaves] == [l.index for l in tree.leaves] and (back == tree if incl else back.to_newick(include_distance=False) == tree.to_newick(include_distance=False))
    return ok, f"{text!r} -> {back.to_newick(labels=labels, include_distance=incl)!r}"


def source_newick(w):
    k = newick_kernel()
    k._activate()
    shape, labels, incl = SHAPES[w["shape"]], w["labels"], w["include_distance"]
    try:
        text = build(shape, NNode).to_newick(labels, incl)
    except ValueError as e:
        return True, f"[source-level] writer refuses the labels: {e}"
    try:
        back, _ = NNode.from_newick(text, labels)
    except Exception as e:
        return False, f"[source-level] from_newick({text!r}) raised {type(e).__name__}: {e}"
    return bool(same_tree(back, shape)) if incl else True, f"[source-level] {text!r}"


ILLEGAL = [ord(c) for c in ",:;()"]


def ob_newick(tier):
    k = newick_kernel()
    cases = []
    for si, shape in enumerate(SHAPES):
        n = nleaves(shape)
        for lens in ([(1,) * n, (2,) + (1,) * (n - 1)] if tier == "quick" else [(1,) * n, (2,) + (1,) * (n - 1), (2,) * n, (3,) + (1,) * (n - 1)]):
            for incl in (True, False):
                L = [[z3.Int(f"l{i}_{j}") for j in range(lens[i])] for i in range(n)]
                base = [z3.And(c >= 32, c <= 126, *[c != x for x in ILLEGAL]) for lab in L for c in lab]
                # labels are distinct (leaf identity is the position of the label in the list)
                for a, b in itertools.combinations(range(n), 2):
                    if len(L[a]) == len(L[b]):
                        base.append(z3.Or(*[x != y for x, y in zip(L[a], L[b])]))

                def run(shape=shape, L=L, incl=incl, n=n):
                    k._activate()
                    labels = [SStr(list(lab)) for lab in L]
                    try:
                        text = build(shape, NNode).to_newick(labels, incl)
                    except ValueError:
                        return True          # the writer refuses the labels: nothing is emitted
                    try:
                        back, _ = NNode.from_newick(text, labels)
                    except (ValueError, IndexError):
                        return False
                    if incl:
                        return bool(same_tree(back, shape))
                    return [l for l in _leaf_indices(back)] == list(range(n)) or sorted(_leaf_indices(back)) == sorted(_shape_leaves(shape))
                wit = dict(shape=si, labels=[_LabelTerm(lab) for lab in L], include_distance=incl)
                cases.append(Case(f"newick round trip shape {si} label lengths {lens} distances {'kept' if incl else 'omitted'}", base, run, wit, real_newick,
                                  known=[("C19-newick-label-whitespace", z3.Or(*[c == 32 for lab in L for c in lab]),
                                          dict(shape=si, labels=["a b"[:max(len(L[0]), 3)] if len(L[0]) >= 3 else (" " * len(L[0]))] + [chr(98 + i) * len(L[i]) for i in range(1, n)], include_distance=incl),
                                          "labels containing whitespace are written verbatim but the parser removes all whitespace before looking them up")]))
    return cases, dict(functions=k.functions_info(), note="TreeNode replaced by a field-compatible node model; float()/str() of branch lengths are concrete")


def _leaf_indices(node):
    if node.is_leaf():
        return [node._index]
    return [x for c in node._children for x in _leaf_indices(c)]


def _shape_leaves(shape):
    return [shape] if isinstance(shape, int) else [x for c, _ in shape for x in _shape_leaves(c)]


class _LabelTerm(list):
    """list of z3 character terms; the engine's conc() turns lists into lists of ints -> joined by the replay"""


_real_newick_inner = real_newick


def real_newick(w):      # noqa: F811
    w = dict(w)
    w["labels"] = ["".join(chr(c) for c in lab) if isinstance(lab, list) else lab for lab in w["labels"]]
    return _real_newick_inner(w)
