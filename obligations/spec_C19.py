from vf.sx.ob import SX

P = "src/biotite/sequence/phylo/"
OBLIGATIONS = [
    SX("kx_upgma", "kx_c19", "ob_upgma", cls="S", engine="KX", quick=300, thorough=1800, parts={"quick": 3, "thorough": 4},
       functions=[P + "upgma.pyx:upgma"],
       stubs=["REAL-number semantics: float32 values as exact rationals m/4 (vf/kx/rat.py): no rounding",
              "Tree/TreeNode (compiled classes) -> plain node model; the numpy validation prelude (allclose/isnan/comparisons) is answered for a symmetric finite non-negative matrix"],
       bounds="n = 2..4 (thorough 5) taxa, EVERY symmetric matrix with entries m/4, 0 <= m <= 40 symbolic (ties included): every index one leaf; children of a node end at the same height; node height = half the average-linkage distance of the two merged clusters over the ORIGINAL matrix; branch lengths >= 0; no other pair of clusters present at a merge was closer"),
    SX("kx_nj", "kx_c19", "ob_nj", cls="S", engine="KX", quick=300, thorough=900, parts={"quick": 4, "thorough": 7},
       functions=[P + "nj.pyx:neighbor_joining"],
       stubs=["REAL-number semantics (exact rationals)", "Tree/TreeNode -> plain node model; numpy prelude as for kx_upgma"],
       bounds="all 3 unrooted topologies on 4 leaves and 4 topologies on 5 leaves, every edge length symbolic in 0..20 (halves; zero-length edges = ties included): the matrix is the tree metric; claim: every index one leaf and every leaf-to-leaf path length of the returned tree equals the matrix entry"),
    SX("kx_newick", "kx_c19", "ob_newick", cls="S", engine="KX", quick=300, thorough=900, parts={"quick": 8, "thorough": 16},
       functions=[P + "tree.pyx:TreeNode.to_newick", P + "tree.pyx:TreeNode.from_newick"],
       stubs=["TreeNode -> field-compatible node model (_index, _distance, _children, is_leaf)", "str()/float() of branch lengths are concrete (dyadic menu)",
              "strings: concrete length, symbolic ASCII characters (vf/sx SStr)"],
       bounds="4 tree shapes (binary, nested, ternary, single-child), label lengths 1..2 (thorough ..3) with EVERY printable ASCII character except the five the writer rejects, labels distinct; with and without distances: parse(write(tree, labels), labels) has the same shape, leaf indices and branch lengths; a ValueError of the writer counts as refusal"),
    SX("sx_trees", "sx_c19", "ob_trees", cls="E", quick=300, thorough=900, parts={"quick": 4, "thorough": 8},
       functions=[P + "tree.pyx:Tree/TreeNode (compiled): to_newick, from_newick, copy, get_distance, distance_to, lowest_common_ancestor, __eq__/__hash__, as_binary"],
       bounds="10 tree shapes (binary, multifurcating, single-child nodes and chains of them - also directly below multifurcations, 2..5 leaves, dyadic branch lengths) x 6 (thorough 24) leaf labelings: Newick round trip with / without labels, without distances, with whitespace; copy; binary form; all leaf-to-leaf distances vs explicit path sums; LCA"),
    SX("sx_clustering", "sx_c19", "ob_clustering", cls="E", quick=300, thorough=1200, parts={"quick": 4, "thorough": 5},
       functions=[P + "upgma.pyx:upgma (compiled)", P + "nj.pyx:neighbor_joining (compiled)"],
       bounds="UPGMA: every symmetric matrix over n = 2..4 (thorough 5) taxa with entries from a 3-5 value menu (ties included): every index one leaf, ultrametric, merge height = half average linkage; NJ: additive matrices of 3 tree shapes x 8 (24) labelings, with duplicated taxa (zero distances) and the all-zero matrix: every path length reproduced"),
    SX("sx_upgma_large", "sx_c19", "ob_upgma_large", cls="E", quick=200, parts=1,
       functions=[P + "upgma.pyx:upgma (compiled)"],
       bounds="300 and 600 taxa on a line in well separated groups (cluster sizes beyond 255 and 511): every index one leaf; the top merges sit at half the average-linkage distance"),
]
EXPLANATION = "C19: trees contain every taxon once and keep distances through Newick."
ASSUMPTIONS = []
