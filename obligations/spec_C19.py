from vf.sx.ob import SX

P = "src/biotite/sequence/phylo/"
OBLIGATIONS = [
    SX("sx_trees", "sx_c19", "ob_trees", cls="E", quick=300, thorough=900, parts={"quick": 4, "thorough": 8},
       functions=[P + "tree.pyx:Tree/TreeNode (compiled): to_newick, from_newick, copy, get_distance, distance_to, lowest_common_ancestor, __eq__/__hash__, as_binary"],
       bounds="8 tree shapes (binary, multifurcating, single-child nodes and chains of them, 2..5 leaves, dyadic branch lengths) x 6 (thorough 24) leaf labelings: Newick round trip with / without labels, without distances, with whitespace; copy; binary form; all leaf-to-leaf distances vs explicit path sums; LCA"),
    SX("sx_clustering", "sx_c19", "ob_clustering", cls="E", quick=300, thorough=1200, parts={"quick": 4, "thorough": 5},
       functions=[P + "upgma.pyx:upgma (compiled)", P + "nj.pyx:neighbor_joining (compiled)"],
       bounds="UPGMA: every symmetric matrix over n = 2..4 (thorough 5) taxa with entries from a 3-5 value menu (ties included): every index one leaf, ultrametric, merge height = half average linkage; NJ: additive matrices of 3 tree shapes x 8 (24) labelings, with duplicated taxa (zero distances) and the all-zero matrix: every path length reproduced"),
]
EXPLANATION = "C19: trees contain every taxon once and keep distances through Newick."
ASSUMPTIONS = []
