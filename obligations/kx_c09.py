"""C09 (KX engine): ungapped seed extension kernels of localungapped.pyx over symbolic scores.

_seed_extend_generic and _seed_extend_uint8 are lowered from source; codes and the substitution matrix
are symbolic, the threshold is symbolic >= 0.  Asserted for every input: the returned (score, length) is
the prefix sum at that length (honest score), never exceeds the maximum prefix sum (unrestricted optimum),
equals it when the threshold cannot bind, length is the LAST position attaining the running maximum before
the first drop beyond the threshold (definition), and both variants agree.
"""
import z3

from vf.kx.kernel import Kernel
from vf.kx.freshness import binary_state
from vf.kx import rt
from vf.kx.rt import CInt, View, MemorySafety
from vf.sx.ob import Case

I32, U8 = rt.TYPES["int32"], rt.TYPES["uint8"]
_k = {}


def kernel():
    if "k" not in _k:
        _k["k"] = Kernel("sequence/align/localungapped.pyx", ["_seed_extend_generic", "_seed_extend_uint8", "_min"], mode="int",
                         fused={"CodeType1": "uint8", "CodeType2": "uint8"}, package="sequence.align")
    return _k["k"]


def state():
    k = kernel()
    return binary_state(k.path, [(m["lineno"], m["nlines"]) for m in k.meta.values()])


def model(scores, thr):
    """definition: walk the prefix sums; stop at the first position where the drop below the running maximum exceeds
    the threshold; report the maximum and the last position attaining it"""
    total, best, ibest = 0, 0, -1
    for i, s in enumerate(scores):
        total += s
        if total >= best:
            best, ibest = total, i
        elif best - total > thr:
            break
    return best, ibest + 1


def replay(w):
    import numpy as np
    from biotite.sequence import Alphabet, GeneralSequence
    from biotite.sequence.align import SubstitutionMatrix, align_local_ungapped
    c1, c2, mat, thr = w["code1"], w["code2"], w["matrix"], w["threshold"]
    scores = [mat[a][b] for a, b in zip(c1, c2)]
    want = model(scores, thr)
    if state() != "fresh":
        k = kernel()
        k._activate()
        s, l = k["_seed_extend_generic"](rt.const_view(c1, "uint8"), rt.const_view(c2, "uint8"), rt.const_view(mat, "int32"), thr)
        return (int(s), int(l)) == want, f"[source-level] ({int(s)}, {int(l)}) vs definition {want}"
    # public API: a downstream extension from an artificial seed position 0 (seed symbol scores 0)
    A = len(mat)
    alph = Alphabet(list(range(A + 1)))
    full = np.zeros((A + 1, A + 1), dtype=np.int32)
    full[:A, :A] = mat
    s1, s2 = GeneralSequence(alph), GeneralSequence(alph)
    s1.code = np.array([A] + c1, dtype=np.uint8)
    s2.code = np.array([A] + c2, dtype=np.uint8)
    aln = align_local_ungapped(s1, s2, SubstitutionMatrix(alph, alph, full), (0, 0), thr, direction="downstream")
    got = (int(aln.score), len(aln.trace) - 1)
    return got == want, f"align_local_ungapped gives (score, length) {got}, definition {want}"


def ob_seed_extend(tier):
    k = kernel()
    cases = []
    A = 2
    for n in ((0, 1, 2, 3, 4) if tier == "quick" else (0, 1, 2, 3, 4, 5, 6)):
        M = [[z3.Int(f"m{a}_{b}") for b in range(A)] for a in range(A)]
        c1 = [z3.BitVec(f"x{i}", 8) for i in range(n)]
        c2 = [z3.BitVec(f"y{i}", 8) for i in range(n)]
        thr = z3.Int("thr")
        Bd = 1 << 20
        base = [z3.And(e >= -Bd, e <= Bd) for row in M for e in row] + [z3.ULT(c, A) for c in c1 + c2] + [thr >= 0, thr <= 4 * Bd]

        def run(n=n, M=M, c1=c1, c2=c2, thr=thr):
            k._activate()
            code1 = View([CInt(c, U8) for c in c1], U8)
            code2 = View([CInt(c, U8) for c in c2], U8)
            matrix = View([[CInt(e, I32) for e in row] for row in M], I32)
            T = CInt(thr, I32)
            try:
                s, l = k["_seed_extend_generic"](code1, code2, matrix, T)
                cell = [None]
                l2 = k["_seed_extend_uint8"](code1, code2, matrix, T, cell)
            except MemorySafety:
                return False
            l = int(l) if not isinstance(l, int) else l
            l2 = int(l2) if not isinstance(l2, int) else l2

            def sc(i):
                r = M[0][0]
                for a in range(A):
                    for b in range(A):
                        r = z3.If(z3.And(c1[i] == a, c2[i] == b), M[a][b], r)
                return r
            P = [z3.IntVal(0)]
            for i in range(n):
                P.append(P[-1] + sc(i))
            se = s.as_int_term() if isinstance(s, CInt) else z3.IntVal(int(s))
            if cell[0] is None:
                return False            # the output parameter was not written
            s2 = cell[0].as_int_term() if isinstance(cell[0], CInt) else z3.IntVal(int(cell[0]))
            conds = [se == P[l], l == l2, s2 == se]                       # honest score; variants agree
            conds += [se >= p for p in P[:l + 1]]                            # maximum of the visited prefix
            conds += [z3.Implies(thr >= 4 * Bd - 0, z3.And(*[se >= p for p in P]))]   # threshold cannot bind
            conds += [se <= _max(P)]                                        # never above the unrestricted optimum
            # definition: the extension stops only after a drop beyond the threshold
            best, ib, stopped = z3.IntVal(0), z3.IntVal(0), z3.BoolVal(False)
            for i in range(n):
                t = P[i + 1]
                upd = z3.And(z3.Not(stopped), t >= best)
                drop = z3.And(z3.Not(stopped), z3.Not(t >= best), best - t > thr)
                best, ib, stopped = z3.If(upd, t, best), z3.If(upd, i + 1, ib), z3.Or(stopped, drop)
            conds += [se == best, ib == l]
            return z3.And(*[c if not isinstance(c, bool) else z3.BoolVal(c) for c in conds])
        cases.append(Case(f"seed extension n={n}", base, run,
                          dict(code1=[z3.BV2Int(c) for c in c1], code2=[z3.BV2Int(c) for c in c2], matrix=M, threshold=thr), replay))
    return cases, dict(functions=k.functions_info(), validation=validate())


def _max(ts):
    r = ts[0]
    for t in ts[1:]:
        r = z3.If(t > r, t, r)
    return r


def validate():
    if state() != "fresh":
        return f"skipped: binary_state={state()}"
    n = 0
    for w in [dict(code1=[0, 1, 1], code2=[0, 0, 1], matrix=[[2, -3], [-1, 4]], threshold=1),
              dict(code1=[1, 1, 0, 0], code2=[0, 1, 0, 1], matrix=[[5, -4], [-4, 5]], threshold=3),
              dict(code1=[0], code2=[1], matrix=[[1, -1], [-1, 1]], threshold=0)]:
        ok, obs = replay(w)
        k = kernel()
        k._activate()
        s, l = k["_seed_extend_generic"](rt.const_view(w["code1"], "uint8"), rt.const_view(w["code2"], "uint8"), rt.const_view(w["matrix"], "int32"), w["threshold"])
        want = model([w["matrix"][a][b] for a, b in zip(w["code1"], w["code2"])], w["threshold"])
        if not ok or (int(s), int(l)) != want:
            raise AssertionError(f"translator: {w}: lowered {(int(s), int(l))}, compiled: {obs}")
        n += 1
    return f"{n} concrete vectors: lowered kernels, compiled align_local_ungapped and the definition agree"
