"""C20: application wrappers follow their life cycle and always clean up.

The external program is the environment: subprocess.Popen inside biotite.application.localapp is
replaced by FakePopen, whose behaviour (launch failure, hang, exit code, what it writes into the
output files) is given by z3 variables that the explorer forks on; the call sequence is a list of
symbolic op-codes.  The code under check is the unmodified application package; the oracle is the
documented life-cycle automaton plus resource assertions (clean-up count, temp files, child process,
working directory) evaluated after every call.
"""
import os
import subprocess
import tempfile

import numpy as np
import z3

from vf.sx.core import cur
from vf.sx.ob import Case

import biotite.application.localapp as localapp
from biotite.application import AppState, AppStateError
from biotite.sequence import NucleotideSequence, ProteinSequence

SEQS = ["ACGTACGT", "ACGTCGT", "AGTACGT"]
PERMS = [(0, 1, 2), (0, 2, 1), (1, 0, 2), (1, 2, 0), (2, 0, 1), (2, 1, 0)]
GAPPED = ["ACGTACGT", "ACGT-CGT", "A-GTACGT"]
NEWICK = "((0:0.1,1:0.1):0.2,2:0.3);"


class Env:
    """behaviour of the external program for one run"""

    def __init__(self, launch_ok, hang, exit_ok, outkind, perm):
        self.launch_ok, self.hang, self.exit_ok, self.outkind, self.perm = launch_ok, hang, exit_ok, outkind, perm
        self.procs = []


# a failing run ends with an ordinary error code, with a signal (negative code, e.g. SIGSEGV) or with 255
FAIL_CODES = [1, -11, 255]


class FakePopen:
    env = None

    def __init__(self, command, stdin=None, stdout=None, stderr=None, encoding=None):
        env = FakePopen.env
        if not env.launch_ok:
            # a launch can fail in several ways: missing binary, a NUL character in a path, a non-string argument
            raise [FileNotFoundError(2, "No such file or directory", command[0]), ValueError("embedded null byte"),
                   TypeError("expected str, bytes or os.PathLike object, not int")][env.perm % 3]
        self.command = list(command)
        self.returncode = None
        self.killed = False
        self.reaped = False
        self.done = False
        env.procs.append(self)

    def _finish(self):
        env = FakePopen.env
        if self.done:
            return
        self.done = True
        self.returncode = 0 if env.exit_ok else FAIL_CODES[env.perm % 3]
        if env.outkind == 3:
            # the program removes the (pre-created) output file itself and writes nothing
            for flag in ("--out", "-out", "-output", "--guidetree-out", "-tree1", "-tree2"):
                if flag in self.command:
                    try:
                        os.remove(self.command[self.command.index(flag) + 1])
                    except FileNotFoundError:
                        pass
            self.stdout_text = ""
            return
        if not env.exit_ok and env.perm < 3:
            return                      # fails before writing anything; otherwise: complete output, then the failure
        text = self._alignment_text(env)
        cmd = self.command
        out = None
        for flag in ("--out", "-out", "-output"):
            if flag in cmd:
                out = cmd[cmd.index(flag) + 1]
        self.stdout_text = ""
        if out is not None:
            with open(out, "w") as f:
                f.write(text)
        else:                                   # MAFFT: alignment on stdout, tree next to the input file
            self.stdout_text = text
            with open(cmd[-1] + ".tree", "w") as f:
                f.write("(1_0:0.1,(2_1:0.1,3_2:0.1):0.2);\n" if env.outkind != 1 else "garbage")
        for flag in ("--guidetree-out", "-tree1", "-tree2"):
            if flag in cmd:
                with open(cmd[cmd.index(flag) + 1], "w") as f:
                    f.write(NEWICK if env.outkind != 1 else "((garbage")

    @staticmethod
    def _alignment_text(env):
        if env.outkind == 1:
            return "this is not a fasta file\n"
        if env.outkind == 2:
            return ""
        return "".join(f">{i}\n{GAPPED[i]}\n" for i in PERMS[env.perm])

    def poll(self):
        if FakePopen.env.hang and not self.killed:
            return None
        if self.killed:
            self.returncode = -9
            self.reaped = True
            return self.returncode
        self._finish()
        self.reaped = True
        return self.returncode

    def communicate(self, input=None, timeout=None):
        if FakePopen.env.hang and not self.killed:
            if timeout is not None:
                raise subprocess.TimeoutExpired(self.command, timeout)
            # a hanging program joined without timeout would block forever: the harness never does that
            raise RuntimeError("harness: join() without timeout on a hanging program")
        if self.killed:
            self.returncode = -9
            self.reaped = True
            return "", ""
        self._finish()
        self.reaped = True
        return getattr(self, "stdout_text", ""), ("" if FakePopen.env.exit_ok else "error message")

    def kill(self):
        self.killed = True

    def wait(self, timeout=None):
        self.reaped = True
        return self.returncode


def make_app(kind, counter):
    from biotite.application.clustalo import ClustalOmegaApp
    from biotite.application.mafft import MafftApp
    from biotite.application.muscle import MuscleApp, Muscle5App
    import biotite.application.muscle.app3 as app3
    import biotite.application.muscle.app5 as app5
    app3.get_version = lambda *a, **k: (3, 8)
    app5.get_version = lambda *a, **k: (5, 1)
    base = {"clustalo": ClustalOmegaApp, "mafft": MafftApp, "muscle3": MuscleApp, "muscle5": Muscle5App}[kind]

    class Counted(base):
        def clean_up(self):
            counter["clean_up"] += 1
            super().clean_up()
    seqs = [NucleotideSequence(s) for s in SEQS]
    return Counted(seqs, bin_path="/nonexistent/fake-" + kind)


def temp_paths(app):
    paths = []
    for v in vars(app).values():
        name = getattr(v, "name", None)
        if isinstance(name, str) and name.startswith(tempfile.gettempdir()):
            paths.append(name)
    return paths


OPS = ["start", "join", "join_timeout", "cancel", "get_app_state", "setter", "get_alignment", "get_exit_code",
       "get_alignment_order", "get_command", "get_stdout", "get_stderr"]


def run_sequence(kind, env_tuple, ops):
    """returns (ok, why)"""
    env = Env(*env_tuple)
    FakePopen.env = env
    old_popen = localapp.Popen
    localapp.Popen = FakePopen
    cwd0 = os.getcwd()
    exec_dir = tempfile.mkdtemp(prefix="vf_c20_")
    counter = {"clean_up": 0}
    app = make_app(kind, counter)
    paths = temp_paths(app)
    # the caller moves to another directory between creating and using the wrapper
    home = os.getcwd()
    work_dir = tempfile.mkdtemp(prefix="vf_c20w_")
    os.chdir(work_dir)
    cwd0 = os.getcwd()
    model = "CREATED"           # mirror of the documented automaton
    launched = False
    ended = False               # a run has ended (join / cancel / timeout / failure) -> clean-up must have run once
    joined_ok = False
    try:
        app.set_exec_dir(exec_dir)

        def refresh():
            nonlocal model
            if model == "RUNNING" and not env.hang:
                model = "FINISHED"

        for op in ops:
            name = OPS[op]
            allowed = {
                "start": model == "CREATED",
                "join": model in ("RUNNING", "FINISHED"),
                "join_timeout": model in ("RUNNING", "FINISHED"),
                "cancel": model in ("RUNNING", "FINISHED"),
                "get_app_state": True,
                "setter": model == "CREATED",
                "get_alignment": model == "JOINED",
                "get_alignment_order": model == "JOINED",
                "get_exit_code": model in ("FINISHED", "JOINED"),
                "get_command": model != "CREATED",
                "get_stdout": model in ("FINISHED", "JOINED"),
                "get_stderr": model in ("FINISHED", "JOINED"),
            }[name]
            if name == "join" and env.hang and allowed:
                continue        # would block forever with a real program: not part of the bounded exploration
            if not env.hang:
                # the program's own effects on its files (it finishes at the first poll; there is no real time here) belong
                # to the state before the call, not to the call
                for pr in env.procs:
                    pr._finish()
            before = (counter["clean_up"], [os.path.exists(p) for p in paths])
            try:
                if name == "start":
                    res = app.start()
                elif name == "join":
                    res = app.join()
                elif name == "join_timeout":
                    res = app.join(timeout=1)
                elif name == "cancel":
                    res = app.cancel()
                elif name == "get_app_state":
                    res = app.get_app_state()
                elif name == "setter":
                    res = app.add_additional_options(["-x"])
                elif name == "get_alignment":
                    res = app.get_alignment()
                elif name == "get_alignment_order":
                    res = app.get_alignment_order()
                elif name == "get_exit_code":
                    res = app.get_exit_code()
                elif name == "get_stdout":
                    res = app.get_stdout()
                elif name == "get_stderr":
                    res = app.get_stderr()
                elif name == "get_command":
                    res = app.get_command()
                exc = None
            except BaseException as e:      # noqa
                res, exc = None, e
            # ---- oracle
            if not allowed:
                if not isinstance(exc, AppStateError):
                    return False, f"{name} in state {model} must raise AppStateError, got {exc!r}"
                if (counter["clean_up"], [os.path.exists(p) for p in paths]) != before:
                    return False, f"rejected {name} in state {model} had side effects"
                refresh()       # the error message queries the state (documented observation, not a side effect)
            elif name == "start":
                if env.launch_ok:
                    if exc is not None:
                        return False, f"start raised {exc!r}"
                    model, launched = "RUNNING", True
                else:
                    if exc is None:
                        return False, "start with a missing binary did not raise"
                    ended = True
                    model = "FAILED"
            elif name in ("join", "join_timeout"):
                good = env.exit_ok and env.outkind == 0
                if env.hang:
                    if exc is None or "imeout" not in type(exc).__name__:
                        return False, f"join(timeout) on a hanging program: {exc!r}"
                    model, ended = "CANCELLED", True
                elif good:
                    if exc is not None:
                        return False, f"join raised {exc!r} although the program succeeded"
                    model, ended, joined_ok = "JOINED", True, True
                else:
                    if exc is None:
                        return False, "join succeeded although the program failed / wrote unparsable output"
                    if isinstance(exc, AppStateError):
                        return False, "join raised AppStateError"
                    model, ended = "CANCELLED", True
            elif name == "cancel":
                if exc is not None:
                    return False, f"cancel raised {exc!r}"
                model, ended = "CANCELLED", True
            elif name == "get_app_state":
                refresh()
                want = {"CREATED": AppState.CREATED, "RUNNING": AppState.RUNNING, "FINISHED": AppState.FINISHED,
                        "JOINED": AppState.JOINED, "CANCELLED": AppState.CANCELLED}.get(model)
                if model != "FAILED" and (exc is not None or res != want):
                    return False, f"get_app_state gave {res} / {exc!r}, documented state {model}"
            elif exc is not None:
                return False, f"{name} raised {exc!r} in state {model}"
            elif name == "get_alignment":
                got = res.get_gapped_sequences()
                if got != GAPPED or [str(s) for s in res.sequences] != SEQS:
                    return False, f"alignment {got} does not match the program output in input order"
            elif name == "get_alignment_order":
                if list(res) != list(PERMS[env.perm]):
                    return False, f"order {list(res)} != program output order {PERMS[env.perm]}"
            elif name == "get_exit_code":
                if res != (0 if env.exit_ok else FAIL_CODES[env.perm % 3]):
                    return False, f"exit code {res}"
            elif name == "get_stdout":
                if res != getattr(env.procs[-1], "stdout_text", ""):
                    return False, f"get_stdout() = {res!r}, the program wrote {getattr(env.procs[-1], 'stdout_text', '')!r}"
            elif name == "get_stderr":
                if res != ("" if env.exit_ok else "error message"):
                    return False, f"get_stderr() = {res!r}"
            # ---- resources after every call
            if os.getcwd() != cwd0:
                return False, f"working directory changed to {os.getcwd()} after {name}"
            if ended:
                if counter["clean_up"] != 1:
                    return False, f"clean_up ran {counter['clean_up']} times after the run ended by {name} (state {model})"
                left = [p for p in paths + [paths[0] + ".tree"] if os.path.exists(p)]
                if left:
                    return False, f"temporary files left behind after {name}: {left}"
                for p in env.procs:
                    if not (p.killed or p.reaped):
                        return False, f"child process neither killed nor reaped after {name}"
            if model == "FAILED":
                return True, "launch failed (checked)"
        return True, "ok"
    finally:
        localapp.Popen = old_popen
        os.chdir(home)
        try:
            os.rmdir(work_dir)
        except OSError:
            pass
        for p in paths + [paths[0] + ".tree"]:
            try:
                os.remove(p)
            except OSError:
                pass
        for v in vars(app).values():
            if hasattr(v, "close") and hasattr(v, "name"):
                try:
                    v.close()
                except Exception:
                    pass
        try:
            os.rmdir(exec_dir)
        except OSError:
            pass


def replay(w):
    try:
        ok, why = run_sequence(w["kind"], (w["launch_ok"], w["hang"], w["exit_ok"], w["outkind"], w["perm"]), w["ops"])
        return ok, why
    except Exception as e:
        import traceback
        return False, f"harness exception {type(e).__name__}: {e} {traceback.format_exc()[-300:]}"


def cases(tier, kind):
    k = (3 if kind == "clustalo" else 2) if tier == "quick" else (4 if kind == "clustalo" else 3)
    out = []
    # one case per first operation (per first two operations for longer sequences: cases are the unit of distribution over
    # the worker processes, and the sequences that begin with 'start' are by far the most expensive ones)
    heads = [(f, None) for f in range(len(OPS))] if k < 3 else [(f, g) for f in range(len(OPS)) for g in range(len(OPS))]
    for first, second in heads:
        ops = [z3.Int(f"op{i}") for i in range(k)]
        launch_ok, hang, exit_ok = z3.Bools("launch_ok hang exit_ok")
        outkind, perm = z3.Ints("outkind perm")
        base = ([ops[1] == second] if second is not None else []) + [ops[0] == first, outkind >= 0, outkind <= 3, perm >= 0, perm < 6,
                z3.Implies(z3.And(outkind != 0, outkind != 3), perm == 0), z3.Implies(outkind == 3, perm < 3),
                z3.Implies(z3.Not(launch_ok), z3.And(z3.Not(hang), exit_ok, outkind == 0)),
                z3.Implies(hang, z3.And(exit_ok, outkind == 0)), z3.Implies(z3.Not(exit_ok), z3.Or(outkind == 0, outkind == 3))]
        for o in ops:
            base += [o >= 0, o < len(OPS)]

        def run(ops=ops, launch_ok=launch_ok, hang=hang, exit_ok=exit_ok, outkind=outkind, perm=perm):
            ex = cur()
            seq = [ex.choose(o, range(len(OPS))) for o in ops]
            env = (ex.decide(launch_ok), ex.decide(hang), ex.decide(exit_ok), ex.choose(outkind, range(4)), ex.choose(perm, range(6)))
            ok, why = run_sequence(kind, env, seq)
            return ok
        out.append(Case(f"{kind} first={OPS[first]}{'' if second is None else ' second=' + OPS[second]} k={k}", base, run,
                        dict(kind=kind, ops=ops, launch_ok=launch_ok, hang=hang, exit_ok=exit_ok, outkind=outkind, perm=perm),
                        replay, known=KNOWN(kind, ops, launch_ok, hang, exit_ok, outkind)))
    return out


def KNOWN(kind, ops, launch_ok, hang, exit_ok, outkind):
    return []


def ob_clustalo(tier):
    return cases(tier, "clustalo")


def ob_mafft(tier):
    return cases(tier, "mafft")


def ob_muscle3(tier):
    return cases(tier, "muscle3")


def ob_muscle5(tier):
    return cases(tier, "muscle5")


# ------------------------------------------------------------------------------------- generic Application.join
def check_generic_join(polls_needed, timeout_i, evaluate_fails):
    """A non-local Application subclass (polling join): join(timeout) either finishes (JOINED, evaluate once, clean_up
    once) or - when the timeout is exceeded while the program still runs - cancels it, cleans up once and raises
    biotite.application.TimeoutError.  timeout=0 is a timeout, not 'no timeout'."""
    import time
    from biotite.application import Application, AppState, TimeoutError as AppTimeout
    counts = dict(run=0, evaluate=0, clean_up=0, polls=0)

    class Remote(Application):
        def run(self):
            counts["run"] += 1

        def is_finished(self):
            counts["polls"] += 1
            return counts["polls"] > polls_needed

        def wait_interval(self):
            return 0.001

        def evaluate(self):
            counts["evaluate"] += 1
            if evaluate_fails:
                raise ValueError("unparsable output")

        def clean_up(self):
            counts["clean_up"] += 1
    timeout = [None, 0, 0.0, 30][timeout_i]
    app = Remote()
    app.start()
    time.sleep(0.002)
    expect_timeout = timeout is not None and timeout <= 0.001 and polls_needed >= 1
    try:
        app.join(timeout=timeout)
        outcome = "joined"
    except AppTimeout:
        outcome = "timeout"
    except ValueError:
        outcome = "evaluate failed"
    if expect_timeout:
        if outcome != "timeout" or app.get_app_state() != AppState.CANCELLED or counts["clean_up"] != 1 or counts["evaluate"] != 0:
            return f"join(timeout={timeout!r}) on a still running application: outcome {outcome}, state {app.get_app_state()}, counts {counts}"
        return None
    if evaluate_fails:
        if outcome != "evaluate failed" or counts["clean_up"] != 1 or app.get_app_state() != AppState.CANCELLED:
            return f"failing evaluate: outcome {outcome}, state {app.get_app_state()}, counts {counts}"
        return None
    if outcome != "joined" or app.get_app_state() != AppState.JOINED or counts["evaluate"] != 1 or counts["clean_up"] != 1 or counts["run"] != 1:
        return f"join(timeout={timeout!r}): outcome {outcome}, state {app.get_app_state()}, counts {counts}"
    return None


def check_many_sequences(kind_i, n, perm_i):
    """more than 10 sequences: the program's output rows (headers '0'..'n-1' in any order) are attached to the right
    inputs, the order is the permutation the program used"""
    import random
    kind = ["clustalo", "mafft", "muscle3", "muscle5"][kind_i]
    seqs = ["ACGT" + "ACGT"[i % 4] * (1 + i % 3) + "TTGA" for i in range(n)]
    width = max(len(s) for s in seqs)
    order = list(range(n))
    random.Random(perm_i).shuffle(order)
    if perm_i == 0:
        order = list(range(n))[::-1]
    counter = {"clean_up": 0}
    global SEQS, GAPPED, PERMS
    saved = (SEQS, GAPPED, PERMS, localapp.Popen)
    SEQS, GAPPED, PERMS = seqs, [s + "-" * (width - len(s)) for s in seqs], [tuple(order)]
    localapp.Popen = FakePopen
    env = Env(True, False, True, 0, 0)
    FakePopen.env = env
    cwd = os.getcwd()
    try:
        app = make_app(kind, counter)
        app.start()
        app.join()
        aln = app.get_alignment()
        got_order = [int(x) for x in app.get_alignment_order()]
        rows = aln.get_gapped_sequences()
    finally:
        SEQS, GAPPED, PERMS, localapp.Popen = saved
        os.chdir(cwd)
    want_rows = [s + "-" * (width - len(s)) for s in seqs]
    if [str(s) for s in aln.sequences] != seqs or rows != want_rows:
        bad = [i for i in range(n) if rows[i] != want_rows[i]]
        return f"{kind} with {n} sequences written in order {order}: rows {bad} do not belong to their input sequences"
    if got_order != order:
        return f"{kind}: get_alignment_order() = {got_order}, the program wrote {order}"
    if counter["clean_up"] != 1:
        return f"{kind}: clean_up ran {counter['clean_up']} times"
    return None


def check_custom_alphabet(kind_i, perm_i):
    """sequences over a user-defined alphabet (aligned through the wrappers' mapping onto protein letters with a custom
    matrix): the returned alignment holds the INPUT sequences (type, alphabet, symbols), not the intermediate ones"""
    from biotite.sequence import Alphabet, GeneralSequence
    from biotite.sequence.align import SubstitutionMatrix
    from biotite.application.clustalo import ClustalOmegaApp
    from biotite.application.mafft import MafftApp
    from biotite.application.muscle import MuscleApp, Muscle5App
    import biotite.application.muscle.app3 as app3
    import biotite.application.muscle.app5 as app5
    app3.get_version = lambda *a, **k: (3, 8)
    app5.get_version = lambda *a, **k: (5, 1)
    base = [ClustalOmegaApp, MafftApp, MuscleApp, Muscle5App][kind_i]
    alph = Alphabet(["foo", "bar", 42, "x"])
    seqs = [GeneralSequence(alph, ["foo", "bar", 42]), GeneralSequence(alph, ["x", "x"]), GeneralSequence(alph, [42, "bar", "foo", "x"])]
    matrix = SubstitutionMatrix(alph, alph, np.eye(4, dtype=np.int32) * 6 - 2)
    counter = {"clean_up": 0}

    class Counted(base):
        def clean_up(self):
            counter["clean_up"] += 1
            super().clean_up()
    try:
        app = Counted(seqs, bin_path="/nonexistent/fake", matrix=matrix)
    except (TypeError, ValueError):
        return None          # this wrapper does not take custom matrices / alphabets (documented per wrapper)
    global SEQS, GAPPED, PERMS
    saved = (SEQS, GAPPED, PERMS, localapp.Popen)
    SEQS, GAPPED, PERMS = ["AAA", "AA", "AAAA"], ["AAA-", "-AA-", "AAAA"], [[(0, 1, 2), (2, 0, 1), (1, 2, 0)][perm_i]]
    localapp.Popen = FakePopen
    FakePopen.env = Env(True, False, True, 0, 0)
    cwd = os.getcwd()
    try:
        app.start()
        app.join()
        aln = app.get_alignment()
    finally:
        SEQS, GAPPED, PERMS, localapp.Popen = saved
        os.chdir(cwd)
    for i, (got, want) in enumerate(zip(aln.sequences, seqs)):
        if type(got) is not GeneralSequence or got.alphabet != alph or list(got.symbols) != list(want.symbols):
            return f"row {i} of the alignment holds {type(got).__name__} {list(got.symbols)} over {got.alphabet}, the input was {list(want.symbols)}"
    if aln.trace.tolist() != [[0, -1, 0], [1, 0, 1], [2, 1, 2], [-1, -1, 3]]:
        return f"trace {aln.trace.tolist()}"
    if counter["clean_up"] != 1:
        return f"clean_up ran {counter['clean_up']} times"
    return None


def _rep2(f, *keys):
    def g(w):
        try:
            r = f(*[w[k] for k in keys])
            return r is None, str(r)
        except Exception as e:
            import traceback
            return False, f"{type(e).__name__}: {e} | {traceback.format_exc()[-400:]}"
    return g


def ob_generic(tier):
    p, t, e, k, n, q = z3.Ints("p t e k n q")

    def run_join():
        ex = cur()
        return check_generic_join(ex.choose(p, range(0, 4)), ex.choose(t, range(4)), bool(ex.choose(e, (0, 1)))) is None

    def run_many():
        ex = cur()
        return check_many_sequences(ex.choose(k, range(4)), ex.choose(n, (11, 12, 23)), ex.choose(q, range(3))) is None
    ck, cq = z3.Ints("ck cq")

    def run_custom():
        ex = cur()
        return check_custom_alphabet(ex.choose(ck, range(4)), ex.choose(cq, range(3))) is None
    custom = Case("MSA wrappers with sequences over a user-defined alphabet", [ck >= 0, ck < 4, cq >= 0, cq < 3], run_custom, dict(kind_i=ck, perm_i=cq),
                  _rep2(check_custom_alphabet, "kind_i", "perm_i"))
    return [custom, Case("polling join of a non-local application", [p >= 0, p < 4, t >= 0, t < 4, e >= 0, e <= 1], run_join, dict(polls_needed=p, timeout_i=t, evaluate_fails=e),
                 _rep2(check_generic_join, "polls_needed", "timeout_i", "evaluate_fails")),
            Case("MSA wrappers with more than ten sequences", [k >= 0, k < 4, z3.Or(n == 11, n == 12, n == 23), q >= 0, q < 3], run_many, dict(kind_i=k, n=n, perm_i=q),
                 _rep2(check_many_sequences, "kind_i", "n", "perm_i"))]
