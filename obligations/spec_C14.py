from vf.sx.ob import SX

S = "src/biotite/structure/"
OBLIGATIONS = [
    SX("sx_celllist", "sx_c14", "ob_celllist", cls="E", quick=600, thorough=3000, parts={"quick": 16, "thorough": 16},
       functions=[S + "celllist.pyx:CellList.__cinit__, get_atoms, get_atoms_in_cells, create_adjacency_matrix, _post_process, _as_mask (compiled)",
                  S + "box.py:move_inside_box, repeat_box_coord"],
       bounds="1..3 atoms at every combination of 8 (thorough 12) dyadic positions (duplicates, collinear, on cell borders, negative); 4 (6) cell sizes; no box, cubic, orthorhombic and two triclinic periodic boxes; 0..2 selection patterns; for each: 18 query points (inside, on atoms, far outside) x 7 radii (0 .. 200; periodic <= 1.5; radius/cell <= 30), single and batched, index and mask form, one radius per query, adjacency matrix (symmetry, == thresholded pair distances), cell-based queries as supersets. Oracle: exact rational minimum-image distances. In boxes whose fractional transformation is inexact in floats, pairs within 1e-4 of the radius may fall on either side"),
    SX("sx_box_images", "sx_c14", "ob_box_images", cls="E", quick=100, parts=1,
       functions=[S + "box.py:repeat_box_coord", S + "box.py:move_inside_box"],
       bounds="4 boxes (cubic, orthorhombic, 2 triclinic) x 12 point pairs x amount 1..2: copies == coord + i*a + j*b + k*c for all (i,j,k), index array, first copy original; move_inside_box lands in [0,1) fractional and moves by lattice vectors"),
    SX("sx_large_radius", "sx_c14", "ob_large_radius", cls="E", quick=100, parts=1,
       functions=[S + "celllist.pyx:CellList.get_atoms/_get_atoms_in_cells (compiled)"],
       bounds="radius 50, 200, 1000, 5000 x 6 cell sizes, single and batched query: every atom returned"),
    SX("kx_real", "kx_c14", "ob_real", cls="S", engine="KX", quick=400, thorough=1800, parts={"quick": 10, "thorough": 16},
       functions=[S + "celllist.pyx:CellList.get_atoms", S + "celllist.pyx:CellList._get_cell_index", S + "celllist.pyx:squared_distance"],
       stubs=["REAL-number semantics: C floats as exact rationals m/8 (vf/kx/rat.py): no rounding",
              "CellList._get_atoms_in_cells/_find_adjacent_atoms (pointer arrays) -> contract over the lowered _get_cell_index: atoms whose cell index is within +-cell_radius of the query's in each dimension",
              "_prepare_vectorization/_post_process pass-through; non-periodic; no selection",
              "assumed and proved each run: x^2+y^2+z^2 <= r^2 and r >= 0 imply |x| <= r (z3 NIA)"],
       bounds="2 atoms, 1 query, all coordinates m/8 with |m| <= 64 (128) symbolic in 3-D, query up to 3x farther, radius symbolic 0..16 (32), 5 (7) cell sizes incl. 3.0, 1.5, 0.375, scalar and per-query radius: atom listed <=> distance <= radius; deferred bounds obligations of the if-converted kernel hold"),
    SX("kx_float", "kx_c14", "ob_float", cls="S", engine="KX", quick=500, thorough=1800, parts={"quick": 2, "thorough": 4},
       functions=[S + "celllist.pyx:CellList.get_atoms", S + "celllist.pyx:CellList._get_cell_index", S + "celllist.pyx:squared_distance"],
       stubs=["IEEE-754 binary32 terms (z3 FloatingPoint, round-to-nearest-even) for every C float; numpy float32 expressions of get_atoms evaluated on the same terms",
              "same contract for _get_atoms_in_cells as kx_real"],
       bounds="one axis: minimum corner mn <= atom ax, query qx, radius r arbitrary finite float32 with |.| <= 1024, cell size 1.0, 3.0 (thorough + 0.5, 0.375): an atom that passes the source's float32 distance test and is strictly within the radius in float64 is returned"),
    SX("kx_bounds", "kx_c14", "ob_bounds", cls="S", engine="KX", quick=500, thorough=3000, parts={"quick": 2, "thorough": 6},
       functions=[S + "celllist.pyx:CellList._get_cell_index", S + "celllist.pyx:CellList.__cinit__ (cell_count expression, transcribed)"],
       stubs=["IEEE-754 binary32 terms; cell_count = trunc((max - min) / cell_size + 1) as written in __cinit__"],
       bounds="mn <= ax <= mx arbitrary finite float32 with |.| <= 64 (thorough 512), cell size 1.0, 3.0 (+3): 0 <= cell index < cell count (no write outside the cell arrays)"),
]
EXPLANATION = "C14: cell-list neighbour search is exact."
ASSUMPTIONS = ["coordinates are finite float32 values (CellList rejects NaN/inf)"]
