from vf.ch import CH

F = "src/biotite/structure/io/pdbx/cif.py"
STR_FUNCS = [F + ":" + n for n in (
    "_escape", "_multiline", "_split_one_line", "_to_single", "_is_empty", "_is_loop_start",
    "_parse_category_name", "_parse_data_block_name", "_create_element_dict",
    "CIFCategory.serialize", "CIFCategory._serialize_single", "CIFCategory._serialize_looped",
    "CIFCategory.deserialize", "CIFCategory._deserialize_single", "CIFCategory._deserialize_looped",
    "CIFBlock.serialize", "CIFBlock.deserialize", "CIFBlock.__getitem__",
    "CIFFile.serialize", "CIFFile.deserialize", "CIFFile.__getitem__")]
STUBS = ["CIFColumn -> pure-Python HCol holder (keeps str symbolic); numpy array/dtype.itemsize in "
         "_serialize_looped -> ShimNP; a failing stubbed run is re-decided by the unstubbed real classes"]
ALPH = "alphabet a _ # ; $ [ ] ' \" space tab newline . ? d"

from vf.sx.ob import SX

SX_STUBS = ["CIFColumn -> HCol (pure-Python value holder; the '.'/'?' mask convention is checked on the replay side through the real CIFColumn)",
            "numpy array/dtype.itemsize in CIFCategory._serialize_looped -> ShimNP (same column width rule)",
            "characters restricted to printable ASCII 32..126 plus tab and line feed"]
OBLIGATIONS = [
    SX("sx_cif_single", "sx_c06", "ob_single", cls="S", quick=120, thorough=1500, parts={"quick": 4, "thorough": 10},
       functions=STR_FUNCS, stubs=SX_STUBS,
       bounds="1-block file, single-row category with 2 columns, symbolic value of length 0..4 (thorough 0..5) in either column; every character symbolic over printable ASCII + tab + LF"),
    SX("sx_cif_looped", "sx_c06", "ob_looped", cls="S", quick=120, thorough=1500, parts={"quick": 6, "thorough": 12},
       functions=STR_FUNCS, stubs=SX_STUBS,
       bounds="1-block file, looped category 2 rows x 2 columns, symbolic cell of length 0..3 (thorough 0..4) at each of the 4 positions, other cells 'x', '', 'y z'"),
    SX("sx_cif_looped_ml", "sx_c06", "ob_looped_ml", cls="S", quick=120, thorough=1500, parts={"quick": 6, "thorough": 12},
       functions=STR_FUNCS, stubs=SX_STUBS,
       bounds="as sx_cif_looped (length 0..2, thorough 0..3) but the three other cells are 'a\\nb', both-quotes and 'x', i.e. neighbouring ';' text fields"),
    SX("sx_map_cif", "sx_c06_map", "ob_map_cif", cls="E", quick=200, thorough=1500, parts={"quick": 8, "thorough": 16},
       functions=[F + ":CIFFile/CIFBlock/CIFCategory mapping methods, serialize, deserialize (lazy)"],
       bounds="all op sequences of length 2 (thorough 3) over 8 ops x 3 key selectors on a 1-block/2-category file, eager and lazily parsed start state, dict reference model"),
    SX("sx_map_bcif", "sx_c06_map", "ob_map_bcif", cls="E", quick=200, thorough=1500, parts={"quick": 8, "thorough": 16},
       functions=["src/biotite/structure/io/pdbx/bcif.py:BinaryCIFFile/Block/Category", "src/biotite/structure/io/pdbx/component.py:_HierarchicalContainer"],
       bounds="as sx_map_cif for the binary flavour"),
    SX("sx_cif_keywords", "sx_c06", "ob_keywords", cls="S", quick=200, thorough=1200, parts={"quick": 6, "thorough": 12},
       functions=STR_FUNCS, stubs=SX_STUBS,
       bounds="value = [0-1 symbolic char] + reserved word (data_, loop_, save_, global_, stop_, DATA_, Loop_) + [0-1 symbolic char], single-row (2 positions) and 2x2 looped (4 positions)"),
    CH("cif_masks", "c06_cif.py", "ob_cif_masks", cls="E", quick=120, functions=[F + ":CIFColumn.__init__", F + ":CIFColumn.as_item", F + ":CIFColumn.as_array", F + ":CIFData"],
       bounds="menu values '.', '?', 'a', '', \"'.'\", 'x y' and near misses of the mask characters ('. ', '?<tab>', ' .', '..', ' ?') in 2 cells, 1-2 rows; real CIFColumn/numpy, file level"),
]
EXPLANATION = "C06: CIF text layer round trip and container mapping behaviour."
ASSUMPTIONS = []
