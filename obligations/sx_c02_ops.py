"""C02 operation sequences on the compiled BondList against the mapping model (E-class).

Construction input (rows with duplicates, reversed pairs, negative indices, every bond type) and a
sequence of operations are chosen by z3 variables which the explorer case-splits; after every step all
views (array, set, per-atom and all-atom tables, matrices, graph, membership, equality) are compared with
the model {unordered pair -> type}.  Every concrete sequence is logged before it runs so that a crash of
the interpreter (a violation of 'never terminates the process') is attributed to its inputs.
"""
import itertools

import numpy as np
import z3

from vf.sx.core import cur
from vf.sx.ob import Case, note_inputs

N = 3                    # atoms
ROWMENU = [(0, 1, 1), (1, 0, 2), (1, 2, 5), (-1, 0, 3), (2, -2, 9), (0, 2, 4), (-3, -1, 0), (1, 2, 8)]   # (no self-bonds: degenerate)
PAIRS = [(0, 1), (1, 2), (-1, 0), (2, 0), (-3, 1)]
INDEXMENU = ["mask110", "mask011", "mask101", "perm210", "perm12", "perm0", "slice::2", "slice1:", "slice::-1", "neg[-1,0]", "mask000", "mask111"]


def bt():
    from biotite.structure.bonds import BondType
    return BondType


def norm(i, n):
    return i + n if i < 0 else i


def model_from_rows(rows, n):
    m = {}
    for a, b, t in rows:
        key = tuple(sorted((norm(a, n), norm(b, n))))
        m.setdefault(key, t)           # first type wins at construction
    return m


def views_agree(bl, model, n):
    BondType = bt()
    arr = bl.as_array()
    got = {(int(a), int(b)): int(t) for a, b, t in arr.tolist()}
    if got != model or len(arr) != len(model):
        return f"as_array {arr.tolist()} vs model {model}"
    if any(a > b for a, b, _ in arr.tolist()):
        return "pair not sorted"
    if bl.as_set() != {(a, b, t) for (a, b), t in model.items()}:
        return f"as_set {bl.as_set()}"
    if bl.get_atom_count() != n or bl.get_bond_count() != len(model):
        return "counts"
    allb, allt = bl.get_all_bonds()
    adj = bl.adjacency_matrix()
    btm = bl.bond_type_matrix()
    for i in range(n):
        want = sorted([(y if x == i else x, t) for (x, y), t in model.items() if i in (x, y) and x != y]
                      + [(i, t) for (x, y), t in model.items() if x == y == i] * 2)
        nb, nt = bl.get_bonds(i)
        nb2, nt2 = bl.get_bonds(i - n)
        g1 = sorted(zip(nb.tolist(), nt.tolist()))
        want1 = sorted([(y if x == i else x, t) for (x, y), t in model.items() if i in (x, y)])
        if g1 != want1 or sorted(zip(nb2.tolist(), nt2.tolist())) != want1:
            return f"get_bonds({i}) {g1} vs {want1}"
        g = sorted((int(x), int(t)) for x, t in zip(allb[i], allt[i]) if x != -1)
        if g != want:
            return f"get_all_bonds[{i}] {g} vs {want}"
        for j in range(n):
            key = (min(i, j), max(i, j))
            if bool(adj[i, j]) != (key in model):
                return f"adjacency[{i},{j}]"
            if int(btm[i, j]) != model.get(key, -1):
                return f"bond_type_matrix[{i},{j}] = {btm[i, j]}"
            if ((i, j) in bl) != (key in model):
                return f"contains ({i},{j})"
    g = bl.as_graph()
    if sorted(tuple(sorted(e)) for e in g.edges()) != sorted(model.keys()):
        return f"graph edges {list(g.edges())}"
    for (x, y), t in model.items():
        if int(g.edges[x, y]["bond_type"]) != t:
            return "graph bond_type"
    from biotite.structure import BondList
    ref = BondList(n, np.array([[a, b, t] for (a, b), t in model.items()], dtype=np.int64).reshape(-1, 3))
    if not (bl == ref and ref == bl):
        return "equality with a list built from the model"
    if n and (bl == BondList(n + 1)):
        return "equal to an empty list of another size"
    return None


def index_object(name, n):
    if name.startswith("mask"):
        return np.array([c == "1" for c in name[4:]], dtype=bool)
    if name.startswith("perm"):
        return np.array([int(c) for c in name[4:]], dtype=int)
    if name == "slice::2":
        return slice(None, None, 2)
    if name == "slice1:":
        return slice(1, None)
    if name == "slice::-1":
        return slice(None, None, -1)
    if name == "neg[-1,0]":
        return np.array([-1, 0])
    raise KeyError(name)


TABLES = [[0, 1], [0, 2, 7], [3, 4], [6, 5, 2], [1, 0, 3], []]     # row sets (indices into ROWMENU)
TYPES4 = [2, 5, 9, 0]


def run_ops(rowsel, ops):
    """rowsel: indices into ROWMENU; ops: [(op, a, b)] -> None | failure text"""
    from biotite.structure import BondList
    BondType = bt()
    n = N
    rows = [ROWMENU[i] for i in rowsel]
    bl = BondList(n, np.array(rows, dtype=np.int64).reshape(-1, 3))
    model = model_from_rows(rows, n)
    why = views_agree(bl, model, n)
    if why:
        return "after construction: " + why
    other_rows = [(0, 2, 6), (1, 0, 7)]
    for op, a, b in ops:
        if op == 0:        # add_bond
            i, j = PAIRS[a % len(PAIRS)]
            if not (-n <= i < n and -n <= j < n) or norm(i, n) == norm(j, n):
                continue
            bl.add_bond(i, j, TYPES4[b % 4])
            model[tuple(sorted((norm(i, n), norm(j, n))))] = TYPES4[b % 4]
        elif op == 1:      # remove_bond
            i, j = PAIRS[a % len(PAIRS)]
            if not (-n <= i < n and -n <= j < n):
                continue
            bl.remove_bond(i, j)
            model.pop(tuple(sorted((norm(i, n), norm(j, n)))), None)
        elif op == 2:      # remove_bonds_to
            i = (a % (2 * n)) - n
            bl.remove_bonds_to(i)
            model = {k: t for k, t in model.items() if norm(i, n) not in k}
        elif op in (3, 4) and n < 3:
            continue
        elif op == 3:      # remove_bonds(other)
            o = BondList(n, np.array(other_rows[: 1 + a % 2]))
            bl.remove_bonds(o)
            for (x, y, _) in other_rows[: 1 + a % 2]:
                model.pop(tuple(sorted((x, y))), None)
        elif op == 4:      # merge(other): the argument's type wins
            o = BondList(n + (a % 2), np.array(other_rows))
            bl = bl.merge(o)
            n = max(n, n + (a % 2))
            for (x, y, t) in other_rows:
                model[tuple(sorted((x, y)))] = t
        elif op == 5:      # concatenate / +
            o = BondList(2, np.array([(0, 1, 3)]))
            bl = (bl + o) if a % 2 else BondList.concatenate([bl, o])
            model[(n, n + 1)] = 3
            n += 2
        elif op == 6:      # offset
            k = a % 3
            bl.offset_indices(k)
            model = {(x + k, y + k): t for (x, y), t in model.items()}
            n += k
        elif op == 7:
            bl.remove_aromaticity()
            model = {k: int(BondType(t).without_aromaticity()) for k, t in model.items()}
        elif op == 8:
            bl.remove_bond_order()
            model = {k: 0 for k in model}
        elif op == 9:      # index objects
            if n != N:
                continue
            name = INDEXMENU[a % len(INDEXMENU)]
            idx = index_object(name, n)
            sel = list(np.arange(n)[idx])
            bl = bl[idx]
            newpos = {old: new for new, old in enumerate(sel)}
            model = {tuple(sorted((newpos[x], newpos[y]))): t for (x, y), t in model.items() if x in newpos and y in newpos}
            n = len(sel)
        elif op == 10:     # results share no state with their operands
            o = BondList(2, np.array([(0, 1, 3)]))
            for c in (bl.copy(), BondList.concatenate([bl]), BondList.concatenate([bl, o]), bl.merge(BondList(n)), bl[np.ones(n, dtype=bool)]):
                if n > 1:
                    c.add_bond(0, n - 1, 2)
                    c.remove_bonds_to(0)
                    c.remove_bond_order()
                    c.offset_indices(1)
            # the original must be untouched: checked below
        if n == 0:
            return None if bl.get_atom_count() == 0 and bl.get_bond_count() == 0 else "empty list not empty"
        why = views_agree(bl, model, n)
        if why:
            return f"after op {op},{a},{b}: " + why
    return None


def replay(w):
    import json, subprocess
    from vf.common import PY, child_env
    code = ("import sys, json; sys.path.insert(0, '/verif/obligations'); sys.path.insert(0, '/verif')\n"
            "import sx_c02_ops as m\nw = json.loads(sys.argv[1])\n"
            "try:\n    r = m.run_ops(w['rowsel'], [tuple(o) for o in w['ops']])\nexcept Exception as e:\n    r = type(e).__name__ + ': ' + str(e)\n"
            "print('RES ' + json.dumps(r))\n")
    p = subprocess.run([PY, "-c", code, __import__("json").dumps(w)], capture_output=True, text=True, env=child_env(), timeout=300)
    for l in p.stdout.splitlines():
        if l.startswith("RES "):
            r = __import__("json").loads(l[4:])
            return r is None, str(r)
    return False, f"interpreter died rc={p.returncode} {p.stderr[-200:]}"


NOPS = 11


def ob_ops(tier):
    k = 2 if tier == "quick" else 3
    cases = []
    for first in range(NOPS):
        tb = z3.Int("tb")
        ops = [(z3.Int(f"o{i}"), z3.Int(f"a{i}"), z3.Int(f"b{i}")) for i in range(k)]
        base = [ops[0][0] == first, tb >= 0, tb < len(TABLES)]
        AMAX = {0: 4, 1: 4, 2: 6, 3: 2, 4: 2, 5: 2, 6: 3, 7: 1, 8: 1, 9: 6, 10: 1}
        for o, a, b in ops:
            base += [o >= 0, o < NOPS, a >= 0, b >= 0, b < 4, z3.Implies(o != 0, b == 0)]
            for oc, am in AMAX.items():
                base.append(z3.Implies(o == oc, a < am))

        def run(tb=tb, ops=ops):
            ex = cur()
            t = ex.choose(tb, range(len(TABLES)))
            seq = []
            for o, a, b in ops:
                oc = ex.choose(o, range(NOPS))
                ac = ex.choose(a, range(6))
                bc = ex.choose(b, range(4))
                seq.append((oc, ac, bc))
            note_inputs(dict(rowsel=TABLES[t], ops=seq))
            return run_ops(TABLES[t], seq) is None
        cases.append(Case(f"ops first={first} k={k}", base, run,
                          dict(table=tb, ops=[[o, a, b] for o, a, b in ops]), replay_tb))
    return cases


def replay_tb(w):
    w = dict(w)
    if "table" in w:
        w["rowsel"] = TABLES[w.pop("table")]
    return replay(w)


def ob_index_objects(tier):
    """every index object of the menu (incl. the second half that ob_ops' a<6 does not reach) on every 1-3 row table"""
    cases = []
    for which in range(len(INDEXMENU)):
        rs = [z3.Int(f"r{i}") for i in range(3)]
        base = []
        for r in rs:
            base += [r >= 0, r < len(ROWMENU)]

        def run(rs=rs, which=which):
            ex = cur()
            rowsel = [ex.choose(r, range(len(ROWMENU))) for r in rs]
            note_inputs(dict(rowsel=rowsel, ops=[(9, which, 0)]))
            return run_ops(rowsel, [(9, which, 0)]) is None
        cases.append(Case(f"index object {INDEXMENU[which]}", base, run, dict(rowsel=rs, ops=[[9, which, 0]]), replay))
    return cases
