"""C08 (KX engine): the dynamic-programming kernels of pairwise.pyx / tracetable.pyx return the true optimum.

_fill_align_table / _fill_align_table_affine and get_trace_linear / get_trace_affine are lowered from the
current .pyx text, if-converted (vf/kx/ifconv.py) and executed ONCE over symbolic sequence codes, a fully
symbolic substitution matrix and symbolic gap penalties (bit-vector int32, exact wrap-around semantics).
The resulting score term is compared by z3 with the maximum over ALL enumerated alignments of the
documented scoring model.  The table initialisation of align_optimal() is transcribed in `init_*`
(listed as a stub: the wrapper is 250 lines of numpy); the end-to-end wrapper is covered by the E-class
obligation in sx_c08.py.
"""
import itertools

import z3

from vf.kx.kernel import Kernel
from vf.kx.freshness import binary_state
from vf.kx import rt, ifconv
from vf.kx.rt import CInt, View, MemorySafety
from vf.sx.ob import Case

I32 = rt.TYPES["int32"]
U8 = rt.TYPES["uint8"]
_k = {}
B = 1 << 20


def kernel():
    if "k" not in _k:
        p = [ifconv.ifconv_pass]
        _k["k"] = Kernel("sequence/align/tracetable.pyx", ["get_trace_linear", "get_trace_affine"], mode="int",
                         pxd="sequence/align/tracetable.pxd", package="sequence.align", extra_ns=dict(ifconv.NS),
                         extra_passes={"get_trace_linear": p, "get_trace_affine": p})
        ns = dict(ifconv.NS)
        ns.update({n: _k["k"].ns[n] for n in ("get_trace_linear", "get_trace_affine", "TraceDirectionLinear", "TraceDirectionAffine")})
        _k["f"] = Kernel("sequence/align/pairwise.pyx", ["_fill_align_table", "_fill_align_table_affine"], mode="int",
                         fused={"CodeType1": "uint8", "CodeType2": "uint8"}, package="sequence.align", extra_ns=ns,
                         extra_passes={"_fill_align_table": p, "_fill_align_table_affine": p})
    return _k["k"], _k["f"]


def state():
    kt, kf = kernel()
    rng = [(m["lineno"], m["nlines"]) for m in kt.meta.values()]
    if "tr" in _k:
        rng += [(m["lineno"], m["nlines"]) for m in _k["tr"].meta.values()]
    a = binary_state(kt.path, rng)
    b = binary_state(kf.path, [(m["lineno"], m["nlines"]) for m in kf.meta.values()])
    return "fresh" if a == b == "fresh" else f"{a}/{b}"


def bv(x):
    """exact integer value of a C integer as z3 Int term"""
    v = x.as_int_term() if isinstance(x, CInt) else x
    return z3.IntVal(v) if isinstance(v, int) else v


def c32(x):
    return CInt(x, I32) if not isinstance(x, int) else CInt.const(x, I32)


# ------------------------------------------------------------------ table initialisation (align_optimal)
def init_linear(n, m, g, local, term):
    score = [[c32(0) for _ in range(m + 1)] for _ in range(n + 1)]
    trace = [[CInt.const(0, U8) for _ in range(m + 1)] for _ in range(n + 1)]
    if not local:
        if term:
            acc = c32(0)
            for i in range(1, n + 1):
                acc = (acc + g).conv(I32)
                score[i][0] = acc
            acc = c32(0)
            for j in range(1, m + 1):
                acc = (acc + g).conv(I32)
                score[0][j] = acc
        for i in range(1, n + 1):
            trace[i][0] = CInt.const(4, U8)
        for j in range(1, m + 1):
            trace[0][j] = CInt.const(2, U8)
    return View(score, I32), View(trace, U8)


SENTINEL_SRC = {}


def sentinel(go, ge, minscore):
    from vf.kx import wslice
    v, text, line = wslice.evaluate("sequence/align/pairwise.pyx", "align_optimal", "neg_inf", ["neg_inf", "min_score"],
                                    dict(gap_open=go, gap_ext=ge), {"np.min(matrix.score_matrix())": minscore}, "neg_inf")
    SENTINEL_SRC["text"], SENTINEL_SRC["line"] = text, line
    return v


def init_affine(n, m, go, ge, minscore, local, term):
    # the sentinel exactly as align_optimal computes it in the CURRENT source (statements cut out of the wrapper and
    # evaluated over z3 integers, vf/kx/wslice.py); the table layout below is transcribed
    neg = CInt(sentinel(bv(go), bv(ge), bv(minscore)), I32)
    mt = [[c32(0) for _ in range(m + 1)] for _ in range(n + 1)]
    g1 = [[neg for _ in range(m + 1)] for _ in range(n + 1)]
    g2 = [[neg for _ in range(m + 1)] for _ in range(n + 1)]
    trace = [[CInt.const(0, U8) for _ in range(m + 1)] for _ in range(n + 1)]
    for j in range(1, m + 1):
        mt[0][j] = neg
    for i in range(1, n + 1):
        mt[i][0] = neg
    if not local:
        if term:
            acc = go
            for j in range(1, m + 1):
                g1[0][j] = acc if isinstance(acc, CInt) else c32(acc)
                acc = (acc + ge).conv(I32)
            acc = go
            for i in range(1, n + 1):
                g2[i][0] = acc if isinstance(acc, CInt) else c32(acc)
                acc = (acc + ge).conv(I32)
        else:
            for j in range(1, m + 1):
                g1[0][j] = c32(0)
            for i in range(1, n + 1):
                g2[i][0] = c32(0)
        if m >= 1:
            trace[0][1] = CInt.const(8, U8)
        for j in range(2, m + 1):
            trace[0][j] = CInt.const(16, U8)
        if n >= 1:
            trace[1][0] = CInt.const(32, U8)
        for i in range(2, n + 1):
            trace[i][0] = CInt.const(64, U8)
    else:
        for j in range(1, m + 1):
            g1[0][j] = c32(0)
        for i in range(1, n + 1):
            g2[i][0] = c32(0)
    return View(mt, I32), View(g1, I32), View(g2, I32), View(trace, U8)


# ------------------------------------------------------------------------ reference: all alignments
def alignments(n, m):
    """all global alignments of sequences of length n, m as lists of columns ('m', i, j) | ('g1', j) | ('g2', i)
    ('g1': gap in sequence 1, i.e. a symbol of sequence 2 alone)"""
    out = []

    def rec(i, j, acc):
        if i == n and j == m:
            out.append(acc)
            return
        if i < n and j < m:
            rec(i + 1, j + 1, acc + [("m", i, j)])
        if j < m:
            rec(i, j + 1, acc + [("g1", j)])
        if i < n:
            rec(i + 1, j, acc + [("g2", i)])
    rec(0, 0, [])
    return out


def aln_score(aln, sub, gap, affine, term):
    """score term (64-bit bit-vector) of one alignment; None if excluded by the affine model"""
    kinds = [c[0] for c in aln]
    if affine:
        for a, b in zip(kinds, kinds[1:]):
            if {a, b} == {"g1", "g2"}:
                return None
    # terminal gap columns (free when term is False): leading / trailing runs of one gap kind
    free = [False] * len(aln)
    if not term:
        for rng in (range(len(aln)), range(len(aln) - 1, -1, -1)):
            first = None
            for k in rng:
                if kinds[k] == "m":
                    break
                if first is None:
                    first = kinds[k]
                if kinds[k] != first:
                    break
                free[k] = True
    total = z3.IntVal(0)
    for k, c in enumerate(aln):
        if c[0] == "m":
            total = total + sub(c[1], c[2])
        elif not free[k]:
            if affine:
                opening = k == 0 or kinds[k - 1] != c[0]
                total = total + (gap[0] if opening else gap[1])
            else:
                total = total + gap
    return total


def reference(n, m, sub, gap, affine, local, term):
    def best(i0, i1, j0, j1):
        r = None
        for aln in alignments(i1 - i0, j1 - j0):
            s = aln_score(aln, lambda a, b: sub(i0 + a, j0 + b), gap, affine, term if not local else True)
            if s is None:
                continue
            r = s if r is None else z3.If(s > r, s, r)
        return r
    if not local:
        return best(0, n, 0, m)
    r = z3.IntVal(0)
    for i0 in range(n + 1):
        for i1 in range(i0, n + 1):
            for j0 in range(m + 1):
                for j1 in range(j0, m + 1):
                    if i1 - i0 == 0 or j1 - j0 == 0:
                        continue
                    s = best(i0, i1, j0, j1)
                    r = z3.If(s > r, s, r)
    return r


def wide(x):
    return x


# ------------------------------------------------------------------------------------ the cases
def build_case(n, m, A, affine, local, term):
    kt, kf = kernel()
    M = [[z3.Int(f"m{a}_{b}") for b in range(A)] for a in range(A)]
    c1 = [z3.BitVec(f"x{i}", 8) for i in range(n)]
    c2 = [z3.BitVec(f"y{j}", 8) for j in range(m)]
    go, ge = z3.Int("go"), z3.Int("ge")
    base = [z3.And(e >= -B, e <= B) for row in M for e in row] + [z3.ULT(c, A) for c in c1 + c2]
    base += [go >= -B, go <= 0, ge >= -B, ge <= 0]
    if not affine:
        base.append(ge == 0)

    def run():
        kf._activate()
        code1 = View([CInt(c, U8) for c in c1], U8)
        code2 = View([CInt(c, U8) for c in c2], U8)
        matrix = View([[CInt(e, I32) for e in row] for row in M], I32)
        GO, GE = CInt(go, I32), CInt(ge, I32)

        def sub(i, j):
            r = wide(M[0][0])
            for a in range(A):
                for b in range(A):
                    r = z3.If(z3.And(c1[i] == a, c2[j] == b), wide(M[a][b]), r)
            return r
        try:
            if affine:
                mn = M[0][0]
                for row in M:
                    for e in row:
                        mn = z3.If(e < mn, e, mn)
                mt, g1, g2, tr = init_affine(n, m, GO, GE, CInt(mn, I32), local, term)
                kf["_fill_align_table_affine"](code1, code2, matrix, tr, mt, g1, g2, GO, GE, term, local)
                if local:
                    impl = None
                    for row in mt.data:
                        for v in row:
                            impl = bv(v) if impl is None else z3.If(bv(v) > impl, bv(v), impl)
                else:
                    vals = [bv(mt.data[n][m]), bv(g1.data[n][m]), bv(g2.data[n][m])]
                    impl = vals[0]
                    for v in vals[1:]:
                        impl = z3.If(v > impl, v, impl)
                ref = reference(n, m, sub, (wide(go), wide(ge)), True, local, term)
            else:
                st, tr = init_linear(n, m, GO, local, term)
                kf["_fill_align_table"](code1, code2, matrix, tr, st, GO, term, local)
                if local:
                    impl = None
                    for row in st.data:
                        for v in row:
                            impl = bv(v) if impl is None else z3.If(bv(v) > impl, bv(v), impl)
                else:
                    impl = bv(st.data[n][m])
                ref = reference(n, m, sub, wide(go), False, local, term)
        except MemorySafety:
            return False
        return wide(impl) == ref
    wit = dict(n=n, m=m, A=A, affine=affine, local=local, term=term,
               code1=[z3.BV2Int(c) for c in c1], code2=[z3.BV2Int(c) for c in c2],
               matrix=[[e for e in row] for row in M], gap_open=go, gap_ext=ge)
    label = f"{n}x{m} |A|={A} {'affine' if affine else 'linear'} {'local' if local else ('global' if term else 'semi-global')}"
    return Case(label, base, run, wit, replay_score)


# ------------------------------------------------------------------------------- replay / oracle
def brute_force(code1, code2, matrix, gap, affine, local, term, require_pair=False):
    n, m = len(code1), len(code2)

    def score_of(aln, i0, j0, t):
        kinds = [c[0] for c in aln]
        if affine:
            for a, b in zip(kinds, kinds[1:]):
                if {a, b} == {"g1", "g2"}:
                    return None
        free = [False] * len(aln)
        if not t:
            for rng in (range(len(aln)), range(len(aln) - 1, -1, -1)):
                first = None
                for k in rng:
                    if kinds[k] == "m":
                        break
                    if first is None:
                        first = kinds[k]
                    if kinds[k] != first:
                        break
                    free[k] = True
        tot = 0
        for k, c in enumerate(aln):
            if c[0] == "m":
                tot += matrix[code1[i0 + c[1]]][code2[j0 + c[2]]]
            elif not free[k]:
                if affine:
                    tot += gap[0] if (k == 0 or kinds[k - 1] != c[0]) else gap[1]
                else:
                    tot += gap
        return tot
    if not local:
        if require_pair:
            vals = [s for s in (score_of(a, 0, 0, term) for a in alignments(n, m) if any(c[0] == "m" for c in a)) if s is not None]
            return max(vals) if vals else None
        return max(s for s in (score_of(a, 0, 0, term) for a in alignments(n, m)) if s is not None)
    best = 0
    for i0 in range(n + 1):
        for i1 in range(i0 + 1, n + 1):
            for j0 in range(m + 1):
                for j1 in range(j0 + 1, m + 1):
                    for a in alignments(i1 - i0, j1 - j0):
                        s = score_of(a, i0, j0, True)
                        if s is not None and s > best:
                            best = s
    return best


def replay_score(w):
    import numpy as np
    from biotite.sequence import Alphabet, GeneralSequence
    from biotite.sequence.align import SubstitutionMatrix, align_optimal
    A = w["A"]
    want = brute_force(w["code1"], w["code2"], w["matrix"], (w["gap_open"], w["gap_ext"]) if w["affine"] else w["gap_open"],
                       w["affine"], w["local"], w["term"])
    if state() != "fresh":
        got = source_score(w)
        return got == want, f"[source-level] score {got}, optimum over all alignments {want}"
    alph = Alphabet(list(range(A)))
    s1, s2 = GeneralSequence(alph), GeneralSequence(alph)
    s1.code = np.array(w["code1"], dtype=np.uint8)
    s2.code = np.array(w["code2"], dtype=np.uint8)
    mat = SubstitutionMatrix(alph, alph, np.array(w["matrix"], dtype=np.int32))
    gap = (w["gap_open"], w["gap_ext"]) if w["affine"] else w["gap_open"]
    alns = align_optimal(s1, s2, mat, gap_penalty=gap, terminal_penalty=w["term"], local=w["local"], max_number=1)
    got = alns[0].score if alns else 0
    return int(got) == want, f"align_optimal score {got}, optimum over all alignments {want}"


def source_score(w):
    kt, kf = kernel()
    kf._activate()
    n, m = len(w["code1"]), len(w["code2"])
    code1 = rt.const_view(w["code1"], "uint8")
    code2 = rt.const_view(w["code2"], "uint8")
    matrix = rt.const_view(w["matrix"], "int32")
    GO, GE = CInt.const(w["gap_open"], I32), CInt.const(w["gap_ext"], I32)
    if w["affine"]:
        mn = min(min(r) for r in w["matrix"])
        mt, g1, g2, tr = init_affine_concrete(n, m, w["gap_open"], w["gap_ext"], mn, w["local"], w["term"])
        kf["_fill_align_table_affine"](code1, code2, matrix, tr, mt, g1, g2, GO, GE, w["term"], w["local"])
        if w["local"]:
            return max(int(v) for row in mt.data for v in row)
        return max(int(mt.data[n][m]), int(g1.data[n][m]), int(g2.data[n][m]))
    st, tr = init_linear(n, m, GO, w["local"], w["term"])
    kf["_fill_align_table"](code1, code2, matrix, tr, st, GO, w["term"], w["local"])
    if w["local"]:
        return max(int(v) for row in st.data for v in row)
    return int(st.data[n][m])


def init_affine_concrete(n, m, go, ge, mn, local, term):
    neg = sentinel(go, ge, mn)
    mt, g1, g2, tr = init_affine(n, m, CInt.const(go, I32), CInt.const(ge, I32), CInt.const(0, I32), local, term)

    def fix(v):
        for row in v.data:
            for k, x in enumerate(row):
                if not x.concrete:
                    row[k] = CInt.const(neg, I32)
    # init_affine builds the sentinel with an ite over the (here concrete) minimum: recompute concretely
    negc = CInt.const(rt._wrap_py(neg, I32), I32)
    for v in (mt, g1, g2):
        for row in v.data:
            for k, x in enumerate(row):
                if not x.concrete or x.e == rt._wrap_py(-(1 << 31) - go - ge, I32):
                    row[k] = negc
    return mt, g1, g2, tr


def validate():
    st = state()
    if st != "fresh":
        return f"skipped: binary_state={st}"
    n = 0
    for w in [dict(A=2, affine=False, local=False, term=True, code1=[0, 1, 1], code2=[1, 1], matrix=[[5, -3], [-2, 4]], gap_open=-2, gap_ext=0),
              dict(A=2, affine=True, local=False, term=True, code1=[0, 1, 1], code2=[1, 0, 1], matrix=[[5, -3], [-2, 4]], gap_open=-6, gap_ext=-1),
              dict(A=2, affine=True, local=True, term=True, code1=[0, 1, 0], code2=[1, 1], matrix=[[5, -3], [-2, 4]], gap_open=-3, gap_ext=-3),
              dict(A=2, affine=False, local=False, term=False, code1=[0, 1], code2=[1, 1, 0], matrix=[[1, -1], [-1, 1]], gap_open=-5, gap_ext=0),
              dict(A=2, affine=True, local=False, term=False, code1=[0, 1, 1], code2=[1], matrix=[[2, -7], [-7, 2]], gap_open=-4, gap_ext=-2)]:
        w = dict(w, n=len(w["code1"]), m=len(w["code2"]))
        a = source_score(w)
        ok, obs = replay_score(w)
        import re
        b = int(re.search(r"score (-?\d+)", obs).group(1))
        if a != b:
            raise AssertionError(f"translator: {w}: lowered score {a} vs compiled {b}")
        n += 1
    return f"{n} concrete alignments: lowered kernels (+ transcribed initialisation) and compiled align_optimal give the same score; binary_state={st}"


def ob_fill(tier):
    cases = []
    shapes = [(1, 1), (2, 2), (2, 3), (3, 2)] if tier == "quick" else [(1, 1), (1, 3), (2, 2), (2, 3), (3, 2), (3, 3)]
    for (n, m) in shapes:
        for affine in (False, True):
            for local, term in ((False, True), (False, False), (True, True)):
                cases.append(build_case(n, m, 2, affine, local, term))
    if tier == "thorough":
        cases.append(build_case(2, 2, 3, False, False, True))
        cases.append(build_case(2, 2, 3, True, False, True))
    kt, kf = kernel()
    return cases, dict(validation=validate(), functions=kt.functions_info() + kf.functions_info())


# =============================================================================== traceback
def kernel_trace():
    if "tr" not in _k:
        kt, kf = kernel()
        _k["tr"] = Kernel("sequence/align/tracetable.pyx", ["follow_trace"], mode="int",
                          pxd="sequence/align/tracetable.pxd", package="sequence.align", unwind=40)
    return _k["tr"]


def postprocess(raw):
    """transcription of align_optimal's trace post-processing: flip, first occurrence of an index = symbol, else gap"""
    rows = [tuple(int(x) for x in r) for r in raw][::-1]
    out = []
    seen0, seen1 = set(), set()
    for a, b in rows:
        ca = a if a not in seen0 else -1
        cb = b if b not in seen1 else -1
        seen0.add(a)
        seen1.add(b)
        out.append((ca, cb))
    return out


def valid_alignment(cols, n, m, local):
    """contiguous, order preserving, no all-gap column, end-to-end unless local"""
    xs = [a for a, _ in cols if a != -1]
    ys = [b for _, b in cols if b != -1]
    if any(a == -1 and b == -1 for a, b in cols):
        return False
    if xs != list(range(xs[0], xs[0] + len(xs))) if xs else False:
        return False
    if ys != list(range(ys[0], ys[0] + len(ys))) if ys else False:
        return False
    if not local:
        return xs == list(range(n)) and ys == list(range(m))
    return True


def cols_score(cols, sub, gap, affine, term, n, m):
    """symbolic score of a concrete column list under align.score()'s model"""
    kinds = ["m" if a != -1 and b != -1 else ("g1" if a == -1 else "g2") for a, b in cols]
    free = [False] * len(cols)
    if not term:
        for rng in (range(len(cols)), range(len(cols) - 1, -1, -1)):
            first = None
            for k in rng:
                if kinds[k] == "m":
                    break
                if first is None:
                    first = kinds[k]
                if kinds[k] != first:
                    break
                free[k] = True
    tot = z3.IntVal(0)
    for k, (a, b) in enumerate(cols):
        if kinds[k] == "m":
            tot = tot + sub(a, b)
        elif not free[k]:
            if affine:
                tot = tot + (gap[0] if (k == 0 or kinds[k - 1] != kinds[k]) else gap[1])
            else:
                tot = tot + gap
    return tot


def build_trace_case(n, m, A, affine, local, term, max_number):
    kt, kf = kernel()
    ktr = kernel_trace()
    M = [[z3.Int(f"m{a}_{b}") for b in range(A)] for a in range(A)]
    c1 = [z3.BitVec(f"x{i}", 8) for i in range(n)]
    c2 = [z3.BitVec(f"y{j}", 8) for j in range(m)]
    go, ge = z3.Int("go"), z3.Int("ge")
    Bt = 8          # small score range: the traceback only depends on the order relations between sums
    base = [z3.And(e >= -Bt, e <= Bt) for row in M for e in row] + [z3.ULT(c, A) for c in c1 + c2]
    base += [go >= -Bt, go <= 0, ge >= -Bt, ge <= 0]
    if not affine:
        base.append(ge == 0)

    def run():
        kf._activate()
        code1 = View([CInt(c, U8) for c in c1], U8)
        code2 = View([CInt(c, U8) for c in c2], U8)
        matrix = View([[CInt(e, I32) for e in row] for row in M], I32)
        GO, GE = CInt(go, I32), CInt(ge, I32)

        def sub(i, j):
            r = M[0][0]
            for a in range(A):
                for b in range(A):
                    r = z3.If(z3.And(c1[i] == a, c2[j] == b), M[a][b], r)
            return r
        starts = []
        if affine:
            mn = M[0][0]
            for row in M:
                for e in row:
                    mn = z3.If(e < mn, e, mn)
            mt, g1, g2, tr = init_affine(n, m, GO, GE, CInt(mn, I32), local, term)
            kf["_fill_align_table_affine"](code1, code2, matrix, tr, mt, g1, g2, GO, GE, term, local)
            if local:
                best = None
                for row in mt.data:
                    for v in row:
                        best = bv(v) if best is None else z3.If(bv(v) > best, bv(v), best)
                for i in range(n + 1):
                    for j in range(m + 1):
                        if bool(mkb(bv(mt.data[i][j]) == best)):
                            starts.append((i, j, 1))
            else:
                vals = [bv(mt.data[n][m]), bv(g1.data[n][m]), bv(g2.data[n][m])]
                best = vals[0]
                for v in vals[1:]:
                    best = z3.If(v > best, v, best)
                for st_, v in zip((1, 2, 3), vals):
                    if bool(mkb(v == best)):
                        starts.append((n, m, st_))
            gap = (go, ge)
        else:
            st, tr = init_linear(n, m, GO, local, term)
            kf["_fill_align_table"](code1, code2, matrix, tr, st, GO, term, local)
            if local:
                best = None
                for row in st.data:
                    for v in row:
                        best = bv(v) if best is None else z3.If(bv(v) > best, bv(v), best)
                for i in range(n + 1):
                    for j in range(m + 1):
                        if bool(mkb(bv(st.data[i][j]) == best)):
                            starts.append((i, j, 0))
            else:
                best = bv(st.data[n][m])
                starts.append((n, m, 0))
            gap = go
        ktr._activate()
        trace_list = []
        for (i0, j0, st0) in starts:
            tr_arr = rt.const_view([[-1, -1] for _ in range(i0 + 1 + j0 + 1)], "int64")
            count = [CInt.const(1, I32)]
            try:
                ktr["follow_trace"](View(tr.data, U8), False, i0, j0, 0, tr_arr, trace_list, st0, count, max_number, 0, 0)
            except MemorySafety:
                return False
        trace_list = trace_list[:max_number]
        if not trace_list:
            return False
        conds = []
        seen = set()
        for raw in trace_list:
            cols = postprocess(raw.data)
            if local and not cols:
                conds.append(best == 0)
                continue
            if not cols or not valid_alignment(cols, n, m, local):
                return False
            key = tuple(cols)
            if key in seen:
                return False
            seen.add(key)
            conds.append(cols_score(cols, sub, gap, affine, term if not local else True, n, m) == best)
        return z3.And(*conds) if conds else True
    wit = dict(n=n, m=m, A=A, affine=affine, local=local, term=term, max_number=max_number,
               code1=[z3.BV2Int(c) for c in c1], code2=[z3.BV2Int(c) for c in c2],
               matrix=[[e for e in row] for row in M], gap_open=go, gap_ext=ge)
    label = f"traceback {n}x{m} {'affine' if affine else 'linear'} {'local' if local else ('global' if term else 'semi-global')} max_number={max_number}"
    return Case(label, base, run, wit, replay_trace)


def mkb(e):
    from vf.sx.core import mkbool
    return mkbool(e)


def replay_trace(w):
    """real build: every returned alignment is valid, distinct, scores to the reported (optimal) value"""
    import numpy as np
    from biotite.sequence import Alphabet, GeneralSequence
    from biotite.sequence.align import SubstitutionMatrix, align_optimal, score as aln_score_fn
    A = w["A"]
    want = brute_force(w["code1"], w["code2"], w["matrix"], (w["gap_open"], w["gap_ext"]) if w["affine"] else w["gap_open"],
                       w["affine"], w["local"], w["term"])
    kernel_trace()
    if state() != "fresh":
        return source_trace(w)
    alph = Alphabet(list(range(A)))
    s1, s2 = GeneralSequence(alph), GeneralSequence(alph)
    s1.code = np.array(w["code1"], dtype=np.uint8)
    s2.code = np.array(w["code2"], dtype=np.uint8)
    mat = SubstitutionMatrix(alph, alph, np.array(w["matrix"], dtype=np.int32))
    gap = (w["gap_open"], w["gap_ext"]) if w["affine"] else w["gap_open"]
    alns = align_optimal(s1, s2, mat, gap_penalty=gap, terminal_penalty=w["term"], local=w["local"], max_number=w["max_number"])
    if len(alns) > w["max_number"] or not alns:
        return False, f"{len(alns)} alignments returned"
    seen = set()
    for a in alns:
        cols = [tuple(int(x) for x in r) for r in a.trace]
        if a.score != want:
            return False, f"reported score {a.score}, optimum {want}"
        if cols:
            if not valid_alignment(cols, len(w["code1"]), len(w["code2"]), w["local"]):
                return False, f"invalid trace {cols}"
            rec = aln_score_fn(a, mat, gap_penalty=gap, terminal_penalty=w["term"] if not w["local"] else True)
            if rec != a.score:
                return False, f"trace {cols} recomputes to {rec}, reported {a.score}"
        if cols and tuple(cols) in seen:
            return False, "duplicate alignment"
        seen.add(tuple(cols))
    return True, f"{len(alns)} alignments, score {want}"


def ob_traceback(tier):
    cases = []
    shapes = [(1, 1), (2, 2)] if tier == "quick" else [(1, 1), (1, 2), (2, 2), (2, 3), (3, 2)]
    for (n, m) in shapes:
        for affine in (False, True):
            for local, term in ((False, True), (False, False), (True, True)):
                for mx in ((1, 1000) if tier == "quick" else (1, 2, 1000)):
                    cases.append(build_trace_case(n, m, 2, affine, local, term, mx))
    ktr = kernel_trace()
    return cases, dict(functions=ktr.functions_info(), validation="follow_trace: every counterexample is replayed through the compiled align_optimal")


def source_trace(w):
    """source-level replay: the same case with every input pinned to its concrete value (one path)"""
    from vf.sx.core import Explorer
    case = build_trace_case(w["n"], w["m"], w["A"], w["affine"], w["local"], w["term"], w["max_number"])
    pins = []
    for i, c in enumerate(w["code1"]):
        pins.append(z3.BitVec(f"x{i}", 8) == c)
    for j, c in enumerate(w["code2"]):
        pins.append(z3.BitVec(f"y{j}", 8) == c)
    for a, row in enumerate(w["matrix"]):
        for b, e in enumerate(row):
            pins.append(z3.Int(f"m{a}_{b}") == e)
    pins += [z3.Int("go") == w["gap_open"], z3.Int("ge") == w["gap_ext"]]
    ex = Explorer(timeout_s=60)
    ex.base = list(case.base) + pins
    res = []

    def path():
        try:
            return ("ok", case.run())
        except Exception as e:
            return ("exc", e)

    def on_path(val, ex):
        kind, v = val
        if kind == "exc":
            res.append((False, f"{type(v).__name__}: {v}"))
        else:
            from vf.sx.core import tobool
            r = ex._check(z3.Not(tobool(v) if not isinstance(v, bool) else z3.BoolVal(v)))
            res.append((r == z3.unsat, "assertion " + ("holds" if r == z3.unsat else "violated")))
    ex.explore(path, on_path)
    ok = bool(res) and all(r[0] for r in res)
    return ok, "[source-level] " + "; ".join(r[1] for r in res)
