from vf.sx.ob import SX

A = "src/biotite/sequence/align/"
OBLIGATIONS = [
    SX("kx_seed_extend", "kx_c09", "ob_seed_extend", cls="S", engine="KX", quick=300, thorough=1500, parts={"quick": 4, "thorough": 6},
       functions=[A + "localungapped.pyx:_seed_extend_generic", A + "localungapped.pyx:_seed_extend_uint8", A + "localungapped.pyx:_min"],
       stubs=["int32 scores as mathematical ints converted on every store; uint8 codes as bit-vectors; fused instantiation uint8 x uint8"],
       bounds="diagonal length 1..4 (thorough 1..6), symbolic codes over |A|=2, EVERY matrix entry in +-2^20, every threshold in 0..2^22: result == X-drop definition, score == prefix sum at the returned length, <= maximum prefix sum, == maximum when the threshold cannot bind, both kernel variants agree"),
    SX("sx_ungapped", "sx_c09", "ob_ungapped", cls="E", quick=600, thorough=3000, parts={"quick": 8, "thorough": 16},
       functions=[A + "localungapped.pyx:align_local_ungapped (compiled)"],
       bounds="all code combinations for shapes (2,2),(3,3) (thorough up to 4x3) x 3 (5) matrices x every seed x 3 (4) thresholds x 3 directions; score_only"),
    SX("sx_gapped", "sx_c09", "ob_gapped", cls="E", quick=900, thorough=3600, parts={"quick": 12, "thorough": 16},
       functions=[A + "localgapped.pyx:align_local_gapped/_align_region/_fill_align_table(_affine) (compiled)", A + "tracetable.pyx:follow_trace"],
       bounds="all code combinations for shapes (2,2),(3,2) (thorough up to 3x3) x 3 (5) matrices x 2 (4) gap settings x every seed x thresholds x directions; oracle = brute force over all local alignments through the seed"),
    SX("sx_banded", "sx_c09", "ob_banded", cls="E", quick=900, thorough=3600, parts={"quick": 8, "thorough": 16},
       functions=[A + "banded.pyx:align_banded/_fill_align_table(_affine)/get_global_trace_starts (compiled)"],
       bounds="all code combinations for shapes (2,2),(3,2) (thorough up to 3x3/4x2) x matrices x gap settings x every ordered band pair in [-n-1, m+1] x {semi-global, local}"),
    SX("kx_banded_fill", "kx_c09_banded", "ob_banded_fill", cls="S", engine="KX", quick=600, thorough=3000, parts={"quick": 16, "thorough": 16},
       functions=[A + "banded.pyx:_fill_align_table", A + "tracetable.pyx:get_trace_linear"],
       stubs=["table layout of align_banded transcribed (zeros, boundary columns); the 'negative infinity' value is cut out of the current align_banded source (vf/kx/wslice.py)", "int32 scores as mathematical ints converted on every store; uint8 codes as bit-vectors; if-converted"],
       bounds="shapes 2x2, 2x3, 3x3 (thorough + 3x4, 2x4), 6-8 (all) cropped bands per shape, semi-global and local, symbolic codes over |A|=2, EVERY matrix entry in +-2^20, gap penalty in -2^20..0: each cell inside the band <= the unbanded optimum for that end point; each cell == the banded recurrence stated in sequence coordinates (border positions count as 0); local cells >= 0; no access outside the tables"),
    SX("kx_banded_fill_affine", "kx_c09_banded", "ob_banded_fill_affine", cls="S", engine="KX", quick=600, thorough=3000, parts={"quick": 16, "thorough": 16},
       functions=[A + "banded.pyx:_fill_align_table_affine", A + "tracetable.pyx:get_trace_affine"],
       stubs=["table layout of align_banded (affine: three tables) transcribed; the 'negative infinity' sentinel formula is cut out of the current align_banded source and evaluated over z3 integers (vf/kx/wslice.py)", "int32 arithmetic: every + - * result is checked against its C type and wraps where an overflow is feasible"],
       bounds="shapes 2x2 (all 6 bands), 2x3 (4 bands; thorough all, + 3x3), semi-global and local, symbolic codes over |A|=2, EVERY matrix entry in +-2^20, gap opening and extension in -2^20..0: no cell of the three score tables exceeds the largest score any alignment can reach (largest positive matrix entry x min(n, m)), i.e. the sentinel never wraps"),
]
EXPLANATION = "C09: heuristic alignments are valid, honestly scored and never above optimal."
ASSUMPTIONS = []
