"""C03/C10 (KX engine): k-mer decomposition kernels of kmeralphabet.pyx over symbolic sequence codes."""
import z3

from vf.kx.kernel import Kernel, SymArray
from vf.kx.freshness import binary_state
from vf.kx import rt
from vf.kx.rt import CInt, View, MemorySafety, const_view
from vf.sx.ob import Case

REL = "sequence/align/kmeralphabet.pyx"
_k = {}


def kernel():
    if "k" not in _k:
        from biotite.sequence.alphabet import AlphabetError
        _k["k"] = Kernel(REL, [("KmerAlphabet", "_create_continuous_kmers"), ("KmerAlphabet", "_create_spaced_kmers"),
                               ("KmerAlphabet", "_split"), ("KmerAlphabet", "kmer_array_length")],
                         mode="int", fused={"CodeType": "uint8"}, package="sequence.align",
                         extra_ns=dict(AlphabetError=AlphabetError))
    return _k["k"]


def state():
    k = kernel()
    return binary_state(k.path, [(m["lineno"], m["nlines"]) for m in k.meta.values()])


class Base:
    def __init__(self, n):
        self.n = n

    def __len__(self):
        return self.n


class Self:
    def __init__(self, A, k, spacing):
        kk = kernel()
        self._k = k
        self._base_alph = Base(A)
        self._radix_multiplier = const_view([A ** (k - 1 - i) for i in range(k)], "int64")
        self._spacing = None if spacing is None else const_view(spacing, "int64")
        self.kmer_array_length = lambda length: kk["kmer_array_length"](self, length)


def offsets(k, spacing):
    return list(range(k)) if spacing is None else list(spacing)


def real_kmers(w):
    import numpy as np
    from biotite.sequence import Alphabet, AlphabetError
    from biotite.sequence.align import KmerAlphabet
    if state() != "fresh":
        return source_kmers(w)
    A, k, spacing, codes = w["A"], w["k"], w["spacing"], w["codes"]
    ka = KmerAlphabet(Alphabet(list(range(A))), k, spacing=None if spacing is None else "".join("1" if i in spacing else "0" for i in range(spacing[-1] + 1)))
    off = offsets(k, spacing)
    span = off[-1] + 1
    used = sorted({i + o for i in range(len(codes) - span + 1) for o in off})
    legal = all(codes[u] < A for u in used)      # positions that never enter a k-mer cannot yield a wrong value
    try:
        kmers = ka.create_kmers(np.array(codes, dtype=np.uint8))
    except AlphabetError:
        return (not legal), "AlphabetError"
    if not legal:
        # a code >= |A| that is never part of a checked window cannot occur: every position is in some window
        return False, f"illegal code accepted: {kmers.tolist()}"
    want = [sum(codes[i + o] * A ** (k - 1 - j) for j, o in enumerate(off)) for i in range(len(codes) - span + 1)]
    if kmers.tolist() != want:
        return False, f"kmers {kmers.tolist()} vs {want}"
    back = ka.split(kmers)
    wantb = [[codes[i + o] for o in off] for i in range(len(want))]
    return back.tolist() == wantb and ka.fuse(back).tolist() == want, f"split {back.tolist()}"


def source_kmers(w):
    k_ = kernel()
    k_._activate()
    A, k, spacing, codes = w["A"], w["k"], w["spacing"], w["codes"]
    me = Self(A, k, spacing)
    off = offsets(k, spacing)
    span = off[-1] + 1
    used = sorted({i + o for i in range(len(codes) - span + 1) for o in off})
    legal = all(codes[u] < A for u in used)
    from biotite.sequence import AlphabetError
    try:
        f = k_["_create_continuous_kmers"] if spacing is None else k_["_create_spaced_kmers"]
        kmers = f(me, const_view(codes, "uint8"))
    except AlphabetError:
        return (not legal), "[source-level] AlphabetError"
    except MemorySafety as e:
        return False, f"[source-level] {e}"
    got = [int(x) for x in kmers.data]
    want = [sum(codes[i + o] * A ** (k - 1 - j) for j, o in enumerate(off)) for i in range(len(codes) - span + 1)]
    return legal and got == want, f"[source-level] kmers {got} vs {want}"


def validate():
    st = state()
    if st != "fresh":
        return f"skipped: binary_state={st}"
    n = 0
    for w in [dict(A=4, k=2, spacing=None, codes=[0, 3, 2, 1]), dict(A=5, k=3, spacing=None, codes=[4, 0, 1, 2, 3]),
              dict(A=4, k=2, spacing=[0, 2], codes=[1, 2, 3, 0]), dict(A=4, k=2, spacing=None, codes=[0, 4, 1]),
              dict(A=2, k=3, spacing=[0, 1, 3], codes=[1, 0, 1, 1, 0])]:
        a, b = source_kmers(w), real_kmers(w)
        if a[0] != b[0]:
            raise AssertionError(f"translator: {w}: lowered {a} vs compiled {b}")
        n += 1
    return f"{n} concrete vectors: lowered source and compiled module agree; binary_state={st}"


def ob_kmers(tier):
    from biotite.sequence import AlphabetError
    k_ = kernel()
    cases = []
    configs = [(2, 2, None), (4, 2, None), (4, 3, None), (5, 2, None), (4, 2, [0, 2]), (4, 3, [0, 1, 3]), (2, 3, [0, 2, 3])]
    if tier == "thorough":
        configs += [(5, 3, None), (20, 2, None), (4, 4, None), (20, 2, [0, 3])]
    for A, k, spacing in configs:
        off = offsets(k, spacing)
        span = off[-1] + 1
        for extra in ((0, 1, 2) if tier == "quick" else (0, 1, 2, 3)):
            n = span + extra
            vs = [z3.Int(f"c{i}") for i in range(n)]
            base = [z3.And(v >= 0, v <= min(A + 1, 255)) for v in vs]

            def run(A=A, k=k, spacing=spacing, vs=vs, off=off, span=span, n=n):
                k_._activate()
                me = Self(A, k, spacing)
                seq = View([CInt(v, rt.TYPES["uint8"]) for v in vs], rt.TYPES["uint8"])
                used = sorted({i + o for i in range(n - span + 1) for o in off})
                legal = z3.And(*[vs[u] < A for u in used])
                f = k_["_create_continuous_kmers"] if spacing is None else k_["_create_spaced_kmers"]
                try:
                    kmers = f(me, seq)
                except AlphabetError:
                    return z3.Not(legal)
                except MemorySafety:
                    return False
                conds = [legal, len(kmers.data) == n - span + 1]
                for i, km in enumerate(kmers.data):
                    conds.append(km.as_int_term() == z3.Sum([vs[i + o] * A ** (k - 1 - j) for j, o in enumerate(off)]))
                # split(kmers) gives back the window codes
                try:
                    sp = k_["_split"](me, View(list(kmers.data), rt.TYPES["int64"]))
                except MemorySafety:
                    return False
                for i, row in enumerate(sp.data):
                    for j, o in enumerate(off):
                        conds.append(row[j].as_int_term() == vs[i + o])
                return z3.And(*[c if not isinstance(c, bool) else z3.BoolVal(c) for c in conds])
            cases.append(Case(f"|A|={A} k={k} spacing={spacing} len={n}", base, run,
                              dict(A=A, k=k, spacing=spacing, codes=vs), real_kmers))
    return cases, dict(validation=validate(), functions=k_.functions_info(),
                       functions_hash=",".join(m["sha1"] for m in k_.meta.values()))
