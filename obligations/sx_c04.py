"""C04 (E-class + thin S): a structure survives a CIF / BinaryCIF / compressed BinaryCIF write-read cycle.

Structures are assembled from z3-chosen menu selectors (chain ids, residue ids, insertion codes, names with quotes
and primes, hetero flags, optional fields, intra- and inter-residue bonds of every type the format can express, box),
written with the real convert.py into the three file forms, read back and compared field by field.
Model / altloc selection takes a SYMBOLIC model number and is compared with a row filter model."""
import io

import numpy as np
import z3

import ccd_fixture
from vf.sx.core import cur
from vf.sx.ob import Case

CHAINS = ["A", "B", "AA", "A'"]
RESIDS = [1, 2, -1, 10, 128, -300]
# atom names belong to the residue type (as in real files)
ATOMNAMES = [["N", "CA", "C"], ["N", "CA", "C"], ["C1\"", "O5'", "C3"], ["N", "CA", "C"]]
RESN = ["ALA", "GLY", "LIG", "SER"]
INTRA_TYPES = [1, 2, 3, 5, 6, 0, 4, 7]          # types written into chem_comp_bond
INTER_TYPES = [1, 2, 3, 4, 8]                   # single, double, triple, quadruple, coordination (struct_conn can express these)


def _rep(f, *keys):
    def g(w):
        try:
            ccd_fixture.activate()
            r = f(*[w[k] for k in keys])
            return r is None, str(r)
        except Exception as e:
            import traceback
            return False, f"{type(e).__name__}: {e} | {traceback.format_exc()[-500:]}"
    return g


def build(sel):
    """sel: dict of menu choices -> AtomArray / AtomArrayStack with 2 residues x 3 atoms"""
    import biotite.structure as struc
    r1, r2 = sel["res1"], sel["res2"]
    if sel.get("same"):
        r2 = r1                # two residues of the same type (they may then differ by insertion code only)
    names = ATOMNAMES[r1] + ATOMNAMES[r2]
    n = 6
    arr = struc.AtomArray(n)
    arr.chain_id = np.array([CHAINS[sel["chain1"]]] * 3 + [CHAINS[sel["chain2"]]] * 3)
    rid1, rid2 = RESIDS[sel["rid1"]], RESIDS[sel["rid2"]]
    ins1, ins2 = ("A" if sel["ins"] & 1 else ""), ("B" if sel["ins"] & 2 else "")
    if CHAINS[sel["chain1"]] == CHAINS[sel["chain2"]] and (rid1, ins1) == (rid2, ins2):
        return None            # residues must be uniquely identifiable (chain, residue id, insertion code)
    arr.res_id = np.array([rid1] * 3 + [rid2] * 3)
    arr.ins_code = np.array([ins1] * 3 + [ins2] * 3)
    arr.res_name = np.array([RESN[r1]] * 3 + [RESN[r2]] * 3)
    arr.atom_name = np.array(names)
    arr.element = np.array(["N" if x.startswith("N") else "O" if x.startswith("O") else "C" for x in names])
    arr.hetero = np.array([RESN[r1] == "LIG"] * 3 + [RESN[r2] == "LIG"] * 3)
    arr.coord = np.array([[0.5 * i, -1.25 * i, 100.0 + i] for i in range(n)], dtype=np.float32)
    if sel["box"] == 2:
        # "unrounded" coordinates with a wide dynamic range (many decimals needed, negative extreme much larger than the
        # positive one): exact through text and plain binary, within the compression tolerance after compress()
        arr.coord[:, 0] = np.array([-13.206373, 0.0012345678, -7.5000005, -3.3333333, -55.00042, -1.0000001], dtype=np.float32)[:n]
    opt = sel["opt"]
    if opt & 1:
        arr.set_annotation("b_factor", np.array([10.5 + i for i in range(n)], dtype=np.float32))
    if opt & 2:
        arr.set_annotation("occupancy", np.array([1.0, 0.5, 0.25, 1.0, 0.75, 0.5], dtype=np.float32))
    if opt & 4:
        arr.set_annotation("charge", np.array([0, 12, -10, 1, 2, -2], dtype=int))        # two-digit charges included
    if opt & 8:
        arr.set_annotation("atom_id", np.array([7, 8, 9, 20, 21, 22], dtype=int))
        # entity numbers as they stand after a selection / reordering (not 1, 2, ... by first appearance)
        arr.set_annotation("label_entity_id", np.array(["3", "3", "3", "1", "1", "1"]))
    if opt & 1 and opt & 2:
        # a free-text extra field with awkward values (quotes, primes, blanks)
        arr.set_annotation("note", np.array(["5' end", "a b", 'say "x"', "it's", "plain", "O5'"]))
    bonds = []
    bt = sel["bond"]
    if bt >= 0:
        # intra-residue bonds are a property of the residue TYPE (chem_comp_bond): same atoms and type for equal names
        bonds.append((0, 1, INTRA_TYPES[(bt + r1) % len(INTRA_TYPES)]))
        bonds.append((3, 4, INTRA_TYPES[(bt + r2) % len(INTRA_TYPES)]))
        bonds.append((1, 2, INTRA_TYPES[(bt + 3 + r1) % len(INTRA_TYPES)]))
        bonds.append((4, 5, INTRA_TYPES[(bt + 3 + r2) % len(INTRA_TYPES)]))
        # inter-residue bond between atom 2 of residue 1 and atom 0/1 of residue 2
        a2 = 3 + sel["link"] % 2
        itype = INTER_TYPES[bt % len(INTER_TYPES)]
        canonical = RESN[r1] != "LIG" and RESN[r2] != "LIG"
        if canonical and CHAINS[sel["chain1"]] == CHAINS[sel["chain2"]] and rid2 - rid1 <= 1:
            # adjacent canonical residues: the reader re-creates the peptide bond C-N by rule (and the writer omits it),
            # so a faithful structure has exactly this single bond there
            a2, itype = 3, 1
        bonds.append((2, a2, itype))
        arr.bonds = struc.BondList(n, np.array(bonds))
    box = sel["box"]
    if box == 1:
        arr.box = np.diag([10.0, 20.0, 30.0]).astype(np.float32)
    elif box == 2:
        arr.box = np.array([[10.0, 0, 0], [0, 20.0, 0], [0, 0, 30.0]], dtype=np.float32)
        from biotite.structure.box import vectors_from_unitcell
        arr.box = vectors_from_unitcell(10.0, 20.0, 30.0, np.deg2rad(90), np.deg2rad(60), np.deg2rad(90)).astype(np.float32)
    if sel["models"] == 2:
        st = struc.stack([arr, arr])
        st.coord[1] += 5.0
        return st
    return arr


def compare(a, b, opt, with_bonds, coord_rtol=0.0):
    import biotite.structure as struc
    if type(a) is not type(b) or a.array_length() != b.array_length():
        return f"type/length {type(b).__name__} {b.array_length()}"
    for cat in ("chain_id", "res_id", "ins_code", "res_name", "hetero", "atom_name", "element"):
        if a.get_annotation(cat).tolist() != b.get_annotation(cat).tolist():
            return f"{cat}: written {a.get_annotation(cat).tolist()} read {b.get_annotation(cat).tolist()}"
    if not (np.array_equal(np.asarray(a.coord), np.asarray(b.coord)) if coord_rtol == 0 else
            np.allclose(np.asarray(a.coord, dtype=float), np.asarray(b.coord, dtype=float), rtol=coord_rtol, atol=0)):
        return f"coord differ: written {np.asarray(a.coord).tolist()} read {np.asarray(b.coord).tolist()}"
    for bit, cat in ((1, "b_factor"), (2, "occupancy"), (4, "charge"), (8, "atom_id"), (3, "note"), (8, "label_entity_id")):
        if opt & bit == bit and [str(x) if cat == "label_entity_id" else x for x in a.get_annotation(cat).tolist()] != \
                [str(x) if cat == "label_entity_id" else x for x in b.get_annotation(cat).tolist()]:
            return f"{cat}: written {a.get_annotation(cat).tolist()} read {b.get_annotation(cat).tolist()}"
    if (a.box is None) != (b.box is None):
        return "box presence"
    if a.box is not None and not np.allclose(np.asarray(a.box), np.asarray(b.box), atol=1e-3):
        return f"box {np.asarray(b.box).tolist()}"
    if with_bonds:
        if b.bonds is None:
            return "bonds missing"
        if a.bonds.as_set() != b.bonds.as_set():
            return f"bonds written {sorted(a.bonds.as_set())} read {sorted(b.bonds.as_set())}"
    return None


def check_roundtrip(sel):
    import biotite.structure.io.pdbx as pdbx
    ccd_fixture.activate()
    atoms = build(sel)
    if atoms is None:
        return None
    opt, with_bonds = sel["opt"], sel["bond"] >= 0
    extra = [c for bit, c in ((1, "b_factor"), (2, "occupancy"), (4, "charge"), (8, "atom_id"), (8, "label_entity_id")) if opt & bit]
    user_fields = ["note"] if (opt & 3) == 3 else []
    extra = extra + user_fields
    results = {}
    for form in ("cif", "bcif", "bcif-compressed"):
        f = pdbx.CIFFile() if form == "cif" else pdbx.BinaryCIFFile()
        pdbx.set_structure(f, atoms, include_bonds=with_bonds, extra_fields=user_fields)
        if form == "bcif-compressed":
            f = pdbx.compress(f)
        buf = io.StringIO() if form == "cif" else io.BytesIO()
        f.write(buf)
        buf.seek(0)
        g = (pdbx.CIFFile if form == "cif" else pdbx.BinaryCIFFile).read(buf)
        back = pdbx.get_structure(g, model=None if sel["models"] == 2 else 1, include_bonds=with_bonds, extra_fields=extra)
        why = compare(atoms, back, opt, with_bonds, coord_rtol=3e-6 if form == "bcif-compressed" else 0.0)
        if why:
            return f"{form}: {why}"
        results[form] = back
        if with_bonds and form == "cif":
            # the struct_conn matcher switches to a dictionary-based implementation for large inputs
            # (FIND_MATCHES_SWITCH_THRESHOLD): read the same file through that implementation as well
            from biotite.structure.io.pdbx import convert as _cv
            old = _cv.FIND_MATCHES_SWITCH_THRESHOLD
            _cv.FIND_MATCHES_SWITCH_THRESHOLD = -1
            try:
                buf.seek(0)
                back2 = pdbx.get_structure(pdbx.CIFFile.read(buf), model=None if sel["models"] == 2 else 1, include_bonds=True, extra_fields=extra)
            finally:
                _cv.FIND_MATCHES_SWITCH_THRESHOLD = old
            why = compare(atoms, back2, opt, with_bonds)
            if why:
                return f"{form} read through the dictionary-based struct_conn matcher: {why}"
    for form in ("bcif", "bcif-compressed"):
        why = compare(results["cif"], results[form], opt, with_bonds, coord_rtol=3e-6 if form == "bcif-compressed" else 0.0)
        if why:
            return f"text and {form} decode differently: {why}"
    return None


SEL_KEYS = ["res1", "res2", "chain1", "chain2", "rid1", "rid2", "ins", "opt", "bond", "link", "box", "models"]
SEL_RANGE = dict(same=2, res1=4, res2=4, chain1=4, chain2=4, rid1=len(RESIDS), rid2=len(RESIDS), ins=4, opt=16, bond=9, link=2, box=3, models=2)


def check_interleaved(mid, link, models):
    """three residues where the two that are bonded (C of A/1 - N of A/2, a peptide link by chemistry) are not neighbours
    in the atom order: another residue stands between them. The reader re-creates peptide bonds only between neighbouring
    residues, so this bond has to be written out - and comes back."""
    import biotite.structure as struc
    import biotite.structure.io.pdbx as pdbx
    ccd_fixture.activate()
    n = 9
    arr = struc.AtomArray(n)
    # (the residue in between belongs to another chain: between neighbouring residues of ONE chain the reader adds a
    #  backbone bond by rule, whatever their numbering, so such a structure without that bond is not expressible)
    mid_chain, mid_res = [("B", 1), ("C", 7), ("B", 2)][mid]
    arr.chain_id = np.array(["A"] * 3 + [mid_chain] * 3 + ["A"] * 3)
    arr.res_id = np.array([1] * 3 + [mid_res] * 3 + [2] * 3)
    arr.res_name = np.array(["ALA"] * 3 + ["GLY"] * 3 + ["ALA"] * 3)
    arr.atom_name = np.array(["N", "CA", "C"] * 3)
    arr.element = np.array(["N", "C", "C"] * 3)
    arr.coord = np.array([[1.5 * i, 0.5 * i, -1.0 * i] for i in range(n)], dtype=np.float32)
    bonds = [(0, 1, 1), (1, 2, 1), (3, 4, 1), (4, 5, 1), (6, 7, 1), (7, 8, 1)]
    bonds.append([(2, 6, 1), (2, 6, 2), (2, 7, 1)][link])          # C(A/1) - N(A/2) single / double, C(A/1) - CA(A/2)
    arr.bonds = struc.BondList(n, np.array(bonds))
    atoms = arr if models == 1 else struc.stack([arr, arr])
    for form in ("cif", "bcif", "bcif-compressed"):
        f = pdbx.CIFFile() if form == "cif" else pdbx.BinaryCIFFile()
        pdbx.set_structure(f, atoms, include_bonds=True)
        if form == "bcif-compressed":
            f = pdbx.compress(f)
        buf = io.StringIO() if form == "cif" else io.BytesIO()
        f.write(buf)
        buf.seek(0)
        g = (pdbx.CIFFile if form == "cif" else pdbx.BinaryCIFFile).read(buf)
        back = pdbx.get_structure(g, model=None if models == 2 else 1, include_bonds=True)
        why = compare(atoms, back, 0, True)
        if why:
            return f"{form}: residues A/1, {mid_chain}/{mid_res}, A/2 with bond {bonds[-1]}: {why}"
    return None


def ob_roundtrip(tier):
    """each case varies 3-4 selector dimensions symbolically and fixes the others"""
    cases = []
    DEFAULT = dict(same=0, res1=0, res2=1, chain1=0, chain2=0, rid1=0, rid2=1, ins=0, opt=0, bond=0, link=0, box=0, models=0)
    groups = [("res1", "res2", "bond", "link"), ("chain1", "chain2", "rid1", "rid2"), ("ins", "rid1", "rid2", "models"),
              ("opt", "box", "models"), ("bond", "link", "chain2", "models"), ("res1", "res2", "opt"),
              ("same", "ins", "rid1", "rid2", "res1")]
    if tier == "thorough":
        groups += [("res1", "res2", "bond", "link", "chain2"), ("opt", "bond", "box", "models", "ins")]
    for grp in groups:
        vs = {k: z3.Int(k) for k in grp}
        base = []
        for k, v in vs.items():
            lo = -1 if k == "bond" else 0
            hi = SEL_RANGE[k] - 1 + (0 if k != "bond" else -1)
            base += [v >= lo, v <= (SEL_RANGE[k] - 2 if k == "bond" else SEL_RANGE[k] - 1)]

        def run(vs=vs):
            ex = cur()
            sel = dict(DEFAULT)
            for k, v in vs.items():
                rng = range(-1, SEL_RANGE[k] - 1) if k == "bond" else range(SEL_RANGE[k])
                sel[k] = ex.choose(v, rng)
            sel["models"] = sel["models"] + 1 if "models" in vs else 1
            return check_roundtrip(sel) is None
        wit = dict(DEFAULT)
        wit.update(vs)
        cases.append(Case("roundtrip vary " + "+".join(grp), base, run, dict(sel=wit, varied=list(grp)), _replay_roundtrip))
    md, lk, mo = z3.Ints("md lk mo")
    cases.append(Case("bonded residues that are not neighbours in the atom order", [md >= 0, md < 3, lk >= 0, lk < 3, mo >= 1, mo <= 2],
                      lambda: check_interleaved(cur().choose(md, range(3)), cur().choose(lk, range(3)), cur().choose(mo, (1, 2))) is None,
                      dict(mid=md, link=lk, models=mo), _rep(check_interleaved, "mid", "link", "models")))
    return cases


def _replay_roundtrip(w):
    sel = dict(w["sel"])
    sel["models"] = sel["models"] + 1 if "models" in w["varied"] else 1
    return _rep(check_roundtrip, "sel")(dict(sel=sel))


# ------------------------------------------------------------------- model / altloc selection
OCC = [("0.30", "0.70"), ("0.70", "0.30"), ("0.50", "0.50"), ("0.00", "0.00"), ("0.00", "0.40"), ("1.00", "0.00")]


def check_model_select(model, nmodels, altloc, occ=0):
    import biotite.structure as struc
    import biotite.structure.io.pdbx as pdbx
    ccd_fixture.activate()
    base = build(dict(res1=0, res2=1, chain1=0, chain2=0, rid1=0, rid2=1, ins=0, opt=2, bond=-1, link=0, box=0, models=1))
    st = struc.stack([base] * nmodels)
    for k in range(nmodels):
        st.coord[k] += 10.0 * k
    f = pdbx.CIFFile()
    pdbx.set_structure(f, st)
    # alternate locations: duplicate atom 1 of the atom_site rows with altloc ids A/B and different occupancies
    block = f.block
    site = block["atom_site"]
    n = base.array_length()
    cols = {k: site[k].as_array(str).tolist() for k in site.keys()}
    rows = list(range(len(cols["id"])))
    new_rows = []
    for r in rows:
        new_rows.append((r, "A" if r % n == 1 else "."))
        if r % n == 1:
            new_rows.append((r, "B"))
    newcols = {k: [cols[k][r] for r, _ in new_rows] for k in cols}
    newcols["label_alt_id"] = [a for _, a in new_rows]
    occ_a, occ_b = OCC[occ]
    b_wins = float(occ_b) > float(occ_a)          # highest occupancy; the first altloc wins a tie (also a tie at zero)
    newcols["occupancy"] = [occ_a if a == "A" else occ_b if a == "B" else "1.00" for _, a in new_rows]
    newcols["Cartn_x"] = [str(float(x) + (500.0 if a == "B" else 0.0)) for x, (_, a) in zip(newcols["Cartn_x"], new_rows)]
    newcols["id"] = [str(i + 1) for i in range(len(new_rows))]
    block["atom_site"] = pdbx.CIFCategory({k: np.array(v) for k, v in newcols.items()})
    g = pdbx.CIFFile.deserialize(f.serialize())
    valid = model is None or (model != 0 and -nmodels <= model <= nmodels)
    policy = ["first", "occupancy", "all"][altloc]
    try:
        res = pdbx.get_structure(g, model=model, altloc=policy, extra_fields=["occupancy"])
    except (IndexError, ValueError) as e:
        return None if not valid else f"valid model {model} refused: {e}"
    if not valid:
        return f"model {model} of {nmodels} accepted"
    per_model = n + (1 if policy == "all" else 0)
    if model is None:
        if res.stack_depth() != nmodels or res.array_length() != per_model:
            return f"stack shape {res.shape}"
        ks = list(range(nmodels))
        coords = res.coord
    else:
        if res.array_length() != per_model:
            return f"{res.array_length()} atoms for policy {policy}"
        ks = [(model - 1) if model > 0 else (nmodels + model)]
        coords = res.coord[None]
    for slot, k in enumerate(ks):
        exp = [float(base.coord[i, 0]) + 10.0 * k for i in range(n)]
        if policy == "first":
            want = exp
        elif policy == "occupancy":
            want = list(exp)
            if b_wins:
                want[1] += 500.0
        else:
            want = exp[:2] + [exp[1] + 500.0] + exp[2:]
        got = [float(x) for x in coords[slot][:, 0]]
        if not np.allclose(got, want):
            return f"model {model} policy {policy}: x coordinates {got} vs {want}"
    return None


def ob_model_select(tier):
    cases = []
    for nmodels in (1, 2, 3):
        for altloc in range(3):
            mv = z3.Int("model")
            oc = z3.Int("occ")
            none = z3.Bool("none")

            def run(nmodels=nmodels, altloc=altloc, mv=mv, none=none, oc=oc):
                ex = cur()
                o = ex.choose(oc, range(len(OCC)))
                if ex.decide(none):
                    return check_model_select(None, nmodels, altloc, o) is None
                return check_model_select(ex.choose(mv, range(-5, 6)), nmodels, altloc, o) is None
            cases.append(Case(f"model selection m={nmodels} altloc={altloc}", [mv >= -5, mv <= 5, oc >= 0, oc < (len(OCC) if altloc == 1 else 1)], run,
                              dict(model=mv, none=none, nmodels=nmodels, altloc=altloc, occ=oc),
                              lambda w: _rep(check_model_select, "m", "nmodels", "altloc", "occ")(dict(w, m=None if w["none"] else w["model"]))))
    return cases


# ------------------------------------------------------------------- struct_conn row matching
def check_find_matches(ref_bits, q_bits):
    """both implementations of _find_matches on every small table: 3 reference rows x 2 columns over {0,1}, 2 query rows"""
    from biotite import InvalidFileError
    from biotite.structure.io.pdbx import convert as cv
    ref = [[(ref_bits >> (2 * r + c)) & 1 for c in range(2)] for r in range(3)]
    qry = [[(q_bits >> (2 * r + c)) & 1 for c in range(2)] for r in range(2)]
    ref_cols = [np.array([str(row[c]) for row in ref]) for c in range(2)]
    q_cols = [np.array([str(row[c]) for row in qry]) for c in range(2)]
    hits = [[i for i, row in enumerate(ref) if row == q] for q in qry]
    ambiguous = any(len(h) > 1 for h in hits)
    want = [h[0] if h else -1 for h in hits]
    old = cv.FIND_MATCHES_SWITCH_THRESHOLD
    impls = [("dense", lambda: cv._find_matches_by_dense_array(q_cols, ref_cols)), ("dict", lambda: cv._find_matches_by_dict(q_cols, ref_cols))]
    for thr in (10 ** 6, -1):
        def via(thr=thr):
            cv.FIND_MATCHES_SWITCH_THRESHOLD = thr
            try:
                return cv._find_matches(q_cols, ref_cols)
            finally:
                cv.FIND_MATCHES_SWITCH_THRESHOLD = old
        impls.append((f"_find_matches(threshold {thr})", via))
    for name, f in impls:
        try:
            got = [int(x) for x in f()]
        except InvalidFileError:
            if not ambiguous:
                return f"{name}: InvalidFileError although every query row matches at most one reference row (ref {ref}, query {qry})"
            continue
        if ambiguous:
            return f"{name}: ambiguous match accepted: {got} (ref {ref}, query {qry})"
        if got != want:
            return f"{name}: {got}, expected {want} (ref {ref}, query {qry})"
    return None


def ob_find_matches(tier):
    r, q = z3.Ints("r q")

    def run():
        ex = cur()
        return check_find_matches(ex.choose(r, range(64)), ex.choose(q, range(16))) is None
    case = Case("struct_conn row matching", [r >= 0, r < 64, q >= 0, q < 16], run, dict(ref_bits=r, q_bits=q), _rep(check_find_matches, "ref_bits", "q_bits"))
    return [Case(f"{case.label} [q={v}]", case.base + [q == v], run, case.witness, case.replay) for v in range(16)]
