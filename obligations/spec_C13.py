from vf.ch import CH
from vf.sx.ob import SX

A = "src/biotite/sequence/annotation.py"
OBLIGATIONS = [
    CH("annot_slice_1loc", "c13_annot.py", "ob_annot_slice_1loc", cls="S", quick=60,
       functions=[A + ":Annotation.__getitem__", A + ":Location", A + ":Feature"],
       bounds="1 feature x 1 location, positions and slice bounds symbolic in +-2^40, a<b, open/closed bounds, strand, 3 incoming defect flags"),
    CH("annot_slice_probe", "c13_annot.py", "ob_annot_slice_probe", cls="S", quick=60,
       functions=[A + ":Annotation.__getitem__"],
       bounds="1 location, all slice forms incl. empty/inverted, symbolic probe base in +-2^40"),
    CH("annot_slice_2loc", "c13_annot.py", "ob_annot_slice_2loc", cls="S", quick=90,
       functions=[A + ":Annotation.__getitem__"],
       bounds="1 feature x 2 disjoint locations, +-2^40, closed slice a<b"),
    CH("annot_slice_2feat", "c13_annot.py", "ob_annot_slice_2feat", cls="S", quick=90,
       functions=[A + ":Annotation.__getitem__"],
       bounds="2 features x 1 location, +-2^40, closed slice a<b"),
    CH("annseq_slice", "c13_annot.py", "ob_annseq_slice", cls="S", quick=120,
       functions=[A + ":AnnotatedSequence.__getitem__", A + ":Annotation.__getitem__"],
       bounds="sequence of 6 bases, sequence_start symbolic in 1..2^30, slices [a:b],[a:],[:b],[:] within the sequence, 1 feature/1 location anywhere inside, both strands"),
    CH("annseq_int_index", "c13_annot.py", "ob_annseq_int_index", cls="S", quick=40,
       functions=[A + ":AnnotatedSequence.__getitem__"], bounds="6 bases, start in 1..2^30"),
    CH("annseq_feature_index", "c13_annot.py", "ob_annseq_feature_index", cls="S", quick=120,
       functions=[A + ":AnnotatedSequence.__getitem__"],
       bounds="6 bases, start in 1..2^30, feature with 1-2 disjoint locations, both strands"),
    CH("annseq_feature_assign", "c13_annot.py", "ob_annseq_feature_assign", cls="S", quick=120,
       functions=[A + ":AnnotatedSequence.__setitem__", A + ":AnnotatedSequence.__getitem__"],
       bounds="6 bases, start in 1..2^30, feature with 1-2 disjoint locations, both strands"),
    CH("annseq_slice_assign", "c13_annot.py", "ob_annseq_slice_assign", cls="S", quick=90,
       functions=[A + ":AnnotatedSequence.__setitem__"], bounds="6 bases, all four slice forms"),
    CH("annseq_revcomp_twice", "c13_annot.py", "ob_annseq_revcomp_twice", cls="S", quick=120,
       functions=[A + ":AnnotatedSequence.reverse_complement"],
       bounds="6 bases, start in 1..2^30, 1 location, strand, 4 side flags"),
    CH("annseq_copy", "c13_annot.py", "ob_annseq_copy", cls="S", quick=60,
       functions=[A + ":AnnotatedSequence.__copy_create__", "src/biotite/copyable.py:Copyable.copy"],
       bounds="6 bases, 1 location"),
    CH("loc_feature_eq", "c13_annot.py", "ob_loc_feature_eq", cls="S", quick=60,
       functions=[A + ":Location.__eq__"], bounds="positions +-2^40, strand, one defect flag"),
    SX("loc_feature_hash", "sx_c13", "ob_hash", cls="E", quick=300, thorough=900, parts={"quick": 16, "thorough": 16},
       functions=[A + ":Location.__eq__/__hash__", A + ":Feature.__eq__/__hash__", A + ":Annotation.__contains__/__init__"],
       bounds="two locations with first/last in {1..3 (thorough 1..5), 2^40}, both strands, 4 defect combinations each (every pair): ==, !=, hash, set membership, Annotation deduplication, independence of location order, key / qualifier sensitivity"),
]
EXPLANATION = "C13: slicing of annotations / annotated sequences against a per-base model; pure-Python integer code explored symbolically by CrossHair."
ASSUMPTIONS = []
