"""C01: atom arrays and stacks stay coherent under indexing, concatenation, stacking, repetition, deletion,
assignment, annotation edits and copying - compared with a plain list-of-atoms reference model.

The transformed source of atoms.py (vf/sx/pyload.py: only isinstance/str/in redirections) is executed with
SYMBOLIC integer indices and slice bounds: the Python-level dispatch and index arithmetic
(`slice(index[1], index[1] + 1)`, tuple/ellipsis handling, integral checks) is explored symbolically; when
a symbolic integer reaches numpy it is concretised by forking over the declared index range (S -> E).
BondList is the compiled class.
"""
import numpy as np
import z3

from vf.sx import pyload
from vf.sx.core import SInt, cur
from vf.sx.ob import Case

_m = {}


def A():
    if "m" not in _m:
        _m["m"] = pyload.load("biotite.structure.atoms")
    return _m["m"]


N, M = 3, 2          # atoms, models


def make(kind, with_bonds, with_box, extra):
    """-> (object of the transformed module, reference model)"""
    a = A()
    from biotite.structure.bonds import BondList
    n = N
    annot = {"chain_id": ["A", "A", "B"], "res_id": [1, 2, 2], "atom_name": ["N", "CA", "C"]}
    if extra:
        annot["tag"] = [10, 20, 30]
    depth = M if kind == "stack" else None
    coords = [[[float(100 * mo + 10 * i + d) for d in range(3)] for i in range(n)] for mo in range(depth or 1)]
    obj = a.AtomArrayStack(depth, n) if depth else a.AtomArray(n)
    for k, v in annot.items():
        obj.set_annotation(k, np.array(v))
    obj.coord = np.array(coords if depth else coords[0], dtype=np.float32)
    model = dict(depth=depth, annot={k: list(v) for k, v in annot.items()},
                 coord=[[tuple(c) for c in mo] for mo in coords],
                 bonds=None, box=None)
    # standard annotation categories the classes create by default
    for k in obj.get_annotation_categories():
        if k not in model["annot"]:
            model["annot"][k] = [x.item() if hasattr(x, "item") else x for x in obj.get_annotation(k)]
    if with_bonds:
        obj.bonds = BondList(n, np.array([[0, 1, 1], [1, 2, 2]]))
        model["bonds"] = {(0, 1): 1, (1, 2): 2}
    if with_box:
        boxes = [np.diag([10.0 + mo, 20.0, 30.0]) for mo in range(depth or 1)]
        obj.box = np.array(boxes if depth else boxes[0])
        model["box"] = [float(10 + mo) for mo in range(depth or 1)]
    return obj, model


def observe(obj):
    """observable state of an AtomArray / AtomArrayStack as plain Python data + internal consistency"""
    a = A()
    is_stack = isinstance(obj, a.AtomArrayStack)
    n = obj.array_length()
    coord = np.asarray(obj.coord)
    if is_stack:
        if coord.ndim != 3 or coord.shape[1] != n:
            return ("inconsistent", f"coord shape {coord.shape} for array_length {n}")
        depth = coord.shape[0]
        if obj.stack_depth() != depth:
            return ("inconsistent", "stack_depth")
    else:
        if coord.shape != (n, 3):
            return ("inconsistent", f"coord shape {coord.shape} for array_length {n}")
        depth = None
    annot = {}
    for k in obj.get_annotation_categories():
        v = obj.get_annotation(k)
        if len(v) != n:
            return ("inconsistent", f"annotation {k} has length {len(v)} for {n} atoms")
        annot[k] = [x.item() if hasattr(x, "item") else x for x in v]
    bonds = None
    if obj.bonds is not None:
        if obj.bonds.get_atom_count() != n:
            return ("inconsistent", f"bond list covers {obj.bonds.get_atom_count()} atoms, array has {n}")
        bonds = {(int(x), int(y)): int(t) for x, y, t in obj.bonds.as_array().tolist()}
    box = None
    if obj.box is not None:
        b = np.asarray(obj.box)
        if is_stack:
            if b.shape != (depth, 3, 3):
                return ("inconsistent", f"box shape {b.shape} for depth {depth}")
            box = [float(x[0, 0]) for x in b]
        else:
            if b.shape != (3, 3):
                return ("inconsistent", f"box shape {b.shape}")
            box = [float(b[0, 0])]
    cs = [[tuple(float(v) for v in c) for c in mo] for mo in (coord if is_stack else [coord])]
    return dict(depth=depth, annot=annot, coord=cs, bonds=bonds, box=box)


def same(obs, model):
    if not isinstance(obs, dict):
        return f"{obs}"
    for k in ("depth", "annot", "coord", "bonds", "box"):
        if obs[k] != model[k]:
            return f"{k}: implementation {obs[k]} vs model {model[k]}"
    return None


# ------------------------------------------------------------------ reference model operations
def m_select(model, idx):
    """idx: list of atom positions (already resolved) -> new model"""
    new = dict(depth=model["depth"], annot={k: [v[i] for i in idx] for k, v in model["annot"].items()},
               coord=[[mo[i] for i in idx] for mo in model["coord"]], box=model["box"], bonds=None)
    if model["bonds"] is not None:
        pos = {old: k for k, old in enumerate(idx)}
        new["bonds"] = {tuple(sorted((pos[x], pos[y]))): t for (x, y), t in model["bonds"].items() if x in pos and y in pos}
    return new


def m_models(model, ks):
    return dict(depth=len(ks), annot=model["annot"], coord=[model["coord"][k] for k in ks],
                bonds=model["bonds"], box=None if model["box"] is None else [model["box"][k] for k in ks])


def m_array_of(model, k):
    return dict(depth=None, annot=model["annot"], coord=[model["coord"][k]], bonds=model["bonds"],
                box=None if model["box"] is None else [model["box"][k]])


def resolve(index, n):
    """python semantics of a 1-D index object on a list of n items -> positions (or IndexError)"""
    if isinstance(index, slice):
        return list(range(n))[index]
    if isinstance(index, (list, np.ndarray)):
        arr = np.asarray(index)
        if arr.dtype == bool:
            if len(arr) != n:
                raise IndexError("mask length")
            return [i for i in range(n) if arr[i]]
        out = []
        for v in arr.tolist():
            if not -n <= v < n:
                raise IndexError("index")
            out.append(v % n)
        return out
    raise TypeError(index)


# -------------------------------------------------------------------------- single index forms
MASKS = [[True, False, True], [False, False, False], [True, True, True], [False, True, False]]
IARR = [[2, 0], [1, 1 - 1, 2], [-1], [0, 2, 1], []]


def index_case(kind, form, with_bonds, with_box, i, j, st, use_i, use_j):
    """kind: array|stack; form selects the index shape; i, j: ints (possibly symbolic); st: step"""
    obj, model = make(kind, with_bonds, with_box, True)
    a = A()
    n, depth = N, model["depth"]
    lo = i if use_i else None
    hi = j if use_j else None

    def conc(x):
        return x
    try:
        if kind == "array":
            if form == 0:          # integer -> Atom
                atom = obj[i]
                ic = _c(i)
                valid = -n <= ic < n
                if not valid:
                    return "integer index out of range accepted"
                exp = {k: v[ic] for k, v in model["annot"].items()}
                got = {k: (getattr(atom, k).item() if hasattr(getattr(atom, k), "item") else getattr(atom, k)) for k in exp}
                if got != exp or tuple(float(x) for x in atom.coord) != model["coord"][0][ic]:
                    return f"atom {ic}: {got}"
                # a copy of the atom shares no mutable state with it
                c = atom.copy()
                if not (c == atom):
                    return "Atom.copy() is not equal to the atom"
                c.coord += 1.0
                c.res_id = 777
                if tuple(float(x) for x in atom.coord) != model["coord"][0][ic] or atom.res_id == 777:
                    return "modifying Atom.copy() changed the original atom"
                return same(observe(obj), model)
            if form == 1:
                index = slice(lo, hi, st)
                res = obj[index]
                exp = m_select(model, resolve(slice(_c(lo), _c(hi), st), n))
            elif form == 2:
                res = obj[np.array(MASKS[_c(i) % len(MASKS)])]
                exp = m_select(model, resolve(MASKS[_c(i) % len(MASKS)], n))
            elif form == 3:
                ia = IARR[_c(i) % len(IARR)]
                res = obj[np.array(ia, dtype=int)]
                exp = m_select(model, resolve(ia, n))
            elif form == 4:
                res = obj[..., slice(lo, hi, st)]
                exp = m_select(model, resolve(slice(_c(lo), _c(hi), st), n))
            else:
                return None
        else:
            if form == 0:          # stack[int] -> array of that model
                res = obj[i]
                ic = _c(i)
                if not -depth <= ic < depth:
                    return "model index out of range accepted"
                exp = m_array_of(model, ic % depth)
            elif form == 1:        # stack[slice] -> models
                res = obj[slice(lo, hi, st)]
                exp = m_models(model, list(range(depth))[slice(_c(lo), _c(hi), st)])
            elif form == 2:        # stack[int, slice]
                res = obj[i, slice(None, hi, st)]
                ic = _c(i)
                if not -depth <= ic < depth:
                    return "model index out of range accepted"
                exp = m_select(m_array_of(model, ic % depth), resolve(slice(None, _c(hi), st), n))
            elif form == 3:        # stack[:, int]  (no reduction of dimensionality)
                res = obj[:, j]
                jc = _c(j)
                if not -n <= jc < n:
                    return None      # outside "all index values numpy accepts for one axis"
                exp = m_select(model, [jc % n])
            elif form == 4:        # stack[..., int]
                res = obj[..., j]
                jc = _c(j)
                if not -n <= jc < n:
                    return None
                exp = m_select(model, [jc % n])
            elif form == 5:        # stack[slice, mask]
                mk = MASKS[_c(j) % len(MASKS)]
                res = obj[slice(lo, None, st), np.array(mk)]
                exp = m_select(m_models(model, list(range(depth))[slice(_c(lo), None, st)]), resolve(mk, n))
            elif form == 6:        # stack[int, int] -> Atom
                atom = obj[i, j]
                ic, jc = _c(i), _c(j)
                if not (-depth <= ic < depth and -n <= jc < n):
                    return "out of range accepted"
                if tuple(float(x) for x in atom.coord) != model["coord"][ic % depth][jc % n]:
                    return f"atom ({ic},{jc}) has coord {atom.coord}"
                return None
            elif form == 7:        # stack[slice, index array]
                ia = IARR[_c(j) % len(IARR)]
                res = obj[slice(lo, hi), np.array(ia, dtype=int)]
                exp = m_select(m_models(model, list(range(depth))[slice(_c(lo), _c(hi))]), resolve(ia, n))
            else:
                return None
    except IndexError:
        # legal only if the model says the index is out of range
        try:
            if kind == "array" and form == 0:
                return None if not -n <= _c(i) < n else "IndexError for a valid index"
            if kind == "stack" and form in (0, 2, 6):
                ok_i = -depth <= _c(i) < depth
                ok_j = True if form != 6 else -n <= _c(j) < n
                return None if not (ok_i and ok_j) else "IndexError for a valid index"
            if kind == "stack" and form in (3, 4):
                return None if not -n <= _c(j) < n else "IndexError for a valid index"
        except Exception:
            pass
        return "unexpected IndexError"
    return same(observe(res), exp)


def _c(x):
    """concrete value of a (by now concretised) symbolic int"""
    if x is None or isinstance(x, int):
        return x
    if isinstance(x, SInt):
        ex = cur()
        return ex.choose(x.e, ex.index_range)
    return x


def _rep_index(w):
    try:
        t = getattr(np, w["npt"]) if w.get("npt") else (lambda x: x)
        r = index_case(w["kind"], w["form"], w["bonds"], w["box"], t(w["i"]), t(w["j"]), w["st"], w["use_i"], w["use_j"])
        return r is None, str(r)
    except Exception as e:
        import traceback
        return False, f"{type(e).__name__}: {e} | {traceback.format_exc()[-400:]}"


def ob_index(tier):
    cases = []
    R = list(range(-5, 6))
    for kind, nforms in (("array", 5), ("stack", 8)):
        for form in range(nforms):
            for with_bonds in (False, True):
                for st in (None, 2, -1):
                    if st is not None and not ((kind == "array" and form in (1, 4)) or (kind == "stack" and form in (1, 2, 5))):
                        continue
                    i, j = z3.Int("i"), z3.Int("j")
                    ui, uj = z3.Bool("ui"), z3.Bool("uj")
                    base = [i >= -5, i <= 5, j >= -5, j <= 5]

                    def run(kind=kind, form=form, with_bonds=with_bonds, st=st, i=i, j=j, ui=ui, uj=uj):
                        ex = cur()
                        ex.index_range = R
                        r = index_case(kind, form, with_bonds, True, SInt(i), SInt(j), st, ex.decide(ui), ex.decide(uj))
                        return r is None
                    cases.append(Case(f"{kind} index form {form} bonds={with_bonds} step={st}", base, run,
                                      dict(kind=kind, form=form, bonds=with_bonds, box=True, i=i, j=j, st=st, use_i=ui, use_j=uj), _rep_index))
    # the integer forms again with numpy integer scalars (what np.where / np.argmax hand out) instead of Python ints
    for kind, forms in (("array", (0,)), ("stack", (0, 2, 3, 4, 6))):
        for form in forms:
            for npt in ("int64", "int32", "uint8"):
                i, j = z3.Int("i"), z3.Int("j")
                lo = 0 if npt == "uint8" else -5
                base = [i >= lo, i <= 5, j >= lo, j <= 5]

                def run(kind=kind, form=form, npt=npt, i=i, j=j, lo=lo):
                    ex = cur()
                    t = getattr(np, npt)
                    r = index_case(kind, form, True, True, t(ex.choose(i, range(lo, 6))), t(ex.choose(j, range(lo, 6))), None, True, True)
                    return r is None
                cases.append(Case(f"{kind} index form {form} with numpy {npt} scalars", base, run,
                                  dict(kind=kind, form=form, bonds=True, box=True, i=i, j=j, st=None, use_i=True, use_j=True, npt=npt), _rep_index))
    return cases


# ================================================================================ operation histories
def m_copy(model):
    return dict(depth=model["depth"], annot={k: list(v) for k, v in model["annot"].items()},
                coord=[list(mo) for mo in model["coord"]], bonds=None if model["bonds"] is None else dict(model["bonds"]),
                box=None if model["box"] is None else list(model["box"]))


def m_concat(ms):
    cats = set(ms[0]["annot"])
    for m in ms[1:]:
        cats &= set(m["annot"])
    out = dict(depth=ms[0]["depth"], annot={k: sum((m["annot"][k] for m in ms), []) for k in ms[0]["annot"] if k in cats},
               coord=[sum((m["coord"][mo] for m in ms), []) for mo in range(len(ms[0]["coord"]))], bonds=None, box=None)
    for m in ms:
        if m["box"] is not None:
            out["box"] = list(m["box"])
            break
    if any(m["bonds"] is not None for m in ms):
        b, off = {}, 0
        for m in ms:
            for (x, y), t in (m["bonds"] or {}).items():
                b[(x + off, y + off)] = t
            off += len(m["coord"][0])
        out["bonds"] = b
    return out


def apply_op(obj, model, op, arg):
    """-> (obj, model) after the operation; raises AssertionError text via return of a str on divergence"""
    a = A()
    from biotite.structure.bonds import BondList
    is_stack = model["depth"] is not None
    n = len(model["coord"][0])
    if op == 0:                      # index with a slice
        sl = [slice(1, None), slice(None, -1), slice(None, None, 2), slice(None, None, -1)][arg % 4]
        if is_stack:
            return obj[:, sl], m_select(model, resolve(sl, n))
        return obj[sl], m_select(model, resolve(sl, n))
    if op == 1:                      # mask / index array
        if n != N:
            return obj, model
        if arg % 2:
            ia = IARR[arg % len(IARR)]
            return (obj[:, np.array(ia, dtype=int)] if is_stack else obj[np.array(ia, dtype=int)]), m_select(model, resolve(ia, n))
        mk = MASKS[arg % len(MASKS)]
        return (obj[:, np.array(mk)] if is_stack else obj[np.array(mk)]), m_select(model, resolve(mk, n))
    if op == 2:                      # concatenation with itself / a fresh object without bonds
        other, om = make("stack" if is_stack else "array", arg % 2 == 0, arg % 3 == 0, False)
        if is_stack and model["depth"] != om["depth"]:
            return obj, model
        res = (obj + other) if arg % 2 else a.concatenate([obj, other])
        return res, m_concat([model, om])
    if op == 3:                      # delete an atom
        if is_stack or n == 0:
            return obj, model
        i = (arg % (2 * n)) - n
        del obj[i]
        keep = [k for k in range(n) if k != i % n]
        new = m_select(model, keep)
        return obj, new
    if op == 4:                      # delete a model
        if not is_stack or model["depth"] <= 1:
            return obj, model
        k = (arg % (2 * model["depth"])) - model["depth"]
        del obj[k]
        ks = [q for q in range(model["depth"]) if q != k % model["depth"]]
        return obj, m_models(model, ks)
    if op == 5:                      # element assignment
        if n == 0:
            return obj, model
        if is_stack:
            k = arg % model["depth"]
            src = obj[k].copy()
            src.coord = src.coord + 1000
            if src.box is not None:
                src.box = src.box * 2
            obj[(k + 1) % model["depth"]] = src
            new = m_copy(model)
            t = (k + 1) % model["depth"]
            new["coord"][t] = [tuple(c + 1000 for c in cc) for cc in model["coord"][k]]
            if new["box"] is not None:
                new["box"][t] = model["box"][k] * 2
            return obj, new
        i = (arg % (2 * n)) - n
        src = obj[(i + 1) % n]
        src = src.copy()
        src.coord = src.coord + 500
        obj[i] = src
        new = m_copy(model)
        for kname in new["annot"]:
            new["annot"][kname][i % n] = model["annot"][kname][(i + 1) % n]
        new["coord"][0][i % n] = tuple(c + 500 for c in model["coord"][0][(i + 1) % n])
        return obj, new
    if op == 6:                      # annotation add / set / del
        new = m_copy(model)
        if arg % 3 == 0:
            obj.set_annotation("extra", np.arange(n) * 3)
            new["annot"]["extra"] = [3 * q for q in range(n)]
        elif arg % 3 == 1:
            obj.res_id = np.arange(n) + 7
            new["annot"]["res_id"] = [q + 7 for q in range(n)]
        else:
            if "tag" in new["annot"]:
                obj.del_annotation("tag")
                del new["annot"]["tag"]
        return obj, new
    if op == 7:                      # copy: equal and independent
        c = obj.copy()
        why = same(observe(c), model)
        if why:
            raise AssertionError("copy differs: " + why)
        if not (c == obj and obj == c):
            raise AssertionError("copy is not equal to its original")
        # equality must see every component, from either side (an object that lost / gained its box, its bonds, an
        # annotation, or differs in one coordinate is a different object)
        variants = []
        d = obj.copy()
        d.box = None if obj.box is not None else (np.array([np.eye(3)] * model["depth"]) if is_stack else np.eye(3))
        variants.append(("box present / absent", d))
        if obj.box is not None:
            d = obj.copy(); d.box = d.box + 1.0; variants.append(("box values", d))
        if obj.bonds is not None:
            d = obj.copy(); d.bonds = None; variants.append(("bonds present / absent", d))
        if n:
            d = obj.copy(); d.coord[..., n - 1, 2] += 1.0; variants.append(("last coordinate", d))
            d = obj.copy(); d.res_id[n - 1] += 1; variants.append(("res_id", d))
        d = obj.copy(); d.set_annotation("only_variant", np.zeros(n, dtype=int)); variants.append(("extra annotation category", d))
        for what, d in variants:
            if (d == obj) or (obj == d):
                raise AssertionError(f"objects that differ in {what} compare equal (d == obj: {d == obj}, obj == d: {obj == d})")
        if n:
            c.coord[..., 0, 0] = -1.0
            c.res_id[0] = 999
            if c.box is not None:
                c.box[..., 0, 0] = -5.0
            if c.bonds is not None and n > 1:
                c.bonds.add_bond(0, n - 1, 3)
                c.bonds.remove_bonds_to(0)
            c.set_annotation("only_copy", np.zeros(n))
        return obj, model            # the original must be unchanged (checked by the caller)
    if op == 8:                      # stack() / get_array / from_template round trip
        if is_stack:
            arrays = [obj[k] for k in range(model["depth"])]
            res = a.stack(arrays)
            return res, model
        res = a.stack([obj, obj])
        new = m_copy(model)
        new["depth"] = 2
        new["coord"] = [list(model["coord"][0]), list(model["coord"][0])]
        new["box"] = None if model["box"] is None else [model["box"][0], model["box"][0]]
        return res, new
    if op == 9:                      # repeat
        k = 2
        if is_stack:
            d = model["depth"]
            coord = np.array([[[[1000.0 * r + c for c in cc] for cc in model["coord"][mo]] for mo in range(d)] for r in range(k)], dtype=np.float32)
            res = a.repeat(obj, coord)
            new = dict(depth=d, annot={kk: v * k for kk, v in model["annot"].items()},
                       coord=[[tuple(1000.0 * r + c for c in cc) for r in range(k) for cc in model["coord"][mo]] for mo in range(d)],
                       box=model["box"], bonds=None)
        else:
            coord = np.array([[[1000.0 * r + c for c in cc] for cc in model["coord"][0]] for r in range(k)], dtype=np.float32)
            res = a.repeat(obj, coord)
            new = dict(depth=None, annot={kk: v * k for kk, v in model["annot"].items()},
                       coord=[[tuple(1000.0 * r + c for c in cc) for r in range(k) for cc in model["coord"][0]]],
                       box=model["box"], bonds=None)
        if model["bonds"] is not None:
            new["bonds"] = {(x + r * n, y + r * n): t for r in range(k) for (x, y), t in model["bonds"].items()}
        return res, new
    if op == 10:                     # overwrite an annotation by a narrower array, then write a wider value
        if n == 0:
            return obj, model
        new = m_copy(model)
        k = arg % n
        if arg % 2 == 0:
            obj.atom_name = np.array(["X"] * n)            # one-character strings over 'N', 'CA', 'C'
            obj.atom_name[k] = "CA"
            new["annot"]["atom_name"] = ["X"] * n
            new["annot"]["atom_name"][k] = "CA"
        else:
            obj.set_annotation("tag", np.array([0.5 * q for q in range(n)]))     # floats, then integers over them
            obj.set_annotation("tag", np.arange(n))
            obj.tag[k] = 2.25
            new["annot"]["tag"] = [float(q) for q in range(n)]
            new["annot"]["tag"][k] = 2.25
        return obj, new
    if op == 11:                     # re-declared annotation categories, atoms with long strings, mismatching bonds
        if n == 0:
            return obj, model
        import biotite.structure as struc
        new = m_copy(model)
        k = arg % n
        if arg % 3 == 0:
            # an existing category is re-declared with a more general dtype: old values stay, new ones fit
            obj.add_annotation("res_id", float)
            obj.res_id[k] = 1.5
            new["annot"]["res_id"][k] = 1.5
            obj.add_annotation("atom_name", "U12")
            obj.atom_name[(k + 1) % n] = "ATOMNAME7"
            new["annot"]["atom_name"][(k + 1) % n] = "ATOMNAME7"
            obj.add_annotation("res_name", "U1")          # (less general than the existing one: nothing changes)
            return obj, new
        if arg % 3 == 1:
            # an incompatible re-declaration is refused and changes nothing
            try:
                obj.add_annotation("res_id", "U3")
            except ValueError:
                return obj, model
            raise AssertionError("add_annotation('res_id', 'U3') on an integer category was accepted")
        if is_stack:
            # a model can only be replaced by an array with the same bonds: one side without a BondList is a mismatch
            src = obj[0].copy()
            if src.bonds is None:
                src.bonds = BondList(n)
                if n >= 2:
                    src.bonds.add_bond(0, 1, 1)
            else:
                src.bonds = None
            try:
                obj[0] = src
            except ValueError:
                return obj, model
            raise AssertionError("stack[0] = array with different bonds (one side has none) was accepted")
        # list of atoms -> array -> list of atoms is the identity, also for strings longer than the default widths
        atoms = [obj.get_atom(i) for i in range(n)]
        atoms[k] = a.Atom(atoms[k].coord, **{c: getattr(atoms[k], c) for c in obj.get_annotation_categories()})
        atoms[k].chain_id, atoms[k].res_name, atoms[k].atom_name, atoms[k].element = "CHAIN5", "LONGRESN", "ATOMNAME7", "Xx1"
        rebuilt = a.array(atoms)
        for i in range(n):
            for c in obj.get_annotation_categories():
                if getattr(rebuilt.get_atom(i), c) != getattr(atoms[i], c):
                    raise AssertionError(f"array(atoms)[{i}].{c} = {getattr(rebuilt.get_atom(i), c)!r}, the atom had {getattr(atoms[i], c)!r}")
        return obj, model
    if op == 12:                     # atoms with different categories refused by array(); NaN in float annotations of any width
        if n == 0:
            return obj, model
        import biotite.structure as struc
        k = arg % n
        if arg % 2 == 0 and not is_stack:
            cats = obj.get_annotation_categories()
            atoms = [obj.get_atom(i) for i in range(n)]
            more = a.Atom(atoms[k].coord, **{c: getattr(atoms[k], c) for c in cats}, extra_cat=1)
            allmore = [a.Atom(a_.coord, **{c: getattr(a_, c) for c in cats}, extra_cat=1) for a_ in atoms]
            lists = [("an additional", atoms + [more]), ("a missing", allmore + [atoms[k]])]
            if n >= 2:
                lists.append(("an additional", atoms[:k] + [more] + atoms[k + 1:]))       # (with one atom this list would be uniform)
            for label, lst in lists:
                try:
                    a.array(lst)
                except ValueError:
                    continue
                raise AssertionError(f"array() accepted a list in which one atom has {label} annotation category")
            return obj, model
        for dt in (np.float32, np.float16, np.float64):
            tmp = obj.copy()
            vals = np.arange(n).astype(dt)
            vals[k] = np.nan
            tmp.set_annotation("fl", vals)
            cp = tmp.copy()
            if not (cp == tmp) or not tmp.equal_annotations(cp):
                raise AssertionError(f"a copy is not equal to its original when a {dt.__name__} annotation holds NaN")
            if not is_stack:
                st = a.stack([tmp, cp])
                st[1] = cp
                if st.stack_depth() != 2:
                    raise AssertionError("stack of an array and its copy")
        return obj, model
    return obj, model


NOPS = 13


def run_history(kind, with_bonds, with_box, ops):
    obj, model = make(kind, with_bonds, with_box, True)
    why = same(observe(obj), model)
    if why:
        return "initial: " + why
    for op, arg in ops:
        try:
            obj, model = apply_op(obj, model, op, arg)
        except AssertionError as e:
            return f"op {op},{arg}: {e}"
        why = same(observe(obj), model)
        if why:
            return f"after op {op},{arg}: " + why
    return None


def _rep_hist(w):
    try:
        r = run_history(w["kind"], w["bonds"], w["box"], [tuple(o) for o in w["ops"]])
        return r is None, str(r)
    except Exception as e:
        import traceback
        return False, f"{type(e).__name__}: {e} | {traceback.format_exc()[-400:]}"


def ob_history(tier):
    k = 2 if tier == "quick" else 3
    cases = []
    for kind in ("array", "stack"):
        for with_bonds in (False, True):
            for first in range(NOPS):
                ops = [(z3.Int(f"o{i}"), z3.Int(f"a{i}")) for i in range(k)]
                wb = z3.Bool("wb")
                base = [ops[0][0] == first]
                for o, a_ in ops:
                    base += [o >= 0, o < NOPS, a_ >= 0, a_ < 6]

                def run(kind=kind, with_bonds=with_bonds, ops=ops, wb=wb):
                    ex = cur()
                    seq = [(ex.choose(o, range(NOPS)), ex.choose(a_, range(6))) for o, a_ in ops]
                    return run_history(kind, with_bonds, ex.decide(wb), seq) is None
                cases.append(Case(f"history {kind} bonds={with_bonds} first={first} k={k}", base, run,
                                  dict(kind=kind, bonds=with_bonds, box=wb, ops=[[o, a_] for o, a_ in ops]), _rep_hist))
    return cases
