"""Helpers shared by the CrossHair harness modules (imported with `from hlib import *`)."""


def _same_args(a, b):
    return a == b and [type(x) for x in a] == [type(x) for x in b]


def expect_raises(exc, fn, *a, **k):
    """True iff fn(*a, **k) raises exc (a subclass)."""
    try:
        fn(*a, **k)
    except exc:
        return True
    except Exception:
        return False
    return False
