"""C11 (E-class on the real Python code + compiled align_multiple): alignment traces through every conversion.

Traces are generated from z3-chosen column types (per column: which sequences advance), so 'strictly increasing,
no all-gap column' holds by construction; all conversions are compared with a column-by-column recomputation."""
import io
import itertools

import numpy as np
import z3

from vf.sx.core import cur
from vf.sx.ob import Case

NUC = "ACGT"


def _rep(f, *keys):
    def g(w):
        try:
            r = f(*[w[k] for k in keys])
            return r is None, str(r)
        except Exception as e:
            import traceback
            return False, f"{type(e).__name__}: {e} | {traceback.format_exc()[-400:]}"
    return g


# ------------------------------------------------------------------------------- construction
def build(cols, nseq, lead=None, tail=None):
    """cols: list of bitmasks (bit s set = sequence s advances in that column); lead/tail: unaligned symbols per sequence"""
    from biotite.sequence import NucleotideSequence
    from biotite.sequence.align import Alignment
    lead = lead or [0] * nseq
    tail = tail or [0] * nseq
    pos = list(lead)
    trace = []
    for c in cols:
        row = []
        for s in range(nseq):
            if c >> s & 1:
                row.append(pos[s])
                pos[s] += 1
            else:
                row.append(-1)
        trace.append(row)
    lens = [pos[s] + tail[s] for s in range(nseq)]
    seqs = [NucleotideSequence("".join(NUC[(3 * s + 2 * k + k // 2) % 4] for k in range(lens[s]))) for s in range(nseq)]
    return Alignment(seqs, np.array(trace, dtype=np.int64).reshape(-1, nseq)), trace, seqs


def valid_trace(trace, nseq):
    last = [-1] * nseq
    for row in trace:
        if all(x == -1 for x in row):
            return False
        for s, x in enumerate(row):
            if x != -1:
                if x <= last[s]:
                    return False
                last[s] = x
    return True


# --------------------------------------------------------------------------- alignment helpers
def check_alignment(cols, nseq):
    from biotite.sequence.align import (Alignment, SubstitutionMatrix, get_codes, get_symbols, get_sequence_identity,
                                        get_pairwise_sequence_identity, score, find_terminal_gaps, remove_terminal_gaps, remove_gaps)
    if any(all(not (c >> s & 1) for c in cols) for s in range(nseq)):
        return None          # every sequence contributes at least one symbol
    aln, trace, seqs = build(cols, nseq)
    L = len(cols)
    strs = [str(s) for s in seqs]
    gapped = ["".join(strs[s][row[s]] if row[s] != -1 else "-" for row in trace) for s in range(nseq)]
    if aln.get_gapped_sequences() != gapped:
        return f"gapped sequences {aln.get_gapped_sequences()} vs {gapped}"
    back = Alignment.trace_from_strings(gapped)
    if back.tolist() != trace:
        return f"trace_from_strings {back.tolist()} vs {trace}"
    codes = get_codes(aln)
    want_codes = [[seqs[s].code[row[s]] if row[s] != -1 else -1 for row in trace] for s in range(nseq)]
    if codes.tolist() != [[int(x) for x in r] for r in want_codes]:
        return "get_codes"
    syms = get_symbols(aln)
    if [[x for x in r] for r in syms] != [[strs[s][row[s]] if row[s] != -1 else None for row in trace] for s in range(nseq)]:
        return "get_symbols"
    # column slices and sequence selection
    for sl in (slice(1, None), slice(None, -1), slice(None, None, 1)):
        sub = aln[sl]
        if sub.trace.tolist() != trace[sl]:
            return f"alignment[{sl}]"
    sel = aln[:, [nseq - 1, 0]]
    if sel.trace.tolist() != [[row[nseq - 1], row[0]] for row in trace]:
        return "alignment[:, [last, first]]"
    # terminal gaps
    firsts = [min(i for i, row in enumerate(trace) if row[s] != -1) for s in range(nseq)]
    lasts = [max(i for i, row in enumerate(trace) if row[s] != -1) for s in range(nseq)]
    tg = (max(firsts), min(lasts) + 1)
    if tuple(find_terminal_gaps(aln)) != tg:
        return f"find_terminal_gaps {find_terminal_gaps(aln)} vs {tg}"
    if tg[1] >= tg[0]:
        if remove_terminal_gaps(aln).trace.tolist() != trace[tg[0]:tg[1]]:
            return "remove_terminal_gaps"
    if remove_gaps(aln).trace.tolist() != [row for row in trace if all(x != -1 for x in row)]:
        return "remove_gaps"
    # conversions of DERIVED alignments whose rows no longer cover consecutive sequence positions (gap columns removed,
    # every other column, a boolean column mask): the gapped strings are still the per-column symbols of the trace
    import numpy as _np
    derived = [("remove_gaps", remove_gaps(aln)), ("alignment[::2]", aln[::2]),
               ("alignment[index array]", aln[_np.arange(L - 1, dtype=int)[::2]] if L > 1 else aln),
               ("alignment[boolean mask]", aln[_np.array([i % 3 != 1 for i in range(L)])])]
    for what, sub in derived:
        st = sub.trace.tolist()
        want = ["".join(strs[s][row[s]] if row[s] != -1 else "-" for row in st) for s in range(nseq)]
        if sub.get_gapped_sequences() != want:
            return f"gapped sequences of {what}: {sub.get_gapped_sequences()} vs {want}"
        if len(st) and all(any(row[s] != -1 for row in st) for s in range(nseq)) and [l for l in str(sub).split("\n") if l] != want and len(st) <= 50:
            return f"str() of {what}: {str(sub)!r} vs {want}"
    # identity
    cols_sym = [[gapped[s][i] for s in range(nseq)] for i in range(L)]
    matches = sum(1 for c in cols_sym if len(set(c)) == 1 and c[0] != "-")
    if abs(get_sequence_identity(aln, "all") - matches / L) > 1e-12:
        return "identity(all)"
    if tg[1] > tg[0] and abs(get_sequence_identity(aln, "not_terminal") - matches / (tg[1] - tg[0])) > 1e-12:
        return "identity(not_terminal)"
    if abs(get_sequence_identity(aln, "shortest") - matches / min(len(s) for s in strs)) > 1e-12:
        return "identity(shortest)"
    pw = get_pairwise_sequence_identity(aln, "all")
    for a in range(nseq):
        for b in range(nseq):
            m = sum(1 for c in cols_sym if c[a] == c[b] and c[a] != "-")
            if abs(pw[a, b] - m / L) > 1e-12:
                return "pairwise identity"
    # every mode of both functions, also on alignments whose trace omits part of the sequences (column slices):
    # "shortest" is defined over the length of the SEQUENCES, not over the aligned part
    for lo, hi in ((0, L), (1, L), (0, L - 1)):
        if hi - lo < 1:
            continue
        sub, csub = aln[lo:hi], cols_sym[lo:hi]
        subtrace = trace[lo:hi]
        if any(all(r[s] == -1 for r in subtrace) for s in range(nseq)):
            continue
        for mode in ("all", "not_terminal", "shortest"):
            for a in range(nseq):
                for b in range(nseq):
                    m = sum(1 for c in csub if c[a] == c[b] and c[a] != "-")
                    if mode == "all":
                        den = hi - lo
                    elif mode == "shortest":
                        den = min(len(seqs[a]), len(seqs[b]))
                    else:
                        fa = [i for i, r in enumerate(subtrace) if r[a] != -1]
                        fb = [i for i, r in enumerate(subtrace) if r[b] != -1]
                        den = min(fa[-1], fb[-1]) + 1 - max(fa[0], fb[0])
                    try:
                        got = get_pairwise_sequence_identity(sub, mode)[a, b]
                    except ValueError:
                        if mode == "not_terminal" and any(
                                min(max(i for i, r in enumerate(subtrace) if r[x] != -1),
                                    max(i for i, r in enumerate(subtrace) if r[y] != -1)) + 1
                                <= max(min(i for i, r in enumerate(subtrace) if r[x] != -1),
                                       min(i for i, r in enumerate(subtrace) if r[y] != -1))
                                for x in range(nseq) for y in range(nseq)):
                            break          # documented refusal: some pair has no overlap
                        return f"pairwise identity({mode}) refused on columns {lo}:{hi}"
                    if den <= 0:
                        return f"pairwise identity({mode}) answered {got} for a pair without overlap"
                    if abs(got - m / den) > 1e-12:
                        return f"pairwise identity({mode}) on columns {lo}:{hi} of {gapped}: {got} vs {m}/{den}"
                else:
                    continue
                break
            if nseq == 2 and mode != "not_terminal":
                m = sum(1 for c in csub if c[0] == c[1] and c[0] != "-")
                den = hi - lo if mode == "all" else min(len(seqs[0]), len(seqs[1]))
                if abs(get_sequence_identity(sub, mode) - m / den) > 1e-12:
                    return f"identity({mode}) on columns {lo}:{hi}"
    # rows over different alphabets (each row is decoded with the alphabet of its own sequence)
    if nseq >= 2:
        from biotite.sequence import NucleotideSequence as _N, ProteinSequence as _P
        pool = [_N("ACGTACGTAC"), _N("NYWSKMBDHV", ambiguous=True), _P("MKTWYVLIFE")]
        for order in ((0, 1, 2), (1, 0, 2), (2, 1, 0)):
            mixed = [pool[order[s % 3]] for s in range(nseq)]
            if all(max(r[s] for r in trace) < 10 for s in range(nseq)):
                mal = Alignment(mixed, np.array(trace, dtype=np.int64))
                want_sym = [[str(mixed[s])[r[s]] if r[s] != -1 else None for r in trace] for s in range(nseq)]
                got_sym = get_symbols(mal)
                if [[x for x in r] for r in got_sym] != want_sym:
                    return f"get_symbols with rows over different alphabets (order {order}): {got_sym} vs {want_sym}"
                if mal.get_gapped_sequences() != ["".join(x if x is not None else "-" for x in r) for r in want_sym]:
                    return f"gapped sequences with rows over different alphabets (order {order})"
                if get_codes(mal).tolist() != [[int(mixed[s].code[r[s]]) if r[s] != -1 else -1 for r in trace] for s in range(nseq)]:
                    return f"get_codes with rows over different alphabets (order {order})"
    # score: column-by-column recomputation
    mat = SubstitutionMatrix.std_nucleotide_matrix()
    sm = mat.score_matrix()
    for gap in (-5, (-7, -2)):
        for term in (True, False):
            go, ge = (gap, gap) if isinstance(gap, int) else gap
            tot = 0
            for i in range(L):
                for a in range(nseq):
                    for b in range(a + 1, nseq):
                        if trace[i][a] != -1 and trace[i][b] != -1:
                            tot += int(sm[seqs[a].code[trace[i][a]], seqs[b].code[trace[i][b]]])
            lo, hi = (0, L) if term else tg
            for s in range(nseq):
                prev_gap = False
                for i in range(lo, hi):
                    if trace[i][s] == -1:
                        tot += ge if prev_gap else go
                        prev_gap = True
                    else:
                        prev_gap = False
            got = score(aln, mat, gap_penalty=gap, terminal_penalty=term)
            if got != tot:
                return f"score(gap={gap}, terminal_penalty={term}) = {got}, column-wise recomputation {tot} for {gapped}"
    return None


# ------------------------------------------------------------------------------------- CIGAR
def check_cigar(cols, lead_seg, tail_seg, ref_off, opt):
    from biotite.sequence.align import write_alignment_to_cigar, read_alignment_from_cigar, CigarOp
    include_term, distinguish, hard, use_intron = bool(opt & 1), bool(opt & 2), bool(opt & 4), bool(opt & 8)
    # column codes: 1 = reference only (deletion), 2 = segment only (insertion), 3 = both
    if not any(c & 2 for c in cols) or not any(c & 1 for c in cols):
        return None
    aln, trace, seqs = build(cols, 2, lead=[ref_off, lead_seg], tail=[1, tail_seg])
    ref, seg = seqs
    rows = list(trace)
    if not include_term:
        idx = [i for i, r in enumerate(rows) if r[1] != -1]
        rows = rows[idx[0]: idx[-1] + 1]
    # introns: EVERY deletion run of the written part is declared an intron (one interval per run, listed in reverse
    # order: the result must not depend on the order of the list)
    introns = ()
    if use_intron:
        runs, i = [], 0
        while i < len(rows):
            if rows[i][1] == -1:
                j = i
                while j + 1 < len(rows) and rows[j + 1][1] == -1:
                    j += 1
                runs.append((rows[i][0], rows[j][0] + 1))
                i = j + 1
            else:
                i += 1
        if not runs:
            return None
        # alternate between 'all runs' and 'only the first run' (a deletion next to an intron stays a deletion)
        introns = tuple(reversed(runs)) if sum(cols) % 2 == 0 else (runs[0],)
    ops = []
    for i, r in enumerate(rows):
        if r[0] == -1:
            ops.append("I")
        elif r[1] == -1:
            ops.append("N" if any(a <= r[0] < b for a, b in introns) else "D")
        elif distinguish:
            ops.append("=" if str(ref)[r[0]] == str(seg)[r[1]] else "X")
        else:
            ops.append("M")
    want = ""
    for sym, grp in itertools.groupby(ops):
        want += f"{len(list(grp))}{sym}"
    seg_idx = [r[1] for r in rows if r[1] != -1]
    sc, ec = seg_idx[0], len(seg) - seg_idx[-1] - 1
    clip = "H" if hard else "S"
    want = (f"{sc}{clip}" if sc else "") + want + (f"{ec}{clip}" if ec else "")
    got = write_alignment_to_cigar(aln, introns=introns, distinguish_matches=distinguish, hard_clip=hard,
                                   include_terminal_gaps=include_term)
    if got != want:
        return f"CIGAR {got!r}, expected {want!r} for trace {trace} (options {opt})"
    if opt == 0 and write_alignment_to_cigar(aln) != want:
        # documented defaults: no introns, matches not distinguished, soft clipping, terminal gaps omitted
        return f"CIGAR with default options {write_alignment_to_cigar(aln)!r}, expected {want!r}"
    tuples = write_alignment_to_cigar(aln, introns=introns, distinguish_matches=distinguish, hard_clip=hard,
                                      include_terminal_gaps=include_term, as_string=False)
    # read back: position = first reference base covered; hard clipping removes the clipped bases from the segment
    if not any(r[0] != -1 for r in rows):
        return None          # nothing of the reference is covered: no position to anchor the CIGAR
    first_ref = [r[0] for r in rows if r[0] != -1][0]
    seg_used = seg[sc: len(seg) - ec] if hard else seg
    shift = sc if hard else 0
    for source in (got, tuples):
        back = read_alignment_from_cigar(source, first_ref, ref, seg_used)
        want_trace = [[r[0], (r[1] - shift) if r[1] != -1 else -1] for r in rows]
        if back.trace.tolist() != want_trace:
            return f"read_alignment_from_cigar({source!r}) = {back.trace.tolist()} vs {want_trace}"
        if not valid_trace(back.trace.tolist(), 2):
            return "parsed trace invalid"
    return None


# ------------------------------------------------------------------------------------ FASTA
def check_fasta(cols, nseq, gapchars):
    from biotite.sequence.io import fasta
    if any(all(not (c >> s & 1) for c in cols) for s in range(nseq)):
        return None
    aln, trace, seqs = build(cols, nseq)
    f = fasta.FastaFile()
    fasta.set_alignment(f, aln, [f"s{k}" for k in range(nseq)])
    out = io.StringIO()
    f.write(out)
    text = out.getvalue()
    extra = [(), ("_",), ("_", "."), (".", "_", "~")][gapchars]
    if extra:
        # the written text uses '-'; replace some of them by the additional gap characters (cyclically)
        chars = iter(itertools.cycle(extra))
        lines = []
        for line in text.splitlines():
            lines.append(line if line.startswith(">") else "".join(next(chars) if ch == "-" else ch for ch in line))
        text = "\n".join(lines) + "\n"
    back = fasta.get_alignment(fasta.FastaFile.read(io.StringIO(text)), additional_gap_chars=extra or ("_",))
    if back.trace.tolist() != trace:
        return f"FASTA round trip trace {back.trace.tolist()} vs {trace}"
    if [str(s) for s in back.sequences] != [str(s) for s in seqs]:
        return "FASTA round trip sequences"
    if extra:
        # the gap characters may also be given as one string (each of its characters is a gap) or as a list
        for form in ("".join(extra), list(extra)):
            again = fasta.get_alignment(fasta.FastaFile.read(io.StringIO(text)), additional_gap_chars=form)
            if again.trace.tolist() != trace or [str(s) for s in again.sequences] != [str(s) for s in seqs]:
                return f"get_alignment(additional_gap_chars={form!r}): trace {again.trace.tolist()} vs {trace}"
    # an explicit sequence type is honoured for every row (the rows use letters that are also nucleotide codes)
    from biotite.sequence import ProteinSequence, NucleotideSequence
    for want_type in (ProteinSequence, NucleotideSequence):
        typed = fasta.get_alignment(fasta.FastaFile.read(io.StringIO(text)), additional_gap_chars=extra or ("_",), seq_type=want_type)
        if any(type(s_) is not want_type for s_ in typed.sequences) or typed.trace.tolist() != trace:
            return f"get_alignment(seq_type={want_type.__name__}) returned {[type(s_).__name__ for s_ in typed.sequences]}"
    return None


# -------------------------------------------------------------------------------------- MSA
MSA_SEQS = ["A", "AC", "ACG", "ACGT", "TTTT", "GAT", "C", "TGCA"]


def check_msa(picks, gi):
    from biotite.sequence import NucleotideSequence
    from biotite.sequence.align import SubstitutionMatrix, align_multiple
    seqs = [NucleotideSequence(MSA_SEQS[p]) for p in picks]
    gap = [-10, (-10, -1), -1][gi]
    try:
        aln, order, tree, dist = align_multiple(seqs, SubstitutionMatrix.std_nucleotide_matrix(), gap_penalty=gap)
    except ZeroDivisionError:
        return "KNOWN:distance (ZeroDivisionError)"
    except ValueError as e:
        if "infinity" in str(e) or "randomized alignment" in str(e):
            return "KNOWN:distance (" + str(e)[:60] + ")"
        raise
    n = len(seqs)
    trace = aln.trace.tolist()
    if aln.trace.shape[1] != n:
        return "row count"
    for s in range(n):
        idx = [r[s] for r in trace if r[s] != -1]
        if idx != list(range(len(seqs[s]))):
            return f"row {s}: gap-stripped indices {idx} do not reproduce input {MSA_SEQS[picks[s]]}"
        if aln.sequences[s] is not seqs[s] and str(aln.sequences[s]) != str(seqs[s]):
            return "input order changed"
    if not valid_trace(trace, n):
        return f"invalid trace {trace}"
    if sorted(int(x) for x in order) != list(range(n)):
        return f"order {order} is not a permutation"
    leaves = sorted(leaf.index for leaf in tree.leaves)
    if leaves != list(range(n)):
        return f"guide tree leaves {leaves}"
    return None


def _msa_replay(w):
    try:
        r = check_msa(w["picks"], w["gi"])
    except Exception as e:
        return False, f"{type(e).__name__}: {e}"
    if r is not None and r.startswith("KNOWN:") and not w.get("strict"):
        return True, r
    return r is None, str(r)


# ------------------------------------------------------------------------------------ cases
def ob_alignment(tier):
    cases = []
    for nseq, L in ((2, 4), (3, 3)) if tier == "quick" else ((2, 5), (3, 4)):
        for ncols in range(1, L + 1):
            vs = [z3.Int(f"c{i}") for i in range(ncols)]
            top = 2 ** nseq
            base = [z3.And(v >= 1, v < top) for v in vs]

            def run(vs=vs, nseq=nseq, top=top):
                ex = cur()
                cols = [ex.choose(v, range(1, top)) for v in vs]
                return check_alignment(cols, nseq) is None
            cases.append(Case(f"alignment {nseq} seqs x {ncols} columns", base, run, dict(cols=vs, nseq=nseq), _rep(check_alignment, "cols", "nseq")))
    return cases


def ob_cigar(tier):
    cases = []
    L = 4 if tier == "quick" else 5
    for ncols in range(1, L + 1):
        for opt in range(16):
            vs = [z3.Int(f"c{i}") for i in range(ncols)]
            ls, ts, ro = z3.Ints("ls ts ro")
            base = [z3.And(v >= 1, v <= 3) for v in vs] + [ls >= 0, ls <= 2, ts >= 0, ts <= 1, ro >= 0, ro <= 1]

            def run(vs=vs, opt=opt, ls=ls, ts=ts, ro=ro):
                ex = cur()
                cols = [ex.choose(v, range(1, 4)) for v in vs]
                return check_cigar(cols, ex.choose(ls, range(3)), ex.choose(ts, range(2)), 3 * ex.choose(ro, range(2)), opt) is None
            cases.append(Case(f"cigar {ncols} columns options={opt}", base, run,
                              dict(cols=vs, lead_seg=ls, tail_seg=ts, ref_off=ro, opt=opt),
                              lambda w: _rep(check_cigar, "cols", "lead_seg", "tail_seg", "ref_off3", "opt")(dict(w, ref_off3=3 * w["ref_off"]))))
    return cases


def ob_fasta_alignment(tier):
    cases = []
    for nseq, L in ((2, 3), (3, 3)) if tier == "quick" else ((2, 4), (3, 4)):
        for gc in range(4):
            vs = [z3.Int(f"c{i}") for i in range(L)]
            top = 2 ** nseq
            base = [z3.And(v >= 1, v < top) for v in vs]

            def run(vs=vs, nseq=nseq, gc=gc, top=top):
                ex = cur()
                return check_fasta([ex.choose(v, range(1, top)) for v in vs], nseq, gc) is None
            cases.append(Case(f"fasta alignment {nseq} seqs gapchars={gc}", base, run, dict(cols=vs, nseq=nseq, gapchars=gc),
                              _rep(check_fasta, "cols", "nseq", "gapchars")))
    return cases


def ob_msa(tier):
    cases = []
    for n in (2, 3) if tier == "quick" else (2, 3, 4):
        vs = [z3.Int(f"p{i}") for i in range(n)]
        g = z3.Int("g")
        base = [z3.And(v >= 0, v < len(MSA_SEQS)) for v in vs] + [g >= 0, g < 3]

        def run(vs=vs, g=g):
            ex = cur()
            r = check_msa([ex.choose(v, range(len(MSA_SEQS))) for v in vs], ex.choose(g, range(3)))
            return r is None or r.startswith("KNOWN:")
        known = [("C11-msa-degenerate-distance", z3.BoolVal(False), dict(picks=[0, 0][:n] + [0] * (n - 2), gi=0, strict=True),
                  "align_multiple raises instead of aligning when the pairwise distance formula degenerates: two identical one-letter "
                  "sequences ('A','A') give ZeroDivisionError (random score == maximum score), very dissimilar short sequences ('A','C') "
                  "give ValueError 'Distance matrix contains infinity'")]
        cases.append(Case(f"align_multiple {n} sequences", base, run, dict(picks=vs, gi=g), _msa_replay, known=known))
    return cases
