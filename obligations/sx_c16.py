"""C16 (SX engine, real-number semantics): the algebra of AffineTransformation - the only part of the superimposition
property that has encodable arithmetic.  superimpose.py is loaded through the SX rewrite with numpy replaced by
vf/sx/rnp.py; rotation, translations and coordinates are symbolic rationals (the rotation is ANY 3x3 matrix: the claims
are polynomial identities and do not need orthogonality).

  apply == matrix : apply(x) equals (as_matrix() @ [x, 1])[:3] for arrays (n,3) and stacks (m,n,3), model-wise.
  definition      : apply(x) = R (x + c) + t for each model.
The optimality of the rotation (SVD behind LAPACK), RMSD values and the outlier/homolog variants are NOT covered."""
import z3

from vf.kx.rat import CRat
from vf.sx import pyload, rnp
from vf.sx.ob import Case

_cache = {}


_ROT = {}


def mod():
    if "m" not in _cache:
        ident = lambda x: x if isinstance(x, rnp.RArr) else rnp.RNP.array(x)
        geo = pyload.load("biotite.structure.geometry", inject=dict(np=rnp.RNP, coord=ident))
        _cache["m"] = pyload.load("biotite.structure.superimpose",
                                  inject=dict(np=rnp.RNP, coord=ident, centroid=geo.centroid,
                                              _get_rotation_matrices=lambda fixed, mobile: _ROT["R"]))
    return _cache["m"]


def _t(x):
    n = x.n if not isinstance(x.n, int) else z3.IntVal(x.n)
    return z3.ToReal(n) / x.d


def real_affine(w):
    import numpy as np
    from biotite.structure import AffineTransformation
    m = w["m"]
    R = np.array(w["R"], dtype=np.float64).reshape(m, 3, 3)
    c = np.array(w["c"], dtype=np.float64).reshape(m, 3)
    t = np.array(w["t"], dtype=np.float64).reshape(m, 3)
    X = np.array(w["X"], dtype=np.float64).reshape(m, -1, 3)
    shared = w.get("shared")
    tr = AffineTransformation((c[:1] if shared == "shared center" else c) if m > 1 else c[0], R if m > 1 else R[0],
                              (t[:1] if shared == "shared target" else t) if m > 1 else t[0])
    if shared == "shared center":
        c = np.repeat(c[:1], m, axis=0)
    if shared == "shared target":
        t = np.repeat(t[:1], m, axis=0)
    x_in = X.astype(np.float32) if m > 1 else X[0].astype(np.float32)
    got = np.asarray(tr.apply(x_in), dtype=np.float64).reshape(m, -1, 3)
    M = tr.as_matrix()
    for k in range(m):
        want = (R[k] @ (X[k] + c[k]).T).T + t[k]
        if np.abs(got[k] - want).max() > 1e-3 * (1 + np.abs(want).max()):
            return False, f"apply gives {got[k].tolist()}, R(x+c)+t = {want.tolist()} (model {k})"
        hom = np.concatenate([X[k], np.ones((X.shape[1], 1))], axis=1)
        viaM = (M[k] @ hom.T).T[:, :3]
        if np.abs(viaM - want).max() > 1e-3 * (1 + np.abs(want).max()):
            return False, f"matrix form gives {viaM.tolist()}, R(x+c)+t = {want.tolist()} (model {k})"
    return True, "ok"


def ob_affine(tier):
    sp = mod()
    cases = []
    LIM = 8
    for m, n, as_stack in ((1, 2, False), (1, 1, True), (2, 2, True), (2, 1, "shared target"), (2, 1, "shared center")) + (() if tier == "quick" else ((3, 1, True), (2, 3, True))):
        R = [[[z3.Int(f"r{k}{i}{j}") for j in range(3)] for i in range(3)] for k in range(m)]
        C = [[z3.Int(f"c{k}{i}") for i in range(3)] for k in range(m)]
        T = [[z3.Int(f"t{k}{i}") for i in range(3)] for k in range(m)]
        X = [[[z3.Int(f"x{k}{a}{i}") for i in range(3)] for a in range(n)] for k in range(m)]
        allv = [v for k in range(m) for row in R[k] for v in row] + [v for k in range(m) for v in C[k] + T[k]] + [v for k in range(m) for a in X[k] for v in a]
        base = [z3.And(v >= -LIM, v <= LIM) for v in allv]

        def run(m=m, n=n, as_stack=as_stack, R=R, C=C, T=T, X=X):
            q = lambda v: CRat(v, 2)
            rot = rnp.RNP.array([[[q(v) for v in row] for row in R[k]] for k in range(m)]) if as_stack else rnp.RNP.array([[q(v) for v in row] for row in R[0]])
            cen = rnp.RNP.array([[q(v) for v in C[k]] for k in range(m)]) if as_stack else rnp.RNP.array([q(v) for v in C[0]])
            tar = rnp.RNP.array([[q(v) for v in T[k]] for k in range(m)]) if as_stack else rnp.RNP.array([q(v) for v in T[0]])
            # a stack superimposed onto ONE fixed model has a single target translation for all models (and vice versa)
            if as_stack == "shared target":
                tar = rnp.RNP.array([[q(v) for v in T[0]]])
                T = [T[0]] * m
            if as_stack == "shared center":
                cen = rnp.RNP.array([[q(v) for v in C[0]]])
                C = [C[0]] * m
            xs = rnp.RNP.array([[[q(v) for v in a] for a in X[k]] for k in range(m)]) if as_stack else rnp.RNP.array([[q(v) for v in a] for a in X[0]])
            tr = sp.AffineTransformation(cen, rot, tar)
            got = tr.apply(xs)
            M = tr.as_matrix()
            if len(M.data) != m:
                return False
            conds = []
            for k in range(m):
                for a in range(n):
                    g = got.data[k][a] if as_stack else got.data[a]
                    for i in range(3):
                        want = q(T[k][i])
                        for j in range(3):
                            want = want + q(R[k][i][j]) * (q(X[k][a][j]) + q(C[k][j]))
                        conds.append(_t(g[i]) == _t(want))
                        row = M.data[k][i]
                        via = row[3]
                        for j in range(3):
                            via = via + row[j] * q(X[k][a][j])
                        conds.append(_t(via) == _t(want))
                # last row of the homogeneous matrix
                conds += [_t(M.data[k][3][j]) == (1 if j == 3 else 0) for j in range(4)]
            return z3.And(*conds)
        wit = dict(m=m, shared=as_stack if isinstance(as_stack, str) else None, R=[[[z3.ToReal(v) / 2 for v in row] for row in R[k]] for k in range(m)], c=[[z3.ToReal(v) / 2 for v in C[k]] for k in range(m)],
                   t=[[z3.ToReal(v) / 2 for v in T[k]] for k in range(m)], X=[[[z3.ToReal(v) / 2 for v in a] for a in X[k]] for k in range(m)])
        cases.append(Case(f"AffineTransformation: {m} model(s) x {n} atom(s), {'stack' if as_stack else 'array'}", base, run, wit, real_affine, timeout=600, solver_ms=120000))
    return cases


def real_frame(w):
    """replay on the real superimpose(): the masked centroids of the fitted and the fixed structure coincide, and the
    returned transformation reproduces the fitted coordinates"""
    import numpy as np
    import biotite.structure as struc
    fixed = np.array(w["F"], dtype=np.float32)
    mobile = np.array(w["X"], dtype=np.float32)
    mask = None if w["mask"] is None else np.array(w["mask"], dtype=bool)
    fitted, tr = struc.superimpose(fixed, mobile, atom_mask=mask)
    sel = slice(None) if mask is None else mask
    cf, cm = fixed[..., sel, :].mean(axis=-2), fitted[..., sel, :].mean(axis=-2)
    if np.abs(cf - cm).max() > 1e-3:
        return False, f"centroid of the fitted anchor atoms {cm.tolist()} != centroid of the fixed ones {cf.tolist()}"
    again = tr.apply(mobile)
    if np.abs(again - fitted).max() > 1e-4:
        return False, "transformation.apply(mobile) != fitted coordinates"
    return True, "ok"


def ob_frame(tier):
    """superimpose() with the rotation solver (SVD) replaced by an ARBITRARY symbolic matrix per model: the translation
    logic around it.  Claims: fitted = R (x - centroid_mask(mobile)) + centroid_mask(fixed); the masked centroid of the
    fitted coordinates equals the masked centroid of the fixed ones; transformation.apply(mobile) == fitted."""
    sp = mod()
    cases = []
    LIM = 8
    masks = [None, [True, True, False], [False, True, True], [True, False, True]]
    for m, stack in ((1, False), (2, True)):
        n = 3
        for mi, mask in enumerate(masks if tier == "thorough" or m == 1 else masks[:2]):
            R = [[[z3.Int(f"r{k}{i}{j}") for j in range(3)] for i in range(3)] for k in range(m)]
            F = [[[z3.Int(f"f{k}{a}{i}") for i in range(3)] for a in range(n)] for k in range(m)]
            X = [[[z3.Int(f"x{k}{a}{i}") for i in range(3)] for a in range(n)] for k in range(m)]
            allv = [v for k in range(m) for row in R[k] for v in row] + [v for k in range(m) for a in F[k] + X[k] for v in a]
            base = [z3.And(v >= -LIM, v <= LIM) for v in allv]

            def run(m=m, stack=stack, mask=mask, R=R, F=F, X=X, n=n):
                import numpy as np
                q = lambda v: CRat(v, 2)
                _ROT["R"] = rnp.RNP.array([[[q(v) for v in row] for row in R[k]] for k in range(m)])
                mk = lambda A: rnp.RNP.array([[[q(v) for v in a] for a in A[k]] for k in range(m)]) if stack else rnp.RNP.array([[q(v) for v in a] for a in A[0]])
                fitted, tr = sp.superimpose(mk(F), mk(X), atom_mask=None if mask is None else np.array(mask))
                again = tr.apply(mk(X))
                sel = [a for a in range(n) if mask is None or mask[a]]
                conds = []
                for k in range(m):
                    fit = fitted.data[k] if stack else fitted.data
                    ag = again.data[k] if stack else again.data
                    cm = [sum((q(X[k][a][i]) for a in sel), CRat(0, 2)) / len(sel) for i in range(3)]
                    cf = [sum((q(F[k][a][i]) for a in sel), CRat(0, 2)) / len(sel) for i in range(3)]
                    for a in range(n):
                        for i in range(3):
                            want = cf[i]
                            for j in range(3):
                                want = want + q(R[k][i][j]) * (q(X[k][a][j]) - cm[j])
                            conds.append(_t(fit[a][i]) == _t(want))
                            conds.append(_t(ag[a][i]) == _t(fit[a][i]))
                    for i in range(3):
                        c_fit = sum((fit[a][i] for a in sel), CRat(0, 2)) / len(sel)
                        conds.append(_t(c_fit) == _t(cf[i]))
                return z3.And(*conds)
            wit = dict(F=[[[z3.ToReal(v) / 2 for v in a] for a in F[k]] for k in range(m)] if stack else [[z3.ToReal(v) / 2 for v in a] for a in F[0]],
                       X=[[[z3.ToReal(v) / 2 for v in a] for a in X[k]] for k in range(m)] if stack else [[z3.ToReal(v) / 2 for v in a] for a in X[0]], mask=mask)
            cases.append(Case(f"superimpose frame: {m} model(s), mask {mask}", base, run, wit, real_frame, timeout=600, solver_ms=120000))
    return cases


# ------------------------------------------------------------------------------ outlier-tolerant variant (class E)
def check_outliers(si, oi, it, ma):
    """superimpose_without_outliers on concrete point sets (real numpy): the returned transformation IS the fit on the
    returned anchors (re-superimposing with exactly those anchors gives the same transformation), it reproduces the
    returned coordinates, at least min_anchors anchors are kept, and with max_iterations=1 every atom is an anchor"""
    import numpy as np
    import biotite.structure as struc
    rng_sets = [
        [(0, 0, 0), (1, 0, 0), (0, 2, 0), (0, 0, 3), (1, 1, 1), (2, 1, 0), (0, 1, 2), (3, 0, 1), (1, 3, 2), (2, 2, 2)],
        [(0, 0, 0), (1.5, 0, 0), (3, 0.5, 0), (4.5, 0, 1), (6, 0, 0), (7.5, 1, 0), (9, 0, 0.5), (10.5, 0, 0), (12, 1, 1), (13.5, 0, 0)],
    ]
    fixed = np.array(rng_sets[si], dtype=np.float32)
    n = len(fixed)
    # mobile = rotated + translated copy, with `oi` atoms displaced by increasing amounts
    c, s = np.cos(0.7), np.sin(0.7)
    R = np.array([[c, -s, 0], [s, c, 0], [0, 0, 1]])
    mobile = (fixed.astype(float) @ R.T + np.array([5.0, -2.0, 1.0])).astype(np.float32)
    for k in range(oi):
        mobile[2 * k + 1] += np.float32(4.0 + 3.0 * k)
    max_iter = [1, 2, 10][it]
    min_anchors = [3, 6, 9][ma]
    fitted, tr, anchors = struc.superimpose_without_outliers(fixed, mobile, min_anchors=min_anchors, max_iterations=max_iter)
    anchors = np.asarray(anchors)
    if len(anchors) < min(min_anchors, n) or len(set(anchors.tolist())) != len(anchors) or not np.all((anchors >= 0) & (anchors < n)):
        return f"anchors {anchors.tolist()} (min_anchors {min_anchors})"
    if max_iter == 1 and sorted(anchors.tolist()) != list(range(n)):
        return f"max_iterations=1 but anchors {anchors.tolist()}"
    if not np.allclose(tr.apply(mobile), fitted, atol=1e-4):
        return "transformation.apply(mobile) != returned coordinates"
    # the same with one fixed model and a stack of mobile models (coordinates and atom arrays)
    for depth in (1, 2):
        mstack = np.stack([mobile] * depth)
        fa = struc.AtomArray(n)
        fa.coord = fixed
        ma = struc.stack([fa] * depth)
        ma.coord = mstack.copy()
        for fx_, mb_ in ((fixed, mstack), (fa, ma)):
            try:
                f2, t2, a2 = struc.superimpose_without_outliers(fx_, mb_, min_anchors=min_anchors, max_iterations=max_iter)
            except Exception as e_:
                return f"one fixed model, {depth} mobile model(s) ({type(mb_).__name__}): {type(e_).__name__}: {e_}"
            c2 = np.asarray(struc.coord(f2), dtype=float)
            if c2.shape != (depth, n, 3) or sorted(np.asarray(a2).tolist()) != sorted(anchors.tolist()) or not np.allclose(c2[0], np.asarray(fitted, dtype=float), atol=2e-3):
                return f"one fixed model, {depth} mobile model(s) ({type(mb_).__name__}): anchors {sorted(np.asarray(a2).tolist())} vs {sorted(anchors.tolist())}, shape {c2.shape}"
    mask = np.zeros(n, dtype=bool)
    mask[anchors] = True
    ref_fit, ref_tr = struc.superimpose(fixed, mobile, atom_mask=mask)
    if not np.allclose(ref_fit, fitted, atol=2e-3):
        worst = float(np.abs(ref_fit - fitted).max())
        return f"the returned fit is not the superimposition on the returned anchors {sorted(anchors.tolist())} (max deviation {worst:.4f}; {oi} displaced atoms, max_iterations {max_iter}, min_anchors {min_anchors})"
    return None


def ob_outliers(tier):
    s, o, i, m = z3.Ints("s o i m")

    def run():
        from vf.sx.core import cur
        ex = cur()
        return check_outliers(ex.choose(s, range(2)), ex.choose(o, range(4)), ex.choose(i, range(3)), ex.choose(m, range(3))) is None

    def rep(w):
        try:
            r = check_outliers(w["si"], w["oi"], w["it"], w["ma"])
            return r is None, str(r)
        except Exception as e:
            import traceback
            return False, f"{type(e).__name__}: {e} | {traceback.format_exc()[-300:]}"
    return [Case("superimpose_without_outliers: anchors vs transformation", [s >= 0, s < 2, o >= 0, o < 4, i >= 0, i < 3, m >= 0, m < 3], run,
                 dict(si=s, oi=o, it=i, ma=m), rep)]


# ------------------------------------------------------------------------------ homolog variant (class E)
HOM_FIXED = ["ACDEFGHIKLMN", "GGSTAVLIKR"]
# mobile sequence derived from the fixed one: identical, one residue deleted, two dissimilar substitutions, an insertion,
# truncated at both ends
HOM_EDITS = ["same", "delete", "substitute", "insert", "truncate"]


def _hom_chain(seq, chain_id, nucleic=False):
    import numpy as np
    import biotite.structure as struc
    from biotite.sequence import ProteinSequence
    n = len(seq)
    a = struc.AtomArray(2 * n)
    a.chain_id[:] = chain_id
    a.res_id = np.repeat(np.arange(1, n + 1), 2)
    a.res_name = np.repeat([s_ if nucleic else ProteinSequence.convert_letter_1to3(s_) for s_ in seq], 2)
    a.atom_name = np.array((["P", "O3'"] if nucleic else ["CA", "CB"]) * n)
    a.element = np.array((["P", "O"] if nucleic else ["C", "C"]) * n)
    return a


def _hom_coords(n, seed):
    import numpy as np
    t = np.arange(n, dtype=float)
    ca = np.stack([3.0 * t, 2.0 * np.sin(t * 1.1 + seed), 2.0 * np.cos(t * 0.9 + 0.3 * seed)], axis=1)
    return ca


def check_homologs(fi, ei, oi, two_chains, as_stack):
    """superimpose_homologs on small synthetic peptides (real numpy, real align_optimal, synthetic CCD): anchors are pairs
    of anchor atoms (CA) of residues that correspond in the sequences; the returned transformation is the
    superimposition on exactly the returned anchors and gives the returned coordinates; a rigid copy is fitted back."""
    import numpy as np
    import biotite.structure as struc
    import ccd_fixture
    ccd_fixture.activate()
    fseq = HOM_FIXED[fi]
    edit = HOM_EDITS[ei]
    # mobile sequence + for each mobile residue the fixed residue it is a copy of (None = new residue)
    src = list(range(len(fseq)))
    mseq = list(fseq)
    if edit == "delete":
        del mseq[4], src[4]
    elif edit == "substitute":
        mseq[2], mseq[7] = "W", "P"
    elif edit == "insert":
        mseq[5:5] = ["W", "W"]
        src[5:5] = [None, None]
    elif edit == "truncate":
        mseq, src = mseq[2:-2], src[2:-2]
    fixed = _hom_chain(fseq, "A")
    mobile = _hom_chain("".join(mseq), "X")
    fca = _hom_coords(len(fseq), 0.0)
    off = np.array([0.5, 1.2, -0.4])
    fixed.coord[0::2], fixed.coord[1::2] = fca, fca + off
    mca = np.array([fca[k] if k is not None else fca[5] + np.array([0.0, 6.0 + i, 3.0]) for i, k in enumerate(src)])
    mobile.coord[0::2], mobile.coord[1::2] = mca, mca + off
    if two_chains:
        f2, m2 = _hom_chain("KLMNPQRS", "B"), _hom_chain("KLMNPQRS", "Y")
        c2 = _hom_coords(8, 1.0) + np.array([0.0, 9.0, 0.0])
        for x in (f2, m2):
            x.coord[0::2], x.coord[1::2] = c2, c2 + off
        fixed, mobile = fixed + f2, mobile + m2
    # conformational outliers: oi residues of the mobile chain are displaced
    for k in range(oi):
        mobile.coord[2 * (3 * k + 1): 2 * (3 * k + 1) + 2] += 5.0 + 2.0 * k
    c, s_ = np.cos(0.7), np.sin(0.7)
    R = np.array([[c, -s_, 0], [s_, c, 0], [0, 0, 1]])
    rigid = mobile.coord.astype(float).copy()
    mobile.coord = (rigid @ R.T + np.array([5.0, -2.0, 1.0])).astype(np.float32)
    fx, mb = (struc.stack([fixed]), struc.stack([mobile, mobile])) if as_stack else (fixed, mobile)
    fitted, tr, fa, ma = struc.superimpose_homologs(fx, mb)
    fa, ma = np.asarray(fa), np.asarray(ma)
    if len(fa) != len(ma) or len(fa) < 3:
        return f"anchors {fa.tolist()} / {ma.tolist()}"
    if len(set(fa.tolist())) != len(fa) or len(set(ma.tolist())) != len(ma) or np.any(np.diff(fa) <= 0) or np.any(np.diff(ma) <= 0):
        return f"anchors are not increasing one-to-one pairs: {fa.tolist()} / {ma.tolist()}"
    if np.any(fixed.atom_name[fa] != "CA") or np.any(mobile.atom_name[ma] != "CA"):
        return f"anchors are not the anchor atoms of their residues: {fixed.atom_name[fa].tolist()} / {mobile.atom_name[ma].tolist()}"
    if np.any(fixed.res_name[fa] != mobile.res_name[ma]) and edit != "substitute":
        return f"anchor pairs join different residue types: {fixed.res_name[fa].tolist()} / {mobile.res_name[ma].tolist()}"
    if np.any(np.char.equal(fixed.chain_id[fa], "A") != np.char.equal(mobile.chain_id[ma], "X")):
        return "anchor pairs join different chains"
    fc = np.asarray(struc.coord(fitted), dtype=float)
    if not np.allclose(np.asarray(struc.coord(tr.apply(mb)), dtype=float), fc, atol=1e-4):
        return "transformation.apply(mobile) != returned structure"
    ref, _ = struc.superimpose(fx.coord[..., fa, :], mb.coord[..., ma, :])
    if not np.allclose(np.asarray(ref, dtype=float), fc[..., ma, :], atol=2e-3):
        return (f"the returned fit is not the superimposition on the returned anchors (max deviation "
                f"{float(np.abs(np.asarray(ref, dtype=float) - fc[..., ma, :]).max()):.4f}; fixed {fseq}, edit {edit}, {oi} displaced residues)")
    # every residue that is an undisturbed copy of a fixed residue comes to lie on it (anchors or not)
    moved = {3 * k + 1 for k in range(oi)}
    for i, k in enumerate(src):
        if k is not None and i not in moved:
            d = float(np.abs(fc[..., 2 * i: 2 * i + 2, :] - fixed.coord[2 * k: 2 * k + 2]).max())
            if d > 5e-3:
                return f"rigid copy of residue {k} lands {d:.4f} away (fixed {fseq}, edit {edit}, {oi} displaced residues, anchors {fa.tolist()}/{ma.tolist()})"
    return None


def ob_homologs(tier):
    f, e, o, t, k = z3.Ints("f e o t k")

    def run():
        from vf.sx.core import cur
        ex = cur()
        return check_homologs(ex.choose(f, range(len(HOM_FIXED))), ex.choose(e, range(len(HOM_EDITS))), ex.choose(o, range(3)),
                              ex.choose(t, range(2)), ex.choose(k, range(2))) is None

    def rep(w):
        try:
            r = check_homologs(w["fi"], w["ei"], w["oi"], w["two_chains"], w["as_stack"])
            return r is None, str(r)
        except Exception as ex_:
            import traceback
            return False, f"{type(ex_).__name__}: {ex_} | {traceback.format_exc()[-400:]}"
    return [Case("superimpose_homologs: anchors vs sequence correspondence vs transformation",
                 [f >= 0, f < len(HOM_FIXED), e >= 0, e < len(HOM_EDITS), o >= 0, o < 3, t >= 0, t <= 1, k >= 0, k <= 1], run,
                 dict(fi=f, ei=e, oi=o, two_chains=t, as_stack=k), rep)]


# ------------------------------------------------------------------------------ degenerate point sets (class E)
POINT_SETS = {
    "general": [(0, 0, 0), (1, 0, 0), (0, 2, 0), (0, 0, 3), (1, 1, 1)],
    "planar ring": [(2, 0, 0), (1, 1.732, 0), (-1, 1.732, 0), (-2, 0, 0), (-1, -1.732, 0), (1, -1.732, 0)],
    "planar irregular": [(0, 0, 0), (3, 0, 0), (0, 1, 0), (2, 2, 0), (-1, 4, 0)],
    "collinear": [(0, 0, 0), (1, 0, 0), (2.5, 0, 0), (7, 0, 0)],
    "two atoms": [(0, 0, 0), (0, 0, 2)],
    "one atom": [(1, 2, 3)],
    "mirror ambiguous": [(1, 0, 0), (-1, 0, 0), (0, 1, 0), (0, -1, 0)],
}


def check_degenerate(pi, axis_i, angle_i, extra):
    """exact rigid copies of degenerate point sets (real numpy / LAPACK): the rotation is proper and orthonormal and the
    copy is fitted back with RMSD ~ 0; an extra atom outside the anchor plane is not mirrored"""
    import numpy as np
    import biotite.structure as struc
    name = list(POINT_SETS)[pi]
    fixed = np.array(POINT_SETS[name], dtype=np.float64)
    axis = [np.array(a, dtype=float) for a in ((1, 0, 0), (0, 1, 0), (0, 0, 1), (1, 1, 0), (1, 2, 3))][axis_i]
    axis /= np.linalg.norm(axis)
    ang = [0.0, np.pi, np.pi / 2, 2.0, np.pi - 1e-3][angle_i]
    K = np.array([[0, -axis[2], axis[1]], [axis[2], 0, -axis[0]], [-axis[1], axis[0], 0]])
    R = np.eye(3) + np.sin(ang) * K + (1 - np.cos(ang)) * (K @ K)
    n = len(fixed)
    allpts = fixed
    mask = None
    if extra and n >= 3:
        # one more atom off the anchor set (e.g. above the plane); only the original atoms are anchors
        allpts = np.vstack([fixed, fixed.mean(axis=0) + np.array([0.3, -0.2, 1.7])])
        mask = np.array([True] * n + [False])
    mobile = allpts @ R.T + np.array([3.0, -1.0, 2.0])
    fitted, tr = struc.superimpose(allpts.astype(np.float32), mobile.astype(np.float32), atom_mask=mask)
    rot = np.asarray(tr.rotation, dtype=float).reshape(3, 3)
    if abs(np.linalg.det(rot) - 1) > 1e-3 or np.abs(rot @ rot.T - np.eye(3)).max() > 1e-3:
        return f"{name}: rotation with determinant {np.linalg.det(rot):.4f} (axis {axis.tolist()}, angle {ang:.4f})"
    sel = slice(None) if mask is None else mask
    dev = float(np.sqrt(((np.asarray(fitted, dtype=float)[sel] - allpts[sel]) ** 2).sum(axis=1).mean()))
    if dev > 2e-3:
        return f"{name}: rigid copy fitted with RMSD {dev:.5f} (axis {axis.tolist()}, angle {ang:.4f})"
    # the transformation acts on coordinates, whatever container or dtype they come in (coord() accepts any of them):
    # integer and float64 arrays, a stack-shaped array and an AtomArray give the same placement as the 4x4 matrix form
    ipts = np.round(mobile * 3).astype(np.int64)
    M = np.asarray(tr.as_matrix(), dtype=float).reshape(4, 4)
    want = ipts.astype(float) @ M[:3, :3].T + M[:3, 3]
    arr = struc.AtomArray(len(ipts))
    arr.coord = ipts.astype(np.float32)
    for label, got in (("int64 array", tr.apply(ipts)), ("int32 array", tr.apply(ipts.astype(np.int32))),
                       ("float64 array", tr.apply(ipts.astype(np.float64))), ("float32 array", tr.apply(ipts.astype(np.float32))),
                       ("(1, n, 3) int array", tr.apply(ipts[None])[0]), ("AtomArray", tr.apply(arr).coord)):
        d = float(np.abs(np.asarray(got, dtype=float) - want).max())
        if d > 1e-3 * max(1.0, float(np.abs(want).max())):
            return f"{name}: apply() on {label} deviates by {d:.4f} from the matrix form (axis {axis.tolist()}, angle {ang:.4f})"
    # non-rigid input: the mobile structure is deformed. No rigid placement has a lower RMSD over the anchors than the
    # returned one - compared with the closed-form optimum (Kabsch / Umeyama in float64, written here: the optimal RMSD^2
    # is (|X|^2 + |Y|^2 - 2 (s1 + s2 + d s3)) / n with the singular values of the covariance and d = sign(det))
    bump = np.array([[0.31 * ((i * 7) % 5 - 2), 0.17 * ((i * 3) % 4 - 1.5), 0.23 * ((i * 5) % 3 - 1)] for i in range(len(allpts))])
    deformed = (allpts + bump) @ R.T + np.array([3.0, -1.0, 2.0])
    fit2, tr2 = struc.superimpose(allpts.astype(np.float32), deformed.astype(np.float32), atom_mask=mask)
    X = allpts[sel] - allpts[sel].mean(axis=0)
    Y = deformed[sel] - deformed[sel].mean(axis=0)
    U, S, Vt = np.linalg.svd(Y.T @ X)
    d_ = np.sign(np.linalg.det(U @ Vt)) or 1.0
    best2 = max(0.0, float(((X ** 2).sum() + (Y ** 2).sum() - 2 * (S[0] + S[1] + d_ * S[2])) / len(X)))
    got2 = float(((np.asarray(fit2, dtype=float)[sel] - allpts[sel]) ** 2).sum(axis=1).mean())
    rot2 = np.asarray(tr2.rotation, dtype=float).reshape(3, 3)
    if abs(np.linalg.det(rot2) - 1) > 1e-3:
        return f"{name} (deformed): rotation with determinant {np.linalg.det(rot2):.4f}"
    if np.sqrt(got2) > np.sqrt(best2) + 2e-3:
        return f"{name} (deformed): RMSD {np.sqrt(got2):.5f} over the anchors, the optimal rigid placement reaches {np.sqrt(best2):.5f} (axis {axis.tolist()}, angle {ang:.4f})"
    rank = np.linalg.matrix_rank(fixed - fixed.mean(axis=0), tol=1e-6)
    if mask is not None and rank == 2:
        # planar anchors determine the proper rotation uniquely: the off-plane atom must come back to its place
        d = float(np.linalg.norm(np.asarray(fitted, dtype=float)[-1] - allpts[-1]))
        if d > 5e-3:
            return f"{name}: the atom outside the anchor plane lands {d:.4f} away from its place (mirror image?) (axis {axis.tolist()}, angle {ang:.4f})"
    return None


ROT_MENU = [[[1, 0, 0], [0, 1, 0], [0, 0, 1]], [[0, -1, 0], [1, 0, 0], [0, 0, 1]], [[0, 0, 1], [1, 0, 0], [0, 1, 0]],
            [[2, 0, 0], [0, 1, 0], [0, 0, -1]], [[1, 1, 0], [0, 1, 0], [0, 0, 1]]]


def check_affine_dtypes(ri, di, ti):
    """a transformation built by hand from arrays of any numeric dtype (integer rotation matrices as in the documentation
    example): apply() == 4x4 matrix form == R(x + c) + t computed in float64"""
    import numpy as np
    import biotite.structure as struc
    rdt = [np.int64, np.int32, np.float32, np.float64][di]
    R = np.array(ROT_MENU[ri], dtype=rdt)
    c, t = [((0.0, 0.0, 0.0), (0.0, 0.0, 0.0)), ((0.5, -1.25, 2.75), (0.0, 0.0, 0.0)), ((0.0, 0.0, 0.0), (0.5, -1.25, 2.75)),
            ((1, 2, 3), (-4, 5, 6)), ((0.25, 0.5, -0.75), (10.5, -0.125, 3.0))][ti]
    tdt = np.int64 if all(float(v).is_integer() for v in c + t) and ti == 3 else np.float64
    tr = struc.AffineTransformation(np.array(c, dtype=tdt), R, np.array(t, dtype=tdt))
    X = np.array([[0.0, 0.0, 0.0], [1.0, 2.0, 3.0], [-1.5, 0.25, 4.0]])
    want = (X + np.array(c, dtype=float)) @ np.array(ROT_MENU[ri], dtype=float).T + np.array(t, dtype=float)
    got = np.asarray(tr.apply(X.astype(np.float32)), dtype=float)
    if not np.allclose(got, want, atol=1e-4):
        return f"apply() with rotation dtype {rdt.__name__}, translations {c} / {t}: {got.tolist()} vs {want.tolist()}"
    M = np.asarray(tr.as_matrix(), dtype=float).reshape(4, 4)
    hom = np.concatenate([X, np.ones((len(X), 1))], axis=1) @ M.T
    if not np.allclose(hom[:, :3], want, atol=1e-4) or not np.allclose(M[3], [0, 0, 0, 1]):
        return f"as_matrix() with rotation dtype {rdt.__name__}, translations {c} / {t}: gives {hom[:, :3].tolist()}, apply() {want.tolist()}"
    return None


def ob_degenerate(tier):
    p, a, g, e = z3.Ints("p a g e")
    npts = len(POINT_SETS)

    def run():
        from vf.sx.core import cur
        ex = cur()
        return check_degenerate(ex.choose(p, range(npts)), ex.choose(a, range(5)), ex.choose(g, range(5)), ex.choose(e, range(2))) is None

    def rep(w):
        try:
            r = check_degenerate(w["pi"], w["axis_i"], w["angle_i"], w["extra"])
            return r is None, str(r)
        except Exception as ex_:
            import traceback
            return False, f"{type(ex_).__name__}: {ex_} | {traceback.format_exc()[-300:]}"
    r_, d_, t_ = z3.Ints("r d t")

    def run2():
        from vf.sx.core import cur
        ex = cur()
        return check_affine_dtypes(ex.choose(r_, range(len(ROT_MENU))), ex.choose(d_, range(4)), ex.choose(t_, range(5))) is None

    def rep2(w):
        try:
            r = check_affine_dtypes(w["ri"], w["di"], w["ti"])
            return r is None, str(r)
        except Exception as ex_:
            import traceback
            return False, f"{type(ex_).__name__}: {ex_} | {traceback.format_exc()[-300:]}"
    return [Case("rigid copies of degenerate point sets", [p >= 0, p < npts, a >= 0, a < 5, g >= 0, g < 5, e >= 0, e <= 1], run,
                 dict(pi=p, axis_i=a, angle_i=g, extra=e), rep),
            Case("hand-made transformations of any dtype", [r_ >= 0, r_ < len(ROT_MENU), d_ >= 0, d_ < 4, t_ >= 0, t_ < 5], run2,
                 dict(ri=r_, di=d_, ti=t_), rep2)]
