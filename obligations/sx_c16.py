"""C16 (SX engine, real-number semantics): the algebra of AffineTransformation - the only part of the superimposition
property that has encodable arithmetic.  superimpose.py is loaded through the SX rewrite with numpy replaced by
vf/sx/rnp.py; rotation, translations and coordinates are symbolic rationals (the rotation is ANY 3x3 matrix: the claims
are polynomial identities and do not need orthogonality).

  apply == matrix : apply(x) equals (as_matrix() @ [x, 1])[:3] for arrays (n,3) and stacks (m,n,3), model-wise.
  definition      : apply(x) = R (x + c) + t for each model.
The optimality of the rotation (SVD behind LAPACK), RMSD values and the outlier/homolog variants are NOT covered."""
import z3

from vf.kx.rat import CRat
from vf.sx import pyload, rnp
from vf.sx.ob import Case

_cache = {}


_ROT = {}


def mod():
    if "m" not in _cache:
        ident = lambda x: x if isinstance(x, rnp.RArr) else rnp.RNP.array(x)
        geo = pyload.load("biotite.structure.geometry", inject=dict(np=rnp.RNP, coord=ident))
        _cache["m"] = pyload.load("biotite.structure.superimpose",
                                  inject=dict(np=rnp.RNP, coord=ident, centroid=geo.centroid,
                                              _get_rotation_matrices=lambda fixed, mobile: _ROT["R"]))
    return _cache["m"]


def _t(x):
    n = x.n if not isinstance(x.n, int) else z3.IntVal(x.n)
    return z3.ToReal(n) / x.d


def real_affine(w):
    import numpy as np
    from biotite.structure import AffineTransformation
    m = w["m"]
    R = np.array(w["R"], dtype=np.float64).reshape(m, 3, 3)
    c = np.array(w["c"], dtype=np.float64).reshape(m, 3)
    t = np.array(w["t"], dtype=np.float64).reshape(m, 3)
    X = np.array(w["X"], dtype=np.float64).reshape(m, -1, 3)
    tr = AffineTransformation(c if m > 1 else c[0], R if m > 1 else R[0], t if m > 1 else t[0])
    x_in = X.astype(np.float32) if m > 1 else X[0].astype(np.float32)
    got = np.asarray(tr.apply(x_in), dtype=np.float64).reshape(m, -1, 3)
    M = tr.as_matrix()
    for k in range(m):
        want = (R[k] @ (X[k] + c[k]).T).T + t[k]
        if np.abs(got[k] - want).max() > 1e-3 * (1 + np.abs(want).max()):
            return False, f"apply gives {got[k].tolist()}, R(x+c)+t = {want.tolist()} (model {k})"
        hom = np.concatenate([X[k], np.ones((X.shape[1], 1))], axis=1)
        viaM = (M[k] @ hom.T).T[:, :3]
        if np.abs(viaM - want).max() > 1e-3 * (1 + np.abs(want).max()):
            return False, f"matrix form gives {viaM.tolist()}, R(x+c)+t = {want.tolist()} (model {k})"
    return True, "ok"


def ob_affine(tier):
    sp = mod()
    cases = []
    LIM = 8
    for m, n, as_stack in ((1, 2, False), (1, 1, True), (2, 2, True)) + (() if tier == "quick" else ((3, 1, True), (2, 3, True))):
        R = [[[z3.Int(f"r{k}{i}{j}") for j in range(3)] for i in range(3)] for k in range(m)]
        C = [[z3.Int(f"c{k}{i}") for i in range(3)] for k in range(m)]
        T = [[z3.Int(f"t{k}{i}") for i in range(3)] for k in range(m)]
        X = [[[z3.Int(f"x{k}{a}{i}") for i in range(3)] for a in range(n)] for k in range(m)]
        allv = [v for k in range(m) for row in R[k] for v in row] + [v for k in range(m) for v in C[k] + T[k]] + [v for k in range(m) for a in X[k] for v in a]
        base = [z3.And(v >= -LIM, v <= LIM) for v in allv]

        def run(m=m, n=n, as_stack=as_stack, R=R, C=C, T=T, X=X):
            q = lambda v: CRat(v, 2)
            rot = rnp.RNP.array([[[q(v) for v in row] for row in R[k]] for k in range(m)]) if as_stack else rnp.RNP.array([[q(v) for v in row] for row in R[0]])
            cen = rnp.RNP.array([[q(v) for v in C[k]] for k in range(m)]) if as_stack else rnp.RNP.array([q(v) for v in C[0]])
            tar = rnp.RNP.array([[q(v) for v in T[k]] for k in range(m)]) if as_stack else rnp.RNP.array([q(v) for v in T[0]])
            xs = rnp.RNP.array([[[q(v) for v in a] for a in X[k]] for k in range(m)]) if as_stack else rnp.RNP.array([[q(v) for v in a] for a in X[0]])
            tr = sp.AffineTransformation(cen, rot, tar)
            got = tr.apply(xs)
            M = tr.as_matrix()
            conds = []
            for k in range(m):
                for a in range(n):
                    g = got.data[k][a] if as_stack else got.data[a]
                    for i in range(3):
                        want = q(T[k][i])
                        for j in range(3):
                            want = want + q(R[k][i][j]) * (q(X[k][a][j]) + q(C[k][j]))
                        conds.append(_t(g[i]) == _t(want))
                        row = M.data[k][i]
                        via = row[3]
                        for j in range(3):
                            via = via + row[j] * q(X[k][a][j])
                        conds.append(_t(via) == _t(want))
                # last row of the homogeneous matrix
                conds += [_t(M.data[k][3][j]) == (1 if j == 3 else 0) for j in range(4)]
            return z3.And(*conds)
        wit = dict(m=m, R=[[[z3.ToReal(v) / 2 for v in row] for row in R[k]] for k in range(m)], c=[[z3.ToReal(v) / 2 for v in C[k]] for k in range(m)],
                   t=[[z3.ToReal(v) / 2 for v in T[k]] for k in range(m)], X=[[[z3.ToReal(v) / 2 for v in a] for a in X[k]] for k in range(m)])
        cases.append(Case(f"AffineTransformation: {m} model(s) x {n} atom(s), {'stack' if as_stack else 'array'}", base, run, wit, real_affine, timeout=600, solver_ms=120000))
    return cases


def real_frame(w):
    """replay on the real superimpose(): the masked centroids of the fitted and the fixed structure coincide, and the
    returned transformation reproduces the fitted coordinates"""
    import numpy as np
    import biotite.structure as struc
    fixed = np.array(w["F"], dtype=np.float32)
    mobile = np.array(w["X"], dtype=np.float32)
    mask = None if w["mask"] is None else np.array(w["mask"], dtype=bool)
    fitted, tr = struc.superimpose(fixed, mobile, atom_mask=mask)
    sel = slice(None) if mask is None else mask
    cf, cm = fixed[..., sel, :].mean(axis=-2), fitted[..., sel, :].mean(axis=-2)
    if np.abs(cf - cm).max() > 1e-3:
        return False, f"centroid of the fitted anchor atoms {cm.tolist()} != centroid of the fixed ones {cf.tolist()}"
    again = tr.apply(mobile)
    if np.abs(again - fitted).max() > 1e-4:
        return False, "transformation.apply(mobile) != fitted coordinates"
    return True, "ok"


def ob_frame(tier):
    """superimpose() with the rotation solver (SVD) replaced by an ARBITRARY symbolic matrix per model: the translation
    logic around it.  Claims: fitted = R (x - centroid_mask(mobile)) + centroid_mask(fixed); the masked centroid of the
    fitted coordinates equals the masked centroid of the fixed ones; transformation.apply(mobile) == fitted."""
    sp = mod()
    cases = []
    LIM = 8
    masks = [None, [True, True, False], [False, True, True], [True, False, True]]
    for m, stack in ((1, False), (2, True)):
        n = 3
        for mi, mask in enumerate(masks if tier == "thorough" or m == 1 else masks[:2]):
            R = [[[z3.Int(f"r{k}{i}{j}") for j in range(3)] for i in range(3)] for k in range(m)]
            F = [[[z3.Int(f"f{k}{a}{i}") for i in range(3)] for a in range(n)] for k in range(m)]
            X = [[[z3.Int(f"x{k}{a}{i}") for i in range(3)] for a in range(n)] for k in range(m)]
            allv = [v for k in range(m) for row in R[k] for v in row] + [v for k in range(m) for a in F[k] + X[k] for v in a]
            base = [z3.And(v >= -LIM, v <= LIM) for v in allv]

            def run(m=m, stack=stack, mask=mask, R=R, F=F, X=X, n=n):
                import numpy as np
                q = lambda v: CRat(v, 2)
                _ROT["R"] = rnp.RNP.array([[[q(v) for v in row] for row in R[k]] for k in range(m)])
                mk = lambda A: rnp.RNP.array([[[q(v) for v in a] for a in A[k]] for k in range(m)]) if stack else rnp.RNP.array([[q(v) for v in a] for a in A[0]])
                fitted, tr = sp.superimpose(mk(F), mk(X), atom_mask=None if mask is None else np.array(mask))
                again = tr.apply(mk(X))
                sel = [a for a in range(n) if mask is None or mask[a]]
                conds = []
                for k in range(m):
                    fit = fitted.data[k] if stack else fitted.data
                    ag = again.data[k] if stack else again.data
                    cm = [sum((q(X[k][a][i]) for a in sel), CRat(0, 2)) / len(sel) for i in range(3)]
                    cf = [sum((q(F[k][a][i]) for a in sel), CRat(0, 2)) / len(sel) for i in range(3)]
                    for a in range(n):
                        for i in range(3):
                            want = cf[i]
                            for j in range(3):
                                want = want + q(R[k][i][j]) * (q(X[k][a][j]) - cm[j])
                            conds.append(_t(fit[a][i]) == _t(want))
                            conds.append(_t(ag[a][i]) == _t(fit[a][i]))
                    for i in range(3):
                        c_fit = sum((fit[a][i] for a in sel), CRat(0, 2)) / len(sel)
                        conds.append(_t(c_fit) == _t(cf[i]))
                return z3.And(*conds)
            wit = dict(F=[[[z3.ToReal(v) / 2 for v in a] for a in F[k]] for k in range(m)] if stack else [[z3.ToReal(v) / 2 for v in a] for a in F[0]],
                       X=[[[z3.ToReal(v) / 2 for v in a] for a in X[k]] for k in range(m)] if stack else [[z3.ToReal(v) / 2 for v in a] for a in X[0]], mask=mask)
            cases.append(Case(f"superimpose frame: {m} model(s), mask {mask}", base, run, wit, real_frame, timeout=600, solver_ms=120000))
    return cases
