"""C06 containers as mutable mappings (text and binary flavour), before and after lazy parsing.

E-class: op-codes and key selectors are z3 Ints that the explorer case-splits (every
combination within the bound is a path; the assertion is evaluated concretely on each path);
the code under check is the unmodified biotite classes.
"""
import z3
import numpy as np

from vf.sx.core import cur
from vf.sx.ob import Case

BK = ["b1", "x_data_2"]          # (a block name may contain the keyword prefix "data_" again)
CK = ["c1", "c3", "_u"]
COL = ["x", "w"]


def _classes(flavour):
    import biotite.structure.io.pdbx as pdbx
    if flavour == "cif":
        return pdbx.CIFFile, pdbx.CIFBlock, pdbx.CIFCategory
    return pdbx.BinaryCIFFile, pdbx.BinaryCIFBlock, pdbx.BinaryCIFCategory


def build(flavour, model):
    F, B, C = _classes(flavour)
    f = F()
    for bk, cats in model.items():
        b = B()
        for ck, cols in cats.items():
            b[ck] = C({k: np.array(v, dtype=object).astype(str) for k, v in cols.items()})
        f[bk] = b
    return f


def relazy(flavour, f):
    F, B, C = _classes(flavour)
    return F.deserialize(f.serialize())


def observe(f):
    out = {}
    for bk in f.keys():
        b = f[bk]
        ob = {}
        for ck in b.keys():
            c = b[ck]
            ob[ck] = {k: [str(x) for x in c[k].as_array(str)] for k in c.keys()}
        out[bk] = ob
    return out


INIT = {"b1": {"c1": {"x": ["1", "2"], "y": ["a", "b"]}, "c2": {"z": ["q"]}}}


def clone(m):
    return {bk: {ck: {k: list(v) for k, v in cols.items()} for ck, cols in cats.items()} for bk, cats in m.items()}


NOPS = 9


def step(flavour, f, model, op, a):
    """apply op to implementation and model; returns (f, ok)"""
    F, B, C = _classes(flavour)
    if op == 0:
        bk = BK[a % 2]
        nb = B()
        nb["n1"] = C({"p": np.array(["7"])})
        f[bk] = nb
        model[bk] = {"n1": {"p": ["7"]}}
    elif op == 1:
        bk = BK[a % 2]
        try:
            del f[bk]
            raised = False
        except KeyError:
            raised = True
        if (bk not in model) != raised:
            return f, False
        model.pop(bk, None)
    elif op in (2, 3, 7):
        if "b1" not in model:
            return f, True
        ck = CK[a % 3]
        b = f["b1"]
        if op == 2:
            b[ck] = C({"n": np.array(["7", "8"])})
            model["b1"][ck] = {"n": ["7", "8"]}
        elif op == 3:
            try:
                del b[ck]
                raised = False
            except KeyError:
                raised = True
            if (ck not in model["b1"]) != raised:
                return f, False
            model["b1"].pop(ck, None)
        else:
            try:
                c = b[ck]
                raised = False
            except KeyError:
                raised = True
            if (ck not in model["b1"]) != raised:
                return f, False
            if (ck in b) != (ck in model["b1"]):
                return f, False
    elif op in (4, 5):
        if "b1" not in model or "c1" not in model["b1"]:
            return f, True
        col = COL[a % 2]
        c = f["b1"]["c1"]
        n = len(next(iter(model["b1"]["c1"].values())))
        if op == 4:
            new = [str(5 + i) for i in range(n)]
            c[col] = np.array(new)
            model["b1"]["c1"][col] = new
        else:
            mcols = model["b1"]["c1"]
            try:
                del c[col]
                raised = None
            except KeyError:
                raised = "key"
            except ValueError:
                raised = "last"          # text flavour refuses to delete the last column (documented)
            if col not in mcols:
                # the text flavour checks "last column" before the key: both refusals are accepted
                if not (raised == "key" or (raised == "last" and len(mcols) == 1)):
                    return f, False
            elif raised == "last":
                if len(mcols) != 1:
                    return f, False
            elif raised is None:
                mcols.pop(col)
                if not mcols:
                    return f, True       # category without columns: not serialisable, stop comparing here
            else:
                return f, False
    elif op == 6:
        if any(len(cols) == 0 for cats in model.values() for cols in cats.values()):
            return f, True
        f = relazy(flavour, f)
    elif op == 8:
        # resize a whole category: read its row count, then replace EVERY column by one with one more row
        # (the container passes through states with unequal column lengths; the final state is rectangular again)
        if "b1" not in model or "c1" not in model["b1"] or not model["b1"]["c1"]:
            return f, True
        c = f["b1"]["c1"]
        mcols = model["b1"]["c1"]
        n = len(next(iter(mcols.values())))
        if getattr(c, "row_count", n) != n:
            return f, False
        for col in list(mcols):
            new = list(mcols[col]) + [str(a % 7)]
            c[col] = np.array(new)
            mcols[col] = new
        if getattr(c, "row_count", n + 1) != n + 1:
            return f, False
    return f, True


def consistent(flavour, f, model):
    if observe(f) != model:
        return False
    if len(f) != len(model) or list(f) != list(model):
        return False
    for bk in model:
        if bk not in f or len(f[bk]) != len(model[bk]) or list(f[bk]) != list(model[bk]):
            return False
        for ck in model[bk]:
            if ck not in f[bk] or list(f[bk][ck]) != list(model[bk][ck]) or len(f[bk][ck]) != len(model[bk][ck]):
                return False
    if "zz" in f:
        return False
    if all(len(cols) for cats in model.values() for cols in cats.values()):
        ref = build(flavour, model)
        if flavour == "bcif":
            # derived encoding parameters (e.g. the string table) are part of BinaryCIFData equality and
            # are filled in by serialisation: compare two objects that both have been serialised
            f.serialize()
            ref.serialize()
        if not (f == ref and ref == f):
            return False
        # ordinary mappings compare equal regardless of insertion order (blocks, categories and columns reversed)
        rev = build(flavour, {bk: {ck: dict(reversed(list(cols.items()))) for ck, cols in reversed(list(cats.items()))}
                              for bk, cats in reversed(list(model.items()))})
        if flavour == "bcif":
            rev.serialize()
        if not (f == rev and rev == f):
            return False
    return True


def run_seq(flavour, lazy, ops):
    model = clone(INIT)
    f = build(flavour, model)
    if lazy:
        f = relazy(flavour, f)
    if not consistent(flavour, f, model):
        return False
    for op, a in ops:
        if any(len(cols) == 0 for cats in model.values() for cols in cats.values()):
            return True
        f, ok = step(flavour, f, model, op, a)
        if not ok:
            return False
        if any(len(cols) == 0 for cats in model.values() for cols in cats.values()):
            return True
        if not consistent(flavour, f, model):
            return False
    return True


def replay(w):
    try:
        ok = run_seq(w["flavour"], w["lazy"], [tuple(x) for x in w["ops"]])
        return ok, "sequence returned %s" % ok
    except Exception as e:
        return False, f"{type(e).__name__}: {e}"


def cases(tier, flavour):
    k = 2 if tier == "quick" else 3
    out = []
    for lazy in (False, True):
        for first in range(NOPS):
            opv = [z3.Int(f"op{i}") for i in range(k)]
            av = [z3.Int(f"a{i}") for i in range(k)]
            base = [opv[0] == first]
            for o, a in zip(opv, av):
                base += [o >= 0, o < NOPS, a >= 0, a < 3]

            def run(opv=opv, av=av, lazy=lazy):
                ex = cur()
                ops = []
                for o, a in zip(opv, av):
                    oc = ex.choose(o, range(NOPS))
                    ac = ex.choose(a, range(3))
                    ops.append((oc, ac))
                return run_seq(flavour, lazy, ops)
            known = KNOWN(flavour, opv, av)
            out.append(Case(f"{flavour} lazy={lazy} first={first} k={k}", base, run,
                            dict(flavour=flavour, lazy=lazy, ops=[[o, a] for o, a in zip(opv, av)]), replay, known=known))
    return out


def KNOWN(flavour, opv, av):
    return []


def ob_map_cif(tier):
    return cases(tier, "cif")


def ob_map_bcif(tier):
    return cases(tier, "bcif")
