"""C18: small molecules survive MOL/SDF files and the RDKit bridge.

S (pyre): the four key-component regexes and the name input regex are read from the live Metadata.Key class and
translated to z3 regexes (vf/pyre.py); z3 decides that every admitted name serialises to a token that the component
grammar maps back to the same name (the 8-line matching loop of Key.deserialize is transcribed).
E: CTAB/MOL/SDF round trips, headers, metadata, multi-record files, V2000/V3000 switching and the RDKit bridge on menus."""
import io

import numpy as np
import z3

from vf import pyre
from vf.sx.core import cur
from vf.sx.ob import Case


def _rep(f, *keys):
    def g(w):
        try:
            r = f(*[w[k] for k in keys])
            return r is None, str(r)
        except Exception as e:
            import traceback
            return False, f"{type(e).__name__}: {e} | {traceback.format_exc()[-400:]}"
    return g


# ------------------------------------------------------------------------------ key grammar
def check_key_name(name):
    from biotite.structure.io.mol import Metadata
    try:
        key = Metadata.Key(name=name)
    except ValueError:
        return None               # not admitted
    md = Metadata({key: "v"})
    back = Metadata.deserialize(md.serialize())
    if list(back.keys()) != [key] or back[key] != "v":
        return f"key with name {name!r} serialises to {md.serialize()!r} and reads back as {list(back.keys())!r}"
    return None


def ob_key_grammar(tier):
    from biotite.structure.io.mol import Metadata
    K = Metadata.Key
    name_in = pyre.to_z3(K._NAME_INPUT_REGEX)
    comps = {n: pyre.to_z3(r) for n, r in K._COMPONENT_REGEX.items()}
    order = list(K._COMPONENT_REGEX)
    nself = pyre.selftest()
    name = z3.String("name")
    token = z3.Concat(z3.StringVal("<"), name, z3.StringVal(">"))
    ws = z3.Union(*[z3.Re(c) for c in " \t\n\r\f\v"])
    has_ws = z3.InRe(name, z3.Concat(z3.Full(z3.ReSort(z3.StringSort())), ws, z3.Full(z3.ReSort(z3.StringSort()))))
    # (transcription of Key.deserialize) the token is split at whitespace and matched against the component regexes in order
    ok = z3.And(z3.Not(has_ws), z3.InRe(token, comps["name"]),
                *[z3.Not(z3.InRe(token, comps[o])) for o in order[: order.index("name")]])
    # admission = what Key.__post_init__ really accepts: probed on the real class for the '$' corner (trailing line feed)
    try:
        K(name="a\n")
        admits_trailing_lf = True
    except ValueError:
        admits_trailing_lf = False
    admitted = z3.InRe(name, name_in)
    if not admits_trailing_lf:
        admitted = z3.And(admitted, z3.Not(z3.SuffixOf(z3.StringVal("\n"), name)))
    base = [admitted, z3.Length(name) <= (6 if tier == "quick" else 12)]
    case = Case("admitted names round-trip through the key grammar", base, lambda: ok, dict(name=name),
                _rep(check_key_name, "name"))
    return [case], dict(validation=f"pyre: {nself} strings agree between Python re and the z3 regexes",
                        functions=["src/biotite/structure/io/mol/sdf.py:Metadata.Key._NAME_INPUT_REGEX/_COMPONENT_REGEX (read from the live class)"])


# ------------------------------------------------------------------------------- molecules
ELEMENTS = ["C", "N", "O", "CL", "FE"]
COORDS = [0.0, 1.2345, -9999.9999, 99999.9999, 99999.99996, -9999.99996, 100000.0, 12.00004, -9999.5, 99999.5, -1000.25]
BTYPES = [1, 2, 3, 5, 6, 0, 4, 7]      # SINGLE DOUBLE TRIPLE AROM_S AROM_D ANY QUAD AROM_T (filtered by what the writer's table can express)


def molecule(n, csel, catom, charges, btype, nmodels=1):
    import biotite.structure as struc
    arr = struc.AtomArray(n)
    arr.element = np.array([ELEMENTS[(i + csel) % len(ELEMENTS)] for i in range(n)])
    arr.atom_name = arr.element.copy()
    arr.res_name = np.array(["LIG"] * n)
    arr.hetero = np.ones(n, dtype=bool)
    coord = np.array([[1.5 * i, -0.25 * i, 0.0001 * i] for i in range(n)], dtype=np.float64)
    coord[catom % n, catom % 3] = COORDS[csel]
    arr.coord = coord.astype(np.float32)
    arr.set_annotation("charge", np.array([charges[i % len(charges)] for i in range(n)], dtype=int))
    from biotite.structure.io.mol.ctab import BOND_TYPE_MAPPING_REV
    expressible = [t for t in BTYPES if t in BOND_TYPE_MAPPING_REV]
    bonds = [[i, i + 1, expressible[(btype + i) % len(expressible)]] for i in range(n - 1)]
    arr.bonds = struc.BondList(n, np.array(bonds, dtype=np.int64).reshape(-1, 3))
    return arr


HEADER_TEXTS = [("M  ENDO-7", ""), ("mol", "M  END of the route"), ("> <name>", "> <x>"), ("M  V30 END CTAB", "V2000"), ("1  0  0  0  0  0  0  0  0  0999 V2000", "M  CHG  1   1   1")]


def check_headers(atoms, ver, kind):
    """header lines are free text: they may look like the lines that structure the file (run after the molecule was
    accepted by the writer, so that an error while READING is not mistaken for a refusal)"""
    from biotite.structure.io.mol import MOLFile, SDFile, SDRecord, Header
    if kind == 0:
        for nm, cm in HEADER_TEXTS:
            h = MOLFile()
            h.header = Header(mol_name=nm, comments=cm)
            h.set_structure(atoms, version=ver)
            o = io.StringIO()
            h.write(o)
            hb = MOLFile.read(io.StringIO(o.getvalue()))
            if hb.header.mol_name != nm or hb.header.comments != cm:
                return f"MOL header ({nm!r}, {cm!r}) read back as ({hb.header.mol_name!r}, {hb.header.comments!r})"
            hs = hb.get_structure()
            if hs.element.tolist() != atoms.element.tolist() or hs.bonds.as_set() != atoms.bonds.as_set():
                return f"molecule under the MOL header ({nm!r}, {cm!r}) read back differently"
    else:
        for nm, cm in HEADER_TEXTS:
            if nm.startswith("$$$$") or cm.startswith("$$$$"):
                continue          # '$$$$' at a line start is the record separator of the format itself
            hr = SDRecord()
            hr.header = Header(mol_name=nm, comments=cm)
            hr.set_structure(atoms, version=ver)
            other = SDRecord()
            other.header = Header(mol_name="other")
            other.set_structure(atoms, version=ver)
            hf = SDFile({nm: hr, "other": other})
            o = io.StringIO()
            hf.write(o)
            hb = SDFile.read(io.StringIO(o.getvalue()))
            if list(hb.keys()) != [nm, "other"] or hb[nm].header.comments != cm or hb[nm].header.mol_name != nm:
                return f"SD record header ({nm!r}, {cm!r}) read back as {list(hb.keys())}"
            hs = hb[nm].get_structure()
            if hs.element.tolist() != atoms.element.tolist() or hs.bonds.as_set() != atoms.bonds.as_set():
                return f"molecule under the SD record header ({nm!r}, {cm!r}) read back differently"
    return None


def check_mol(n, csel, catom, c0, btype, version, kind):
    import biotite.structure as struc
    from biotite.structure.io.mol import MOLFile, SDFile, SDRecord, Header, Metadata
    from biotite.structure.error import BadStructureError
    ver = [None, "V2000", "V3000"][version]
    charges = [c0, -c0, 0]
    atoms = molecule(n, csel, catom, charges, btype)
    f = MOLFile() if kind == 0 else SDFile()
    try:
        if kind == 0:
            f.header = Header(mol_name="mol", initials="AB", program="prog", dimensions="3D", comments="a comment")
            f.set_structure(atoms, version=ver)
        else:
            rec = SDRecord()
            rec.header = Header(mol_name="r1")
            rec.set_structure(atoms, version=ver)
            rec.metadata = Metadata({"Some_Key": "line1\nline2", Metadata.Key(number=3, name="N.x", registry_internal=7, registry_external="E-1"): "v"})
            f["r1"] = rec
            rec2 = SDRecord()
            rec2.header = Header(mol_name="r0")
            rec2.set_structure(molecule(2, 0, 0, [0], 0), version=ver)
            f["r0"] = rec2
    except (BadStructureError, ValueError):
        return None               # refused
    why = check_headers(atoms, ver, kind)
    if why:
        return why
    out = io.StringIO()
    f.write(out)
    text = out.getvalue()
    lines = text.splitlines()
    # V2000 atom block lines must have their fixed width (no shifted columns)
    if "V2000" in text:
        for l in lines[4:4 + n] if kind == 0 else []:
            if len(l) != 69:
                return f"V2000 atom line has {len(l)} columns: {l!r}"
            try:
                float(l[0:10]), float(l[10:20]), float(l[20:30])
            except ValueError:
                return f"V2000 coordinate columns: {l!r}"
    g = (MOLFile if kind == 0 else SDFile).read(io.StringIO(text))
    if kind == 0:
        back = g.get_structure()
        if g.header.mol_name != "mol" or g.header.initials != "AB" or g.header.program != "prog" or g.header.dimensions != "3D" or g.header.comments != "a comment":
            return f"header read back as {g.header}"
    else:
        if list(g.keys()) != ["r1", "r0"]:
            return f"record names/order {list(g.keys())}"
        back = g["r1"].get_structure()
        md = g["r1"].metadata
        if md["Some_Key"] != "line1\nline2" or md[Metadata.Key(number=3, name="N.x", registry_internal=7, registry_external="E-1")] != "v":
            return f"metadata read back as {dict(md)}"
        if not (g == f):
            return "SD file read back is not equal to the written one"
        # editing a record of a file that was READ (records are parsed on access) through item access: the edit is part of
        # the file afterwards
        from biotite.structure.io import mol as molio
        h = SDFile.read(io.StringIO(text))
        h["r0"].metadata = Metadata({"Edited": "yes"})
        h["r0"].header = Header(mol_name="r0", comments="edited")
        molio.set_structure(h, atoms, version=ver, record_name="r0")
        out2 = io.StringIO()
        h.write(out2)
        k = SDFile.read(io.StringIO(out2.getvalue()))
        if list(k.keys()) != ["r1", "r0"]:
            return f"record names/order after an edit {list(k.keys())}"
        if dict(k["r0"].metadata) != dict(Metadata({"Edited": "yes"})) or k["r0"].header.comments != "edited":
            return f"edit of a record of a read file is lost: metadata {dict(k['r0'].metadata)}, header {k['r0'].header}"
        e = k["r0"].get_structure()
        if e.element.tolist() != atoms.element.tolist() or e.bonds.as_set() != atoms.bonds.as_set() or not np.allclose(e.coord, atoms.coord, atol=0.000051):
            return "structure set into a record of a read file is lost"
        if k["r1"].get_structure().element.tolist() != atoms.element.tolist() or k["r1"].metadata["Some_Key"] != "line1\nline2":
            return "the untouched record changed"
        # records taken over from a READ file (still unparsed) into another file under NEW names, mixed with a fresh
        # record: names and order of the new file survive, contents stay
        lib = SDFile.read(io.StringIO(text))
        nf = SDFile()
        nf["second_name"] = lib["r0"]
        nf["first_name"] = lib["r1"]
        fresh = SDRecord()
        fresh.set_structure(atoms, version=ver)
        nf["third_name"] = fresh
        out3 = io.StringIO()
        nf.write(out3)
        q = SDFile.read(io.StringIO(out3.getvalue()))
        if list(q.keys()) != ["second_name", "first_name", "third_name"]:
            return f"records of a read file stored under new names come back as {list(q.keys())}"
        if q["first_name"].header.mol_name != "first_name" or q["first_name"].metadata["Some_Key"] != "line1\nline2":
            return "record stored under a new name lost its name / metadata"
        if q["first_name"].get_structure().element.tolist() != atoms.element.tolist():
            return "record stored under a new name lost its structure"
    if back.element.tolist() != atoms.element.tolist():
        return f"elements {back.element.tolist()}"
    if not np.allclose(back.coord, atoms.coord, atol=0.000051):
        return f"coordinates {back.coord.tolist()} vs {atoms.coord.tolist()}"
    if back.charge.tolist() != atoms.charge.tolist():
        return f"charges written {atoms.charge.tolist()} read {back.charge.tolist()}"
    if back.bonds.as_set() != atoms.bonds.as_set():
        return f"bonds written {sorted(atoms.bonds.as_set())} read {sorted(back.bonds.as_set())}"
    return None


def check_big(natoms, nbonds, version):
    """counts that do not fit the 3-digit V2000 fields select V3000 (or raise): never shifted columns"""
    import biotite.structure as struc
    from biotite.structure.io.mol import MOLFile
    ver = [None, "V2000", "V3000"][version]
    arr = struc.AtomArray(natoms)
    arr.element = np.array(["C"] * natoms)
    arr.coord = np.zeros((natoms, 3), dtype=np.float32)
    arr.coord[:, 0] = np.arange(natoms)
    pairs = []
    i = 0
    while len(pairs) < nbonds:
        for j in range(i + 1, natoms):
            pairs.append((i, j, 1))
            if len(pairs) == nbonds:
                break
        i += 1
    arr.bonds = struc.BondList(natoms, np.array(pairs, dtype=np.int64).reshape(-1, 3))
    f = MOLFile()
    try:
        f.set_structure(arr, version=ver)
    except ValueError:
        return None if (natoms >= 1000 or nbonds >= 1000) and ver == "V2000" else "refused although it fits"
    counts = f.lines[3]
    if "V2000" in counts:
        if natoms >= 1000 or nbonds >= 1000:
            return f"V2000 written for {natoms} atoms / {nbonds} bonds: counts line {counts!r}"
        if len(counts) != 39:
            return f"counts line has {len(counts)} columns"
    out = io.StringIO()
    f.write(out)
    back = MOLFile.read(io.StringIO(out.getvalue())).get_structure()
    if back.array_length() != natoms or back.bonds.get_bond_count() != nbonds:
        return f"read back {back.array_length()} atoms / {back.bonds.get_bond_count()} bonds"
    return None


def check_rdkit(n, btype, nmodels, c0):
    import biotite.structure as struc
    import biotite.interface.rdkit as rd
    atoms = molecule(n, 0, 0, [c0, -c0, 0], btype)
    # bond types RDKit can express through the mapping table; aromatic / coordination are covered separately
    types = [1, 2, 3, 4]
    atoms.bonds = struc.BondList(n, np.array([[i, i + 1, types[(btype + i) % 4]] for i in range(n - 1)], dtype=np.int64).reshape(-1, 3))
    src = atoms
    if nmodels > 1:
        src = struc.stack([atoms] * nmodels)
        for k in range(nmodels):
            src.coord[k] += 10.0 * k
    mol = rd.to_mol(src)
    if mol.GetNumConformers() != nmodels:
        return f"{mol.GetNumConformers()} conformers for {nmodels} models"
    back = rd.from_mol(mol, add_hydrogen=False)
    if back.stack_depth() != nmodels:
        return f"{back.stack_depth()} models back"
    # coordination bonds: RDKit can express them as dative bonds when asked to (documented option); otherwise they become
    # single bonds (documented loss)
    if n >= 2:
        coord_atoms = atoms.copy()
        coord_atoms.bonds = struc.BondList(n, np.array([[i, i + 1, int(struc.BondType.COORDINATION) if i == 0 else 1] for i in range(n - 1)], dtype=np.int64).reshape(-1, 3))
        for flag, want_t in ((True, int(struc.BondType.COORDINATION)), (False, int(struc.BondType.SINGLE))):
            bk = rd.from_mol(rd.to_mol(coord_atoms, use_dative_bonds=flag), add_hydrogen=False)
            got_t = {(int(i), int(j)): int(t) for i, j, t in bk.bonds.as_array()}.get((0, 1))
            if got_t != want_t:
                return f"coordination bond through the bridge with use_dative_bonds={flag}: came back as bond type {got_t}, expected {want_t}"
    # documented: the models become conformers with IDs counting from 0, and each of them can be asked for by its ID
    ids = [c.GetId() for c in mol.GetConformers()]
    if ids != list(range(nmodels)):
        return f"conformer IDs {ids} for {nmodels} models"
    for k in range(nmodels):
        one = rd.from_mol(mol, conformer_id=k, add_hydrogen=False)
        want_k = src.coord[k] if nmodels > 1 else src.coord
        if not isinstance(one, struc.AtomArray) or not np.allclose(one.coord, want_k, atol=1e-4):
            return f"conformer {k} does not return model {k}"
    if back.element.tolist() != atoms.element.tolist() or back.charge.tolist() != atoms.charge.tolist():
        return f"elements/charges {back.element.tolist()} {back.charge.tolist()}"
    want = src.coord if nmodels > 1 else src.coord[None]
    if not np.allclose(back.coord, want, atol=1e-4):
        return "coordinates / model order"
    if back.bonds.as_set() != atoms.bonds.as_set():
        return f"bonds written {sorted(atoms.bonds.as_set())} back {sorted(back.bonds.as_set())}"
    return None


def ob_molfiles(tier):
    cases = []
    for kind in (0, 1):
        for version in range(3):
            n, cs, ca, c0, bt = z3.Ints("n cs ca c0 bt")
            base = [n >= 1, n <= 3, cs >= 0, cs < len(COORDS), ca >= 0, ca < 3, c0 >= 0, c0 <= 15, bt >= 0, bt < len(BTYPES)]
            if tier == "quick":
                base += [z3.Or(c0 == 0, c0 == 1, c0 == 3, c0 == 15, c0 == 4)]

            def run(kind=kind, version=version, n=n, cs=cs, ca=ca, c0=c0, bt=bt):
                ex = cur()
                return check_mol(ex.choose(n, range(1, 4)), ex.choose(cs, range(len(COORDS))), ex.choose(ca, range(3)),
                                 ex.choose(c0, range(16)), ex.choose(bt, range(len(BTYPES))), version, kind) is None
            cases.append(Case(f"{'MOL' if kind == 0 else 'SDF'} version={[None, 'V2000', 'V3000'][version]}", base, run,
                              dict(n=n, csel=cs, catom=ca, c0=c0, btype=bt, version=version, kind=kind),
                              _rep(check_mol, "n", "csel", "catom", "c0", "btype", "version", "kind")))
    na, nb, v = z3.Ints("na nb v")
    sizes_a, sizes_b = [50, 999, 1000], [0, 998, 999, 1000, 1100]

    def run_big():
        ex = cur()
        a = sizes_a[ex.choose(na, range(3))]
        b = sizes_b[ex.choose(nb, range(5))]
        if b > a * (a - 1) // 2:
            return True
        return check_big(a, b, ex.choose(v, range(3))) is None
    cases.append(Case("V2000 count limits", [na >= 0, na < 3, nb >= 0, nb < 5, v >= 0, v < 3], run_big, dict(na=na, nb=nb, v=v),
                      lambda w: _rep(check_big, "a", "b", "v")(dict(a=sizes_a[w["na"]], b=sizes_b[w["nb"]], v=w["v"]))))
    return cases


def _ring(sub, kekule_shift, aromatic):
    """six-membered carbon ring with one substituent per ring atom (valences complete)"""
    import biotite.structure as struc
    n = 12
    a = struc.AtomArray(n)
    a.element[:] = ["C"] * 6 + [sub] * 6
    ang = np.arange(6) * np.pi / 3
    a.coord[:6] = np.stack([1.4 * np.cos(ang), 1.4 * np.sin(ang), np.zeros(6)], axis=1)
    a.coord[6:] = np.stack([3.1 * np.cos(ang), 3.1 * np.sin(ang), np.zeros(6)], axis=1)
    a.add_annotation("charge", int)
    B = struc.BondType
    bonds = []
    for i in range(6):
        dbl = (i + kekule_shift) % 2 == 0
        t = (B.AROMATIC_DOUBLE if dbl else B.AROMATIC_SINGLE) if aromatic else (B.DOUBLE if dbl else B.SINGLE)
        bonds.append([i, (i + 1) % 6, int(t)])
        bonds.append([i, i + 6, int(B.SINGLE)])
    a.bonds = struc.BondList(n, np.array(bonds, dtype=np.int64))
    return a


def _small(kind):
    import biotite.structure as struc
    B = struc.BondType
    spec = {"CO2": (["C", "O", "O"], [[0, 1, B.DOUBLE], [0, 2, B.DOUBLE]], [0, 0, 0]),
            "N2": (["N", "N"], [[0, 1, B.TRIPLE]], [0, 0]),
            "CCl4": (["C", "CL", "CL", "CL", "CL"], [[0, k, B.SINGLE] for k in range(1, 5)], [0] * 5),
            "Cl-": (["CL"], [], [-1]),
            "NO3-": (["N", "O", "O", "O"], [[0, 1, B.DOUBLE], [0, 2, B.SINGLE], [0, 3, B.SINGLE]], [1, 0, -1, -1]),
            "HCN": (["H", "C", "N"], [[0, 1, B.SINGLE], [1, 2, B.TRIPLE]], [0, 0, 0])}[kind]
    a = struc.AtomArray(len(spec[0]))
    a.element[:] = spec[0]
    a.coord[:] = [[1.2 * k, 0.3 * k * k, 0] for k in range(len(spec[0]))]
    a.set_annotation("charge", np.array(spec[2], dtype=int))
    a.bonds = struc.BondList(len(spec[0]), np.array([[i, j, int(t)] for i, j, t in spec[1]], dtype=np.int64).reshape(-1, 3))
    return a


RD_MOLS = [("ring", "H", 0, False), ("ring", "H", 1, False), ("ring", "H", 0, True), ("ring", "CL", 0, False), ("ring", "CL", 1, False),
           ("ring", "F", 0, False), ("ring", "CL", 0, True), ("small", "CO2"), ("small", "N2"), ("small", "CCl4"), ("small", "Cl-"),
           ("small", "NO3-"), ("small", "HCN")]


def check_rdkit_default(mi, nmodels):
    """complete molecules (every valence filled, with and without hydrogen atoms) through the bridge with DEFAULT options:
    nothing may be added, removed, reordered or retyped"""
    import warnings
    import biotite.structure as struc
    import biotite.interface.rdkit as rd
    m = RD_MOLS[mi]
    atoms = _ring(*m[1:]) if m[0] == "ring" else _small(m[1])
    src = struc.stack([atoms] * nmodels)
    for k in range(nmodels):
        src.coord[k] += 0.125 * k
    before = src.copy()
    with warnings.catch_warnings():
        warnings.simplefilter("ignore")
        mol = rd.to_mol(src)
        back = rd.from_mol(mol)
        # conversion with every option leaves the input molecule as it was; kekulize=True gives the same molecule with
        # its aromatic bonds written as single / double
        options = [dict(kekulize=True), dict(use_dative_bonds=True), dict(explicit_hydrogen=True)]
        if "H" not in atoms.element.tolist():
            options.append(dict(explicit_hydrogen=False))          # (legal for molecules without hydrogen atoms)
        for kw in options:
            mk = rd.to_mol(src, **kw)
            if mk.GetNumConformers() != nmodels or mk.GetNumAtoms() != atoms.array_length():
                return f"{m}: to_mol({kw}) gives {mk.GetNumConformers()} conformers of {mk.GetNumAtoms()} atoms for {nmodels} models of {atoms.array_length()} atoms"
            if src != before or src.bonds.as_set() != before.bonds.as_set():
                return f"{m}: to_mol({kw}) changed its input (bonds now {sorted(src.bonds.as_set())})"
            if kw == dict(kekulize=True):
                bk = rd.from_mol(mk)
                plain = before.bonds.copy()
                plain.remove_aromaticity()
                if bk.element.tolist() != atoms.element.tolist() or {(i, j) for i, j, _ in bk.bonds.as_set()} != {(i, j) for i, j, _ in plain.as_set()} \
                        or sorted(t for _, _, t in bk.bonds.as_set()) != sorted(t for _, _, t in plain.as_set()):
                    return f"{m}: to_mol(kekulize=True) -> from_mol gives bonds {sorted(bk.bonds.as_set())}"
    if mol.GetNumConformers() != nmodels or back.stack_depth() != nmodels:
        return f"{m}: {mol.GetNumConformers()} conformers, {back.stack_depth()} models for {nmodels} models"
    if back.element.tolist() != atoms.element.tolist() or back.charge.tolist() != atoms.charge.tolist():
        return f"{m}: elements / charges back {back.element.tolist()} {back.charge.tolist()}"
    if not np.allclose(back.coord, src.coord, atol=1e-4):
        return f"{m}: coordinates / model order"
    # RDKit has ONE aromatic bond type: which of the two Kekule assignments comes back for an aromatic ring is not
    # determined (both describe the same molecule), so aromatic single / double are compared as 'aromatic' plus their counts
    def norm(bs):
        return sorted((i, j, 5 if t in (5, 6) else t) for i, j, t in bs), sum(1 for _, _, t in bs if t == 6)
    if norm(back.bonds.as_set()) != norm(atoms.bonds.as_set()):
        return f"{m}: bonds written {sorted(atoms.bonds.as_set())} back {sorted(back.bonds.as_set())}"
    return None


def ob_rdkit(tier):
    n, bt, nm, c0 = z3.Ints("n bt nm c0")
    base = [n >= 1, n <= 3, bt >= 0, bt < 4, nm >= 1, nm <= 3, c0 >= 0, c0 <= 1]

    def run():
        ex = cur()
        return check_rdkit(ex.choose(n, range(1, 4)), ex.choose(bt, range(4)), ex.choose(nm, range(1, 4)), ex.choose(c0, range(2))) is None
    mi, nm2 = z3.Ints("mi nm2")

    def run_default():
        ex = cur()
        return check_rdkit_default(ex.choose(mi, range(len(RD_MOLS))), ex.choose(nm2, range(1, 3))) is None
    return [Case("RDKit to_mol/from_mol", base, run, dict(n=n, btype=bt, nmodels=nm, c0=c0), _rep(check_rdkit, "n", "btype", "nmodels", "c0")),
            Case("RDKit bridge with default options on complete molecules", [mi >= 0, mi < len(RD_MOLS), nm2 >= 1, nm2 <= 2], run_default,
                 dict(mi=mi, nmodels=nm2), _rep(check_rdkit_default, "mi", "nmodels"))]


# ------------------------------------------------------------------------------ key components
def check_key_parts(num, name, rint, rext):
    """every combination of the four key components incl. the falsy-but-present values 0 and ''"""
    from biotite.structure.io.mol import Metadata
    NUM = [None, 0, 1, 12]
    NAME = [None, "abc", "A1.b_c", "0"]
    RINT = [None, 0, 7, 123]
    REXT = [None, "", "E-1", "x.y_z"]
    kw = dict(number=NUM[num], name=NAME[name], registry_internal=RINT[rint], registry_external=REXT[rext])
    try:
        key = Metadata.Key(**kw)
    except ValueError:
        return None if kw["number"] is None and kw["name"] is None else f"Key({kw}) refused"
    text = key.serialize()
    try:
        back = Metadata.Key.deserialize(text)
    except Exception as e:
        return f"Key({kw}) serialises to {text!r}, which cannot be parsed: {type(e).__name__}: {e}"
    if back != key:
        return f"Key({kw}) serialises to {text!r} and reads back as {back!r}"
    md = Metadata({key: "value"})
    again = Metadata.deserialize(md.serialize())
    if list(again.keys()) != [key] or again[key] != "value":
        return f"metadata with Key({kw}) reads back as {dict(again)!r}"
    return None


def ob_key_parts(tier):
    a, b, c, d = z3.Ints("num name rint rext")

    def run():
        ex = cur()
        return check_key_parts(ex.choose(a, range(4)), ex.choose(b, range(4)), ex.choose(c, range(4)), ex.choose(d, range(4))) is None
    return [Case("metadata key components", [z3.And(v >= 0, v < 4) for v in (a, b, c, d)], run, dict(num=a, name=b, rint=c, rext=d),
                 _rep(check_key_parts, "num", "name", "rint", "rext"))]
