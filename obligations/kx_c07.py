"""C07 (KX engine): hybrid-36 encoding and decoding are mutually inverse (widths 4 and 5).

The functions of hybrid36.pyx are lowered from the current source text and executed over a
symbolic number (all values 0..max at once) resp. a symbolic string; integers are mathematical
z3 Ints that are converted to their declared C types on every store (int mode).
"""
import z3

from vf.kx.kernel import Kernel
from vf.kx.freshness import binary_state
from vf.kx.rt import CInt
from vf.sx.core import SInt, SStr, s_eq
from vf.sx.ob import Case

FUNCS = ["encode_hybrid36", "_encode_base36", "decode_hybrid36", "_decode_base36", "max_hybrid36_number"]
REL = "structure/io/pdb/hybrid36.pyx"
_k = {}


def kernel():
    if "k" not in _k:
        _k["k"] = Kernel(REL, FUNCS, mode="int")
    return _k["k"]


def state():
    k = kernel()
    return binary_state(k.path, [(m["lineno"], m["nlines"]) for m in k.meta.values()])


def real():
    from biotite.structure.io.pdb import hybrid36
    return hybrid36


def MAX(L):
    return 10 ** L - 1 + 2 * (26 * 36 ** (L - 1))        # documented maximum (written from the format definition)


ALPHA_U = "0123456789ABCDEFGHIJKLMNOPQRSTUVWXYZ"
ALPHA_L = "0123456789abcdefghijklmnopqrstuvwxyz"


def _outcome(f, *a):
    try:
        r = f(*a)
        return ("ret", str(r) if isinstance(r, str) else int(r))
    except Exception as e:
        return ("raise", type(e).__name__)


def validate():
    """translator validation: lowered functions in concrete mode vs. the compiled module (only meaningful
    while the binary corresponds to the source; otherwise the lowered text is the only executable semantics)"""
    k = kernel()
    st = state()
    if st != "fresh":
        return f"skipped: binary_state={st} (compiled module does not correspond to the current source)"
    n = 0
    enc, dec, mx = k["encode_hybrid36"], k["decode_hybrid36"], k["max_hybrid36_number"]
    R = real()
    for L in (1, 2, 4, 5):
        for v in [-1, 0, 1, 9, 10, 10 ** L - 1, 10 ** L, 10 ** L + 1, 10 ** L + 26 * 36 ** (L - 1) - 1,
                  10 ** L + 26 * 36 ** (L - 1), MAX(L) - 1, MAX(L), MAX(L) + 1]:
            a, b = _outcome(enc, v, L), _outcome(R.encode_hybrid36, v, L)
            if a != b:
                raise AssertionError(f"translator: lowered encode({v},{L}) -> {a}, compiled -> {b}")
            if a[0] == "ret":
                a2, b2 = _outcome(dec, a[1]), _outcome(R.decode_hybrid36, b[1])
                if a2 != b2:
                    raise AssertionError(f"translator: lowered decode({a[1]!r}) -> {a2}, compiled -> {b2}")
            n += 1
        if _outcome(mx, L) != _outcome(R.max_hybrid36_number, L):
            raise AssertionError("translator: max_hybrid36_number differs")
    for s in ["A000", "a000", "ZZZZ", "zzzz", " 12", "A0", "", "*", "A00*"]:
        if _outcome(dec, s) != _outcome(R.decode_hybrid36, s):
            raise AssertionError(f"translator: decode({s!r}) differs: {_outcome(dec, s)} vs {_outcome(R.decode_hybrid36, s)}")
        n += 1
    return f"{n} concrete vectors: lowered source and compiled module agree; binary_state={st}"


def replay_num(w):
    if state() != "fresh":
        k = kernel()
        enc, dec = k["encode_hybrid36"], k["decode_hybrid36"]
    else:
        enc, dec = real().encode_hybrid36, real().decode_hybrid36
    L, v = w["L"], w["num"]
    try:
        s = enc(v, L)
    except ValueError as e:
        return (not (0 <= v <= MAX(L))), f"encode raised {e}"
    except OverflowError as e:
        return (not (0 <= v <= MAX(L))), f"encode raised {e}"
    if not 0 <= v <= MAX(L):
        return False, f"encode({v},{L}) returned {s!r} instead of raising"
    ok = int(dec(s)) == v and (len(s) == L or v < 10 ** L) and all(c in ALPHA_U + ALPHA_L for c in s)
    return ok, f"encode({v},{L})={s!r}, decode -> {int(dec(s))}"


def replay_str(w):
    if state() != "fresh":
        k = kernel()
        enc, dec = k["encode_hybrid36"], k["decode_hybrid36"]
    else:
        enc, dec = real().encode_hybrid36, real().decode_hybrid36
    s = w["s"]
    try:
        v = int(dec(s))
        back = enc(v, len(s))
    except Exception as e:
        return False, f"{type(e).__name__}: {e}"
    return back == s, f"decode({s!r})={v}, encode -> {back!r}"


def ob_hybrid36(tier):
    k = kernel()
    enc, dec = k["encode_hybrid36"], k["decode_hybrid36"]
    cases = []
    for L in (4, 5):
        # (a) all numbers in range: decode(encode(n)) == n, width L beyond the decimal range, alphabet
        def run_a(L=L):
            k._activate()
            num = CInt(z3.Int("num"), k_int())
            s = enc(num, L)
            back = dec(s)
            be = back.as_int_term() if isinstance(back, CInt) else SInt.of(back)
            conds = [be == z3.Int("num")]
            if len(s) != L:
                conds.append(z3.Int("num") < 10 ** L)
            for c in SStr.codes(s):
                if not isinstance(c, int):
                    conds.append(z3.Or(z3.And(c >= 48, c <= 57), z3.And(c >= 65, c <= 90), z3.And(c >= 97, c <= 122)))
            return z3.And(*conds)
        cases.append(Case(f"roundtrip numbers L={L}", [z3.Int("num") >= 0, z3.Int("num") <= MAX(L)], run_a,
                          dict(num=z3.Int("num"), L=L), replay_num))

        # (b) numbers outside the range are refused
        def run_b(L=L):
            k._activate()
            num = CInt(z3.Int("num"), k_int())
            try:
                enc(num, L)
            except ValueError:
                return True
            return False
        cases.append(Case(f"rejects out of range L={L}",
                          [z3.Or(z3.And(z3.Int("num") > MAX(L), z3.Int("num") <= 2 ** 31 - 1),
                                 z3.And(z3.Int("num") < 0, z3.Int("num") >= -2 ** 31))], run_b,
                          dict(num=z3.Int("num"), L=L), replay_num))
        # (c) all strings of the hybrid-36 alphabet: encode(decode(s)) == s
        for alpha, lo in ((ALPHA_U, 65), (ALPHA_L, 97)):
            s, _, vs = SStr.fresh(f"s{L}{lo}", L)
            base = [z3.And(vs[0] >= lo, vs[0] <= lo + 25)]
            for v in vs[1:]:
                base.append(z3.Or(z3.And(v >= 48, v <= 57), z3.And(v >= lo, v <= lo + 25)))

            def run_c(s=s, L=L):
                k._activate()
                v = dec(s)
                back = enc(v, L)
                return s_eq(back, s)
            cases.append(Case(f"roundtrip strings L={L} {'upper' if lo == 65 else 'lower'}", base, run_c, dict(s=s), replay_str))
    return cases, dict(validation=validate(), functions_hash=",".join(m["sha1"] for m in k.meta.values()), functions=k.functions_info())


def k_int():
    from vf.kx import rt
    return rt.TYPES["int"]
