from vf.sx.ob import SX

S = "src/biotite/sequence/"
OBLIGATIONS = [
    SX("kx_codec", "kx_c03", "ob_codec", cls="S", engine="KX", quick=200, thorough=900, parts={"quick": 4, "thorough": 8},
       functions=[S + "codec.pyx:encode_chars", S + "codec.pyx:decode_to_chars", S + "codec.pyx:map_sequence_code"],
       stubs=["C integers as bit-vectors; `cdef uint8 sym_to_code[256]` as a z3 array; np.empty -> symnp",
              "fused instantiations uint8->uint8 and uint8->uint16 of map_sequence_code"],
       bounds="alphabets of 1..3 (thorough 1..4) symbolic distinct bytes, 1..2 (1..3) symbolic symbols / codes over all 256 byte values: decode(encode(s)) == s, symbols outside the alphabet and codes >= |A| raise AlphabetError, mapping[code] exact, out-of-range code raises"),
    SX("sx_alphabets", "sx_c03", "ob_alphabets", cls="E", quick=200, parts=3,
       functions=[S + "alphabet.py:Alphabet/LetterAlphabet/AlphabetMapper/common_alphabet", S + "align/kmeralphabet.pyx:KmerAlphabet (compiled)"],
       bounds="14 alphabets (generic hashable symbols, 300-symbol, letter alphabets up to all 94 printables, k-mer alphabets 16 and 1024 symbols), all ordered pairs for mappers / extends / common_alphabet"),
    SX("sx_sequences", "sx_c03", "ob_sequences", cls="E", quick=300, thorough=900, parts={"quick": 6, "thorough": 12},
       functions=[S + "sequence.py:Sequence", S + "seqtypes.py:NucleotideSequence/ProteinSequence.complement etc."],
       bounds="nucleotide (unambiguous, ambiguous incl. every IUPAC symbol) and protein sequences of length 0..3 (thorough 0..4), every code combination; str/index/slice/assign/concat/reverse/eq/copy vs Python strings; complement vs the IUPAC pairing table"),
    SX("sx_translate", "sx_c03", "ob_translate", cls="E", quick=300, thorough=1200, parts={"quick": 5, "thorough": 10},
       functions=[S + "seqtypes.py:NucleotideSequence.translate", S + "codon.py:CodonTable"],
       bounds="all 64 codons vs NCBI table 1; sequences start codon + 4 (thorough 7) symbolic bases: ORFs vs the definition (in-frame start to first stop or frame end), complete translation, met_start, default table and 2 derived tables, parent table unchanged after deriving"),
    SX("kx_kmers", "kx_c03_kmer", "ob_kmers", cls="S", engine="KX", quick=200, thorough=900, parts={"quick": 4, "thorough": 8},
       functions=[S + "align/kmeralphabet.pyx:KmerAlphabet._create_continuous_kmers", S + "align/kmeralphabet.pyx:KmerAlphabet._create_spaced_kmers",
                  S + "align/kmeralphabet.pyx:KmerAlphabet._split", S + "align/kmeralphabet.pyx:KmerAlphabet.kmer_array_length"],
       stubs=["C integers as mathematical ints converted to the declared type on every store", "self -> object with _k, _radix_multiplier, _spacing, _base_alph"],
       bounds="|A| in {2,4,5} (thorough + 20), k in {2,3} (+4), contiguous and 3 spaced models, sequence length span..span+2 (+3), every code symbolic in 0..|A|+1: k-mer code = sum code*|A|^(k-1-j) (rolling update included), split(kmers) = window codes, any used code >= |A| raises"),
    SX("sx_fuse", "sx_c03", "ob_fuse", cls="E", quick=100, parts=3,
       functions=[S + "align/kmeralphabet.pyx:KmerAlphabet.fuse/split (compiled)"],
       bounds="|A|,k in {(4,2),(2,3),(5,2)}, every code tuple over 0..|A|+1"),
]
EXPLANATION = "C03: symbol encoding bijection and string-like behaviour of sequences."
ASSUMPTIONS = []
