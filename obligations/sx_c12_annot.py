"""C12 (E-class): annotations through the GenBank feature table and through GFF3 - feature keys (up to the full
15-character key column), one or several locations with mixed strands and every defect the format can express,
qualifiers with spaces, slashes, '=', several values and no value; annotated sequences with a sequence start."""
import io

import z3

from vf.sx.core import cur
from vf.sx.ob import Case

KEYS = ["CDS", "gene", "misc_difference", "prim_transcript", "a", "regulatory"]
QUALS = [{}, {"gene": "abc"}, {"note": "a b/c=d"}, {"pseudo": None}, {"note": "first\nsecond", "gene": "x y"}, {"pseudo": None, "product": "p/q = r"},
         {"note": ""}, {"note": "0123456789 " * 9 + "end"}, {"gene": "a", "note": "x\n"}]


def locsets():
    from biotite.sequence import Location
    F, R = Location.Strand.FORWARD, Location.Strand.REVERSE
    D = Location.Defect
    return [
        [Location(1, 9, F)],
        [Location(3, 3, R)],
        [Location(2, 5, F), Location(8, 12, F)],
        [Location(2, 5, R), Location(8, 12, R)],
        [Location(2, 5, F), Location(8, 12, R)],                    # mixed strands (trans-spliced)
        [Location(8, 12, R), Location(2, 5, F), Location(15, 15, R)],
        [Location(1, 4, F, D.BEYOND_LEFT), Location(7, 9, F, D.BEYOND_RIGHT)],
        [Location(5, 6, F, D.BETWEEN)],
        [Location(1, 20, R, D.BEYOND_LEFT | D.BEYOND_RIGHT)],
        [Location(4, 8, F, D.UNK_LOC)],
    ]


def _rep(f, *keys):
    def g(w):
        try:
            r = f(*[w[k] for k in keys])
            return r is None, str(r)
        except Exception as e:
            import traceback
            return False, f"{type(e).__name__}: {e} | {traceback.format_exc()[-400:]}"
    return g


def check_genbank(k1, l1, q1, k2, l2, q2, start):
    from biotite.sequence import Annotation, Feature, AnnotatedSequence, NucleotideSequence
    from biotite.sequence.io import genbank as gb
    L = locsets()
    feats = [Feature(KEYS[k1], L[l1], dict(QUALS[q1]))]
    if k2 >= 0:
        feats.append(Feature(KEYS[k2], L[l2], dict(QUALS[q2])))
    annot = Annotation(feats)
    f = gb.GenBankFile()
    gb.set_annotation(f, annot)
    out = io.StringIO()
    f.write(out)
    for label, src in (("in memory", f), ("re-read", gb.GenBankFile.read(io.StringIO(out.getvalue())))):
        back = gb.get_annotation(src)
        if back != annot:
            return f"GenBank annotation ({label}): wrote {sorted(map(repr, annot))}, read {sorted(map(repr, back))}"
        only = gb.get_annotation(src, include_only=[KEYS[k1]])
        want = Annotation([x for x in feats if x.key == KEYS[k1]])
        if only != want:
            return f"GenBank include_only=[{KEYS[k1]!r}] ({label}): {sorted(map(repr, only))}"
    # annotated sequence with a sequence start
    seq = NucleotideSequence("ACGTACGTACGTACGTACGTACGT")
    if start != 1:
        from biotite.sequence import Location
        shifted = Annotation([Feature(x.key, [Location(l.first + start - 1, l.last + start - 1, l.strand, l.defect) for l in x.locs], x.qual) for x in feats])
    else:
        shifted = annot
    aseq = AnnotatedSequence(shifted, seq, sequence_start=start)
    f2 = gb.GenBankFile()
    gb.set_locus(f2, "X", len(seq), "DNA")
    gb.set_annotated_sequence(f2, aseq)
    out = io.StringIO()
    f2.write(out)
    back = gb.get_annotated_sequence(gb.GenBankFile.read(io.StringIO(out.getvalue())))
    if back.sequence != seq or back.sequence_start != start or back.annotation != shifted:
        return f"annotated sequence (start {start}): sequence_start {back.sequence_start}, annotation {sorted(map(repr, back.annotation))}"
    # the same through GenPept with a protein (stop symbols and ambiguity letters are symbols of the sequence) and through
    # GenBank with ambiguity letters
    from biotite.sequence import ProteinSequence
    for fmt, sq, mol in (("gp", ProteinSequence("MKT*LVAGXBZ*AWYCH*KLMN"), "AA"), ("gb", NucleotideSequence("ACGTNNRYKMSWBDHVACGTACGT"), "DNA")):
        aseq = AnnotatedSequence(shifted, sq, sequence_start=start)
        f3 = gb.GenBankFile()
        gb.set_locus(f3, "X", len(sq), mol)
        gb.set_annotated_sequence(f3, aseq)
        out = io.StringIO()
        f3.write(out)
        g3 = gb.GenBankFile.read(io.StringIO(out.getvalue()))
        back = gb.get_annotated_sequence(g3, format=fmt)
        if str(back.sequence) != str(sq) or type(back.sequence) is not type(sq) or back.sequence_start != start or back.annotation != shifted:
            return f"annotated sequence ({fmt}, start {start}): wrote {str(sq)}, read {str(back.sequence)} at {back.sequence_start}"
        if str(gb.get_sequence(g3, format=fmt)) != str(sq):
            return f"get_sequence ({fmt}): wrote {str(sq)}, read {str(gb.get_sequence(g3, format=fmt))}"
    return None


def check_gff(k1, l1, q1, k2, l2, q2, stranded):
    from biotite.sequence import Annotation, Feature, Location
    from biotite.sequence.io import gff
    L = locsets()
    feats = []
    for n, (k, l, q) in enumerate(((k1, l1, q1), (k2, l2, q2))):
        if k < 0:
            continue
        qual = {kk: vv for kk, vv in QUALS[q].items() if vv is not None and "\n" not in vv}
        locs = [Location(x.first, x.last, x.strand) for x in L[l]]          # GFF3 has no defects
        if len(locs) > 1:
            qual["ID"] = f"f{n}"
        feats.append(Feature(KEYS[k], locs, qual))
    annot = Annotation(feats)
    f = gff.GFFFile()
    gff.set_annotation(f, annot, seqid="chr 1".replace(" ", "_"), source="src", is_stranded=bool(stranded))
    out = io.StringIO()
    f.write(out)
    for label, src in (("in memory", f), ("re-read", gff.GFFFile.read(io.StringIO(out.getvalue())))):
        back = gff.get_annotation(src)
        if stranded:
            if back != annot:
                return f"GFF annotation ({label}): wrote {sorted(map(repr, annot))}, read {sorted(map(repr, back))}"
        else:
            # without strands the strand column is '.', read back as "no strand": keys, positions and qualifiers stay
            sig = lambda a: sorted((x.key, sorted((l.first, l.last) for l in x.locs), sorted(x.qual.items())) for x in a)
            if sig(back) != sig(annot):
                return f"GFF annotation ({label}, unstranded): wrote {sig(annot)}, read {sig(back)}"
    return None


def ob_annotation_io(tier):
    cases = []
    nl = len(locsets())
    nq = len(QUALS) if tier == "thorough" else 7
    nk = len(KEYS) if tier == "thorough" else 5
    k1, l1, q1, k2, l2, q2, s = z3.Ints("k1 l1 q1 k2 l2 q2 s")
    L2 = (0, 4) if tier == "quick" else (0, 4, 5, 6)
    base = [k1 >= 0, k1 < nk, l1 >= 0, l1 < nl, q1 >= 0, q1 < nq, k2 >= -1, k2 < 3, k2 != 1, z3.Or(*[l2 == v for v in L2]), q2 >= 0, q2 < 2,
            z3.Implies(k2 == -1, z3.And(l2 == 0, q2 == 0))]

    def run_gb():
        ex = cur()
        c = ex.choose
        return check_genbank(c(k1, range(nk)), c(l1, range(nl)), c(q1, range(nq)), c(k2, (-1, 0, 2)), c(l2, L2), c(q2, range(2)), c(s, (1, 7))) is None

    def run_gff():
        ex = cur()
        c = ex.choose
        return check_gff(c(k1, range(nk)), c(l1, range(nl)), c(q1, range(nq)), c(k2, (-1, 0, 2)), c(l2, L2), c(q2, range(2)), c(s, (0, 1))) is None
    wit = dict(k1=k1, l1=l1, q1=q1, k2=k2, l2=l2, q2=q2)
    for lv in range(nl):
        cases.append(Case(f"GenBank feature table [l1={lv}]", base + [z3.Or(s == 1, s == 7), l1 == lv], run_gb, dict(wit, start=s),
                          _rep(check_genbank, "k1", "l1", "q1", "k2", "l2", "q2", "start")))
        cases.append(Case(f"GFF3 annotation [l1={lv}]", base + [s >= 0, s <= 1, l1 == lv], run_gff, dict(wit, stranded=s),
                          _rep(check_gff, "k1", "l1", "q1", "k2", "l2", "q2", "stranded")))
    return cases


# ------------------------------------------------------------------------------------- FASTQ on the real helpers
def check_fastq_real(oi, lo_i, n, cpl_i):
    """the numpy score <-> character helpers (stubbed in the symbolic FASTQ obligation) on the whole representable range:
    characters '!'..'~' i.e. scores 33-offset .. 126-offset, negative scores included (Solexa)"""
    import numpy as np
    from biotite.sequence.io.fastq import FastqFile
    offset = [33, 64, "Sanger", "Solexa", "Illumina-1.8"][oi]
    off = {"Sanger": 33, "Solexa": 64, "Illumina-1.8": 33}.get(offset, offset)
    lo, hi = 33 - off, 126 - off
    start = [lo, lo + 1, -5 if lo <= -5 else lo, 0, hi - n + 1][lo_i]
    scores = np.arange(start, start + n)
    scores = scores[(scores >= lo) & (scores <= hi)]
    if len(scores) == 0:
        return None
    seq = ("ACGT" * 40)[:len(scores)]
    cpl = [None, 1, 3, 80][cpl_i]
    f = FastqFile(offset, chars_per_line=cpl)
    f["r1 x"] = (seq, scores)
    f["r2"] = (seq[::-1], scores[::-1])
    out = io.StringIO()
    f.write(out)
    for label, src in (("in memory", f), ("re-read", FastqFile.read(io.StringIO(out.getvalue()), offset))):
        for name, s_, q_ in (("r1 x", seq, scores), ("r2", seq[::-1], scores[::-1])):
            gs, gq = src[name]
            if str(gs) != s_ or [int(x) for x in gq] != [int(x) for x in q_]:
                return f"FASTQ ({label}, offset {offset}, chars_per_line {cpl}): entry {name!r} scores {[int(x) for x in gq]}, written {[int(x) for x in q_]}"
    it = [(h, str(s_), [int(x) for x in q_]) for h, (s_, q_) in FastqFile.read_iter(io.StringIO(out.getvalue()), offset)]
    if it != [("r1 x", seq, [int(x) for x in scores]), ("r2", seq[::-1], [int(x) for x in scores[::-1]])]:
        return f"FastqFile.read_iter (offset {offset}): {it}"
    out2 = io.StringIO()
    FastqFile.write_iter(out2, [("r1 x", (seq, scores)), ("r2", (seq[::-1], scores[::-1]))], offset, chars_per_line=cpl)
    if out2.getvalue() != out.getvalue():
        return "write_iter and FastqFile.write produce different text"
    return None


def ob_fastq_real(tier):
    o, l, n, c = z3.Ints("o l n c")

    def run():
        ex = cur()
        return check_fastq_real(ex.choose(o, range(5)), ex.choose(l, range(5)), ex.choose(n, (1, 2, 5, 94)), ex.choose(c, range(4))) is None
    return [Case("FASTQ score characters over the whole representable range", [o >= 0, o < 5, l >= 0, l < 5, z3.Or(n == 1, n == 2, n == 5, n == 94), c >= 0, c < 4],
                 run, dict(oi=o, lo_i=l, n=n, cpl_i=c), _rep(check_fastq_real, "oi", "lo_i", "n", "cpl_i"))]


# ============================================================== GFF3 file as a list of entries (class E)
def _gff_entries():
    from biotite.sequence import Location
    F, R = Location.Strand.FORWARD, Location.Strand.REVERSE
    return [("chr1", "src", "gene", 1, 9, None, F, None, {"ID": "g1"}),
            ("chr 2", "a;b", "CDS", 5, 5, 0.5, R, 2, {"ID": "c1", "Note": "x y,z=1"}),
            ("c%3", ".", "exon", 100000, 100001, 12.0, None, 0, {}),
            ("chr1", "src", "gene", 1, 9, 0.0, F, 0, {"ID": "g1"})]          # (the first entry with score 0.0 and phase 0 instead of none)


def gfffile_seq(ops):
    """ops: list of (kind, index, entry no); the file is compared with a list of lines (entries and directives) after every
    step, directly and after writing and re-reading the text"""
    import io
    from biotite.sequence.io.gff import GFFFile
    E = _gff_entries()
    f = GFFFile()
    model = [("D", "gff-version 3")]
    for no in (0, 1):
        f.append(*E[no])
        model.append(("E", E[no]))

    def agree(g):
        ents = [m[1] for m in model if m[0] == "E"]
        if len(g) != len(ents):
            return f"len {len(g)} vs {len(ents)}"
        for i, e in enumerate(ents):
            for j in (i, i - len(ents)):
                got = g[j]
                if tuple(got[:8]) != tuple(e[:8]) or dict(got[8]) != e[8]:
                    return f"entry {j}: {got} vs {e}"
        for bad in (len(ents), -len(ents) - 1):
            try:
                g[bad]
                return f"entry index {bad} answered"
            except IndexError:
                pass
        want_dir = [(m[1], k) for k, m in enumerate(model) if m[0] == "D"]
        if [(t, k) for t, k in g.directives()] != want_dir:
            return f"directives {g.directives()} vs {want_dir}"
        return None
    r = agree(f)
    if r:
        return r
    for step, (kind, idx, no) in enumerate(ops):
        pos = [k for k, m in enumerate(model) if m[0] == "E"]
        n = len(pos)
        e = E[no]
        try:
            if kind == 0:          # replace
                valid = -n <= idx < n
                f[idx] = e
                if valid:
                    model[pos[idx]] = ("E", e)
            elif kind == 1:        # insert (documented: index == length appends)
                valid = -n <= idx <= n
                f.insert(idx, *e)
                if valid:
                    if idx == n:
                        model.append(("E", e))
                    else:
                        model.insert(pos[idx], ("E", e))
            elif kind == 2:        # delete
                valid = -n <= idx < n
                del f[idx]
                if valid:
                    del model[pos[idx]]
            elif kind == 3:        # append
                valid = True
                f.append(*e)
                model.append(("E", e))
            else:                  # directive
                valid = True
                f.append_directive(f"note{step}", "p1", str(no))
                model.append(("D", f"note{step} p1 {no}"))
            raised = False
        except IndexError:
            raised = True
        if raised == valid:
            return f"step {step} {(kind, idx, no)}: {'refused' if raised else 'accepted'} with {n} entries"
        r = agree(f)
        if r:
            return f"after step {step} {(kind, idx, no)}: {r}"
        out = io.StringIO()
        f.write(out)
        r = agree(GFFFile.read(io.StringIO(out.getvalue())))
        if r:
            return f"after step {step} {(kind, idx, no)}, text re-read: {r}"
    return None


def ob_gfffile(tier):
    import z3
    from vf.sx.core import cur
    from vf.sx.ob import Case
    k = 2 if tier == "quick" else 3
    IDX = range(-4, 5) if tier == "quick" else range(-3, 4)
    cases = []
    for first in range(5):
        ks = [z3.Int(f"k{i}") for i in range(k)]
        ix = [z3.Int(f"i{i}") for i in range(k)]
        no = [z3.Int(f"n{i}") for i in range(k)]
        base = [ks[0] == first]
        for a, b, c in zip(ks, ix, no):
            base += [a >= 0, a <= 4, b >= IDX[0], b <= IDX[-1], c >= 0, c < (4 if tier == "quick" else 2), z3.Implies(a >= 3, b == 0)]

        def run(ks=ks, ix=ix, no=no):
            ex = cur()
            ops = [(ex.choose(a, range(5)), ex.choose(b, IDX), ex.choose(c, range(4 if tier == "quick" else 2))) for a, b, c in zip(ks, ix, no)]
            return gfffile_seq(ops) is None

        def rep(w):
            try:
                r = gfffile_seq([tuple(o) for o in w["ops"]])
                return r is None, str(r)
            except Exception as ex_:
                import traceback
                return False, f"{type(ex_).__name__}: {ex_} | {traceback.format_exc()[-300:]}"
        cases.append(Case(f"gff file first={first} k={k}", base, run, dict(ops=[[a, b, c] for a, b, c in zip(ks, ix, no)]), rep))
    return cases
