"""C03 (KX engine): codec.pyx kernels over symbolic bytes (bit-vectors)."""
import z3

from vf.kx.kernel import Kernel, SymArray
from vf.kx.freshness import binary_state
from vf.kx import rt
from vf.kx.rt import CInt, View, MemorySafety, sym_view
from vf.sx.ob import Case

REL = "sequence/codec.pyx"
_k = {}


def kernel(fused=None):
    key = tuple(sorted((fused or {}).items()))
    if key not in _k:
        from biotite.sequence.alphabet import AlphabetError
        _k[key] = Kernel(REL, ["encode_chars", "decode_to_chars", "map_sequence_code"], mode="bv", fused=fused,
                         package="sequence")
    return _k[key]


def state():
    k = kernel()
    return binary_state(k.path, [(m["lineno"], m["nlines"]) for m in k.meta.values()])


def AE():
    from biotite.sequence.alphabet import AlphabetError
    return AlphabetError


def _u8s(view):
    return [x for x in view.data]


def real_codec(w):
    import numpy as np
    from biotite.sequence import codec
    if state() != "fresh":
        return source_codec(w)
    alph = np.array(w.get("alphabet", [0]), dtype=np.ubyte)
    if w["op"] == "encode":
        syms = np.array(w["symbols"], dtype=np.ubyte)
        legal = all(s in w["alphabet"] for s in w["symbols"])
        try:
            code = codec.encode_chars(alphabet=alph, symbols=syms)
        except AE():
            return (not legal), "AlphabetError"
        if not legal:
            return False, f"illegal symbol accepted: code {code.tolist()}"
        back = codec.decode_to_chars(alphabet=alph, code=code)
        return back.tolist() == w["symbols"] and all(alph[c] == s for c, s in zip(code.tolist(), w["symbols"])), f"code {code.tolist()} decoded {back.tolist()}"
    if w["op"] == "decode":
        code = np.array(w["code"], dtype=np.uint8)
        legal = all(c < len(w["alphabet"]) for c in w["code"])
        try:
            syms = codec.decode_to_chars(alphabet=alph, code=code)
        except AE():
            return (not legal), "AlphabetError"
        if not legal:
            return False, f"illegal code accepted: {syms.tolist()}"
        return syms.tolist() == [w["alphabet"][c] for c in w["code"]], f"{syms.tolist()}"
    if w["op"] == "map":
        dt = {8: np.uint8, 16: np.uint16}[w["bits"]]
        mapping = np.array(w["mapping"], dtype=dt)
        inc = np.array(w["in_code"], dtype=np.uint8)
        out = np.zeros(len(inc), dtype=dt)
        legal = all(c < len(w["mapping"]) for c in w["in_code"])
        try:
            codec.map_sequence_code(mapping, inc, out)
        except IndexError:
            return (not legal), "IndexError"
        if not legal:
            return False, f"out-of-range code mapped silently: {out.tolist()}"
        return out.tolist() == [w["mapping"][c] for c in w["in_code"]], f"{out.tolist()}"


def source_codec(w):
    k = kernel({"CodeType1": "uint8", "CodeType2": "uint%d" % w.get("bits", 8)})
    k._activate()
    from vf.kx.rt import const_view
    alph = const_view(w["alphabet"], "unsigned char") if "alphabet" in w else None
    try:
        if w["op"] == "encode":
            legal = all(s in w["alphabet"] for s in w["symbols"])
            try:
                code = k["encode_chars"](alph, const_view(w["symbols"], "unsigned char"))
            except AE():
                return (not legal), "[source-level] AlphabetError"
            got = [int(x) for x in code.data]
            return legal and [w["alphabet"][c] for c in got] == w["symbols"], f"[source-level] code {got}"
        if w["op"] == "decode":
            legal = all(c < len(w["alphabet"]) for c in w["code"])
            try:
                syms = k["decode_to_chars"](alph, const_view(w["code"], "uint8"))
            except AE():
                return (not legal), "[source-level] AlphabetError"
            got = [int(x) for x in syms.data]
            return legal and got == [w["alphabet"][c] for c in w["code"]], f"[source-level] {got}"
        if w["op"] == "map":
            legal = all(c < len(w["mapping"]) for c in w["in_code"])
            out = const_view([0] * len(w["in_code"]), "uint%d" % w["bits"])
            try:
                k["map_sequence_code"](const_view(w["mapping"], "uint%d" % w["bits"]), const_view(w["in_code"], "uint8"), out)
            except (IndexError, MemorySafety):
                return (not legal), "[source-level] IndexError"
            got = [int(x) for x in out.data]
            return legal and got == [w["mapping"][c] for c in w["in_code"]], f"[source-level] {got}"
    except Exception as e:
        return False, f"[source-level] {type(e).__name__}: {e}"


def validate():
    st = state()
    if st != "fresh":
        return f"skipped: binary_state={st}"
    n = 0
    for w in [dict(op="encode", alphabet=[65, 67, 71, 84], symbols=[71, 65, 84]), dict(op="encode", alphabet=[65, 67], symbols=[66]),
              dict(op="decode", alphabet=[65, 67, 71], code=[2, 0, 1]), dict(op="decode", alphabet=[65, 67, 71], code=[3]),
              dict(op="map", bits=16, mapping=[300, 5, 7], in_code=[2, 0]), dict(op="map", bits=8, mapping=[3, 5], in_code=[2])]:
        a = source_codec(w)
        st_bak = state
        b = real_codec(w)
        if a[0] != b[0]:
            raise AssertionError(f"translator: {w}: lowered {a} vs compiled {b}")
        n += 1
    return f"{n} concrete vectors: lowered source and compiled module agree; binary_state={st}"


def ob_codec(tier):
    cases = []
    maxk = 3 if tier == "quick" else 5
    maxn = 2 if tier == "quick" else 3
    k = kernel({"CodeType1": "uint8", "CodeType2": "uint8"})
    k16 = kernel({"CodeType1": "uint8", "CodeType2": "uint16"})
    for ka in range(1, maxk + 1):
        for n in range(1, maxn + 1):
            def run_enc(ka=ka, n=n):
                k._activate()
                alph, av, _ = sym_view("al", (ka,), "unsigned char")
                syms, sv, _ = sym_view("sy", (n,), "unsigned char")
                legal = z3.And(*[z3.Or(*[s.e == a.e for a in av]) for s in sv])
                try:
                    code = k["encode_chars"](alph, syms)
                except AE():
                    return z3.Not(legal)
                except MemorySafety:
                    return False
                conds = [legal]
                # decode(encode(s)) == s  through the real decoder
                try:
                    back = k["decode_to_chars"](alph, View(code.data, rt.TYPES["uint8"]))
                except (AE(), MemorySafety):
                    return False
                for b, s in zip(back.data, sv):
                    conds.append(_e(b) == s.e)
                return z3.And(*conds)
            al = [z3.BitVec(f"al_{i}", 8) for i in range(ka)]
            base = [z3.Distinct(*al)] if ka > 1 else []
            cases.append(Case(f"encode+decode |A|={ka} n={n}", base, run_enc,
                              dict(op="encode", alphabet=[z3.BV2Int(a) for a in al], symbols=[z3.BV2Int(z3.BitVec(f"sy_{i}", 8)) for i in range(n)]),
                              real_codec))

            def run_dec(ka=ka, n=n):
                k._activate()
                alph, av, _ = sym_view("al", (ka,), "unsigned char")
                code, cv, _ = sym_view("co", (n,), "uint8")
                legal = z3.And(*[z3.ULT(c.e, ka) for c in cv])
                try:
                    syms = k["decode_to_chars"](alph, code)
                except AE():
                    return z3.Not(legal)
                except MemorySafety:
                    return False
                conds = [legal]
                for s, c in zip(syms.data, cv):
                    exp = av[-1].e
                    for j in range(ka - 2, -1, -1):
                        exp = z3.If(c.e == j, av[j].e, exp)
                    conds.append(_e(s) == exp)
                return z3.And(*conds)
            cases.append(Case(f"decode |A|={ka} n={n}", [], run_dec,
                              dict(op="decode", alphabet=[z3.BV2Int(z3.BitVec(f"al_{i}", 8)) for i in range(ka)],
                                   code=[z3.BV2Int(z3.BitVec(f"co_{i}", 8)) for i in range(n)]), real_codec))
    for bits, kk in ((8, k), (16, k16)):
        for m in (1, 3):
            for n in (1, 2):
                def run_map(bits=bits, kk=kk, m=m, n=n):
                    kk._activate()
                    mapping, mv, _ = sym_view("mp", (m,), f"uint{bits}")
                    inc, iv, _ = sym_view("ic", (n,), "uint8")
                    out = rt.const_view([0] * n, f"uint{bits}")
                    legal = z3.And(*[z3.ULT(c.e, m) for c in iv])
                    try:
                        kk["map_sequence_code"](mapping, inc, out)
                    except IndexError:
                        return z3.Not(legal)
                    except MemorySafety:
                        return False
                    conds = [legal]
                    for o, c in zip(out.data, iv):
                        exp = mv[-1].e
                        for j in range(m - 2, -1, -1):
                            exp = z3.If(c.e == j, mv[j].e, exp)
                        conds.append(_e(o) == exp)
                    return z3.And(*conds)
                cases.append(Case(f"map uint8->uint{bits} |map|={m} n={n}", [], run_map,
                                  dict(op="map", bits=bits, mapping=[z3.BV2Int(z3.BitVec(f"mp_{i}", bits)) for i in range(m)],
                                       in_code=[z3.BV2Int(z3.BitVec(f"ic_{i}", 8)) for i in range(n)]), real_codec))
    return cases, dict(validation=validate(), functions=k.functions_info(),
                       functions_hash=",".join(m["sha1"] for m in k.meta.values()))


def _e(x):
    return x.e if not isinstance(x.e, int) else z3.BitVecVal(x.e, x.t.width)
