"""C13 harnesses: Annotation / AnnotatedSequence slicing against a per-base model.

Everything under check is pure Python over ints (annotation.py); positions stay symbolic
(+-2**40).  Defect flags are built from booleans over a table created at import time
(enum.Flag(symbolic) is nondeterministic under CrossHair).
"""
from typing import Optional
from hlib import *  # noqa
from biotite.sequence.annotation import Annotation, Feature, Location, AnnotatedSequence
from biotite.sequence.seqtypes import NucleotideSequence

D = Location.Defect
_ALL = [D(i) for i in range(64)]          # pre-warm the pseudo-member cache
FWD, REV = Location.Strand.FORWARD, Location.Strand.REVERSE
B = 2 ** 40


def mkdefect(ml=False, mr=False, bl=False, br=False, unk=False, btw=False):
    d = D.NONE
    if ml:
        d = d | D.MISS_LEFT
    if mr:
        d = d | D.MISS_RIGHT
    if bl:
        d = d | D.BEYOND_LEFT
    if br:
        d = d | D.BEYOND_RIGHT
    if unk:
        d = d | D.UNK_LOC
    if btw:
        d = d | D.BETWEEN
    return d


def model_loc(first, last, strand, defect, lo, hi):
    """Per-base model of cutting one location to the closed range [lo, hi] (None = open)."""
    nf, nl, nd = first, last, defect
    if lo is not None and first < lo:
        nf = lo
        nd = nd | D.MISS_LEFT
    if hi is not None and last > hi:
        nl = hi
        nd = nd | D.MISS_RIGHT
    if nf > nl:
        return None
    return (nf, nl, strand, nd)


def _slice(a, b, has_a, has_b):
    return slice(a if has_a else None, b if has_b else None)


def ob_annot_slice_1loc(first: int, last: int, a: int, b: int, has_a: bool, has_b: bool,
                        rev: bool, ml: bool, mr: bool, br: bool) -> bool:
    """
    pre: -B <= first <= last <= B
    pre: -B <= a < b <= B
    post: _
    """
    strand = REV if rev else FWD
    defect = mkdefect(ml, mr, False, br)
    feat = Feature("CDS", [Location(first, last, strand, defect)], {"gene": "x"})
    sub = Annotation([feat])[_slice(a, b, has_a, has_b)]
    exp = model_loc(first, last, strand, defect, a if has_a else None, (b - 1) if has_b else None)
    feats = list(sub)
    if exp is None:
        return len(feats) == 0
    if len(feats) != 1:
        return False
    f = feats[0]
    locs = list(f.locs)
    if f.key != "CDS" or f.qual != {"gene": "x"} or len(locs) != 1:
        return False
    l = locs[0]
    return (l.first, l.last, l.strand, l.defect) == exp


def ob_annot_slice_probe(first: int, last: int, a: int, b: int, has_a: bool, has_b: bool, p: int) -> bool:
    """
    Any slice (empty and inverted ones included): base p is covered by the result iff it is
    covered by the original location and lies inside the slice.
    pre: -B <= first <= last <= B
    pre: -B <= a <= B and -B <= b <= B and -B <= p <= B
    post: _
    """
    feat = Feature("gene", [Location(first, last)])
    sub = Annotation([feat])[_slice(a, b, has_a, has_b)]
    covered = False
    for f in sub:
        for l in f.locs:
            if l.first <= p <= l.last:
                covered = True
    inside = (not has_a or p >= a) and (not has_b or p < b)
    return covered == (first <= p <= last and inside)


def ob_annot_slice_2loc(f1: int, l1: int, f2: int, l2: int, a: int, b: int, rev2: bool) -> bool:
    """
    Two locations in one feature: each is cut independently, the feature survives iff one does.
    pre: -B <= f1 <= l1 < f2 <= l2 <= B
    pre: -B <= a < b <= B
    post: _
    """
    s2 = REV if rev2 else FWD
    feat = Feature("CDS", [Location(f1, l1, FWD, D.NONE), Location(f2, l2, s2, D.NONE)])
    sub = Annotation([feat])[a:b]
    exp = [m for m in (model_loc(f1, l1, FWD, D.NONE, a, b - 1), model_loc(f2, l2, s2, D.NONE, a, b - 1)) if m]
    feats = list(sub)
    if not exp:
        return len(feats) == 0
    if len(feats) != 1:
        return False
    got = sorted(((l.first, l.last, l.strand is REV, l.defect.value) for l in feats[0].locs))
    want = sorted(((m[0], m[1], m[2] is REV, m[3].value) for m in exp))
    return got == want


def ob_annot_slice_2feat(f1: int, l1: int, f2: int, l2: int, a: int, b: int) -> bool:
    """
    Two features: features are filtered independently and keep key and qualifiers.
    pre: -B <= f1 <= l1 <= B and -B <= f2 <= l2 <= B
    pre: -B <= a < b <= B
    post: _
    """
    fa = Feature("A", [Location(f1, l1)], {"k": "1"})
    fb = Feature("B", [Location(f2, l2)], {"k": "2"})
    sub = Annotation([fa, fb])[a:b]
    got = {}
    for f in sub:
        ls = list(f.locs)
        if len(ls) != 1 or f.key in got:
            return False
        got[f.key] = (ls[0].first, ls[0].last, ls[0].defect, f.qual)
    exp = {}
    m = model_loc(f1, l1, FWD, D.NONE, a, b - 1)
    if m:
        exp["A"] = (m[0], m[1], m[3], {"k": "1"})
    m = model_loc(f2, l2, FWD, D.NONE, a, b - 1)
    if m:
        exp["B"] = (m[0], m[1], m[3], {"k": "2"})
    return got == exp


# ----------------------------------------------------------------- AnnotatedSequence
SEQ6 = "ACGTTG"
_COMP = {"A": "T", "C": "G", "G": "C", "T": "A"}


def _rc(s):
    return "".join(_COMP[c] for c in reversed(s))


def _annot_model_equal(sub, exp_locs_by_key):
    """sub: Annotation; exp: {key: sorted [(first,last,rev,defectvalue)]} (features w/o locs absent)."""
    got = {}
    for f in sub:
        if f.key in got:
            return False
        got[f.key] = sorted((l.first, l.last, l.strand is REV, l.defect.value) for l in f.locs)
    return got == exp_locs_by_key


def ob_annseq_slice(ss: int, a: int, b: int, has_a: bool, has_b: bool, f: int, l: int, rev: bool) -> bool:
    """
    AnnotatedSequence[a:b] / [a:] / [:b] / [:] within the sequence.
    pre: 1 <= ss <= 2**30
    pre: ss <= a < b <= ss + 6
    pre: ss <= f <= l <= ss + 5
    post: _
    """
    strand = REV if rev else FWD
    annot = Annotation([Feature("CDS", [Location(f, l, strand)], {"q": "v"})])
    aseq = AnnotatedSequence(annot, NucleotideSequence(SEQ6), sequence_start=ss)
    sub = aseq[_slice(a, b, has_a, has_b)]
    lo = a if has_a else ss
    hi = (b if has_b else ss + 6) - 1          # last base inside the slice
    if str(sub.sequence) != SEQ6[lo - ss: hi - ss + 1]:
        return False
    if sub.sequence_start != lo:
        return False
    m = model_loc(f, l, strand, D.NONE, lo if has_a else None, hi if has_b else None)
    exp = {"CDS": [(m[0], m[1], m[2] is REV, m[3].value)]} if m else {}
    return _annot_model_equal(sub.annotation, exp)


def ob_annseq_slice_outside(ss: int, a: int, b: int, has_a: bool, has_b: bool, f: int, l: int, rev: bool) -> bool:
    """
    The same with a feature that may reach before the first or past the last base of the sequence (annotation of a
    longer record on a partial sequence): the slice of an annotated sequence holds the bases lo..hi of the SEQUENCE, so
    the feature is cut there and marked on that side, whether or not that bound was given.
    pre: 4 <= ss <= 2**30
    pre: ss <= a < b <= ss + 6
    pre: ss - 3 <= f <= l <= ss + 8
    post: _
    """
    strand = REV if rev else FWD
    annot = Annotation([Feature("CDS", [Location(f, l, strand)], {"q": "v"})])
    aseq = AnnotatedSequence(annot, NucleotideSequence(SEQ6), sequence_start=ss)
    sub = aseq[_slice(a, b, has_a, has_b)]
    lo = a if has_a else ss
    hi = (b if has_b else ss + 6) - 1
    if str(sub.sequence) != SEQ6[lo - ss: hi - ss + 1] or sub.sequence_start != lo:
        return False
    m = model_loc(f, l, strand, D.NONE, lo, hi)
    exp = {"CDS": [(m[0], m[1], m[2] is REV, m[3].value)]} if m else {}
    return _annot_model_equal(sub.annotation, exp)


def ob_annseq_int_index(ss: int, p: int) -> bool:
    """
    pre: 1 <= ss <= 2**30
    pre: ss <= p <= ss + 5
    post: _
    """
    aseq = AnnotatedSequence(Annotation(), NucleotideSequence(SEQ6), sequence_start=ss)
    return aseq[p] == SEQ6[p - ss]


def ob_annseq_feature_index(ss: int, f1: int, l1: int, f2: int, l2: int, rev: bool, two: bool) -> bool:
    """
    Indexing with a feature: location subsequences in biological order, reverse strand
    reverse-complemented.
    pre: 1 <= ss <= 2**30
    pre: ss <= f1 <= l1 <= ss + 5
    pre: ss <= f2 <= l2 <= ss + 5
    pre: l1 < f2
    post: _
    """
    strand = REV if rev else FWD
    locs = [Location(f1, l1, strand)]
    if two:
        locs.append(Location(f2, l2, strand))
    feat = Feature("CDS", locs)
    aseq = AnnotatedSequence(Annotation([feat]), NucleotideSequence(SEQ6), sequence_start=ss)
    got = str(aseq[feat])
    p1 = SEQ6[f1 - ss: l1 - ss + 1]
    p2 = SEQ6[f2 - ss: l2 - ss + 1] if two else ""
    exp = (_rc(p2) + _rc(p1)) if rev else (p1 + p2)
    return got == exp


def ob_annseq_feature_assign(ss: int, f1: int, l1: int, f2: int, l2: int, rev: bool, two: bool) -> bool:
    """
    Read-after-write through a feature index: aseq[feat] = s; aseq[feat] == s and bases outside
    the feature are untouched.
    pre: 1 <= ss <= 2**30
    pre: ss <= f1 <= l1 <= ss + 5
    pre: ss <= f2 <= l2 <= ss + 5
    pre: l1 < f2
    post: _
    """
    strand = REV if rev else FWD
    locs = [Location(f1, l1, strand)]
    if two:
        locs.append(Location(f2, l2, strand))
    feat = Feature("CDS", locs)
    aseq = AnnotatedSequence(Annotation([feat]), NucleotideSequence(SEQ6), sequence_start=ss)
    n = (l1 - f1 + 1) + ((l2 - f2 + 1) if two else 0)
    new = "CATGCA"[:n]
    aseq[feat] = NucleotideSequence(new)
    if str(aseq[feat]) != new:
        return False
    whole = str(aseq.sequence)
    for k in range(6):
        pos = ss + k
        inside = f1 <= pos <= l1 or (two and f2 <= pos <= l2)
        if not inside and whole[k] != SEQ6[k]:
            return False
    return len(whole) == 6


def ob_annseq_slice_assign(ss: int, a: int, b: int, has_a: bool, has_b: bool) -> bool:
    """
    pre: 1 <= ss <= 2**30
    pre: ss <= a < b <= ss + 6
    post: _
    """
    aseq = AnnotatedSequence(Annotation(), NucleotideSequence(SEQ6), sequence_start=ss)
    lo = a if has_a else ss
    hi = b if has_b else ss + 6
    new = "CATGCA"[: hi - lo]
    aseq[_slice(a, b, has_a, has_b)] = NucleotideSequence(new)
    return str(aseq.sequence) == SEQ6[: lo - ss] + new + SEQ6[hi - ss:]


def ob_annseq_revcomp_twice(ss: int, f: int, l: int, rev: bool, ml: bool, mr: bool, bl: bool, br: bool) -> bool:
    """
    pre: 1 <= ss <= 2**30
    pre: ss <= f <= l <= ss + 5
    post: _
    """
    strand = REV if rev else FWD
    feat = Feature("CDS", [Location(f, l, strand, mkdefect(ml, mr, bl, br))], {"q": "v"})
    aseq = AnnotatedSequence(Annotation([feat]), NucleotideSequence(SEQ6), sequence_start=ss)
    once = aseq.reverse_complement(sequence_start=ss)
    # single reverse complement: position mirror, strand flip, side flags swapped
    lo = list(list(once.annotation)[0].locs)[0]
    if (lo.first, lo.last) != (ss + (ss + 5 - l), ss + (ss + 5 - f)):
        return False
    if (lo.strand is REV) == rev:
        return False
    if lo.defect != mkdefect(mr, ml, br, bl):
        return False
    if str(once.sequence) != _rc(SEQ6):
        return False
    twice = once.reverse_complement(sequence_start=ss)
    if not (twice == aseq and str(twice.sequence) == SEQ6 and twice.sequence_start == ss):
        return False
    # flags without a direction (UNK_LOC, BETWEEN) are kept as they are
    for extra in (D.UNK_LOC, D.BETWEEN, D.UNK_LOC | D.BETWEEN):
        feat2 = Feature("CDS", [Location(f, l, strand, mkdefect(ml, mr, bl, br) | extra)], {"q": "v"})
        aseq2 = AnnotatedSequence(Annotation([feat2]), NucleotideSequence(SEQ6), sequence_start=ss)
        once2 = aseq2.reverse_complement(sequence_start=ss)
        if list(list(once2.annotation)[0].locs)[0].defect != (mkdefect(mr, ml, br, bl) | extra):
            return False
        if not (once2.reverse_complement(sequence_start=ss) == aseq2):
            return False
    return True


def ob_annseq_copy(ss: int, f: int, l: int) -> bool:
    """
    pre: 1 <= ss <= 2**30
    pre: ss <= f <= l <= ss + 5
    post: _
    """
    feat = Feature("CDS", [Location(f, l)], {"q": "v"})
    aseq = AnnotatedSequence(Annotation([feat]), NucleotideSequence(SEQ6), sequence_start=ss)
    c = aseq.copy()
    if not (c == aseq and aseq == c):
        return False
    if str(c.sequence) != SEQ6 or c.sequence_start != ss:
        return False
    # independence
    c[ss] = "T"
    c.annotation.add_feature(Feature("x", [Location(ss, ss)]))
    return str(aseq.sequence) == SEQ6 and len(aseq.annotation) == 1 and c != aseq


def ob_loc_feature_eq(f1: int, l1: int, f2: int, l2: int, r1: bool, r2: bool, m1: bool, m2: bool) -> bool:
    """
    Location / Feature equality is field-wise.
    pre: -B <= f1 <= l1 <= B and -B <= f2 <= l2 <= B
    post: _
    """
    a = Location(f1, l1, REV if r1 else FWD, mkdefect(m1))
    b = Location(f2, l2, REV if r2 else FWD, mkdefect(m2))
    same = (f1 == f2 and l1 == l2 and r1 == r2 and m1 == m2)
    return (a == b) == same and (b == a) == same and (a != b) == (not same)


def ob_loc_feature_hash(f1: int, l1: int, f2: int, l2: int, r1: bool, r2: bool) -> bool:
    """
    Equal locations / features hash equally and are found in sets (small positions).
    pre: 0 <= f1 <= l1 <= 2 and 0 <= f2 <= l2 <= 2
    post: _
    """
    a = Location(f1, l1, REV if r1 else FWD)
    b = Location(f2, l2, REV if r2 else FWD)
    same = (f1 == f2 and l1 == l2 and r1 == r2)
    fa, fb = Feature("k", [a], {"q": "1"}), Feature("k", [b], {"q": "1"})
    if (fa == fb) != same:
        return False
    if same and (hash(a) != hash(b) or hash(fa) != hash(fb)):
        return False
    return (fa in Annotation([fb])) == same and (len(Annotation([fa, fb])) == (1 if same else 2))
