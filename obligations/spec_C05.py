from vf.sx.ob import SX

E_ = "src/biotite/structure/io/pdbx/encoding.pyx:"
KX_STUBS = ["numpy inside the kernels (zeros/asarray/iinfo/diff/cumsum/astype/array arithmetic) -> symnp shim with numpy's fixed-width wrapping",
            "C integers as bit-vectors; every element fully symbolic over its width", "self -> object with the attributes the kernel reads"]
OBLIGATIONS = [
    SX("kx_runlength", "kx_c05", "ob_rle", cls="S", engine="KX", quick=200, thorough=900, parts={"quick": 6, "thorough": 8},
       functions=[E_ + "RunLengthEncoding._encode", E_ + "RunLengthEncoding._decode"], stubs=KX_STUBS,
       bounds="fused instantiations int8, uint8, int16, uint16, int32, uint32; arrays of 1..3 (thorough 1..4) fully symbolic elements: decode(encode(x)) == x, no out-of-bounds access"),
    SX("kx_packing", "kx_c05", "ob_pack", cls="S", engine="KX", quick=300, thorough=1500, parts={"quick": 4, "thorough": 8},
       functions=[E_ + "IntegerPackingEncoding._encode", E_ + "IntegerPackingEncoding.decode", E_ + "IntegerPackingEncoding._get_bounds"], stubs=KX_STUBS,
       bounds="int32 -> int8/uint8/int16/uint16 packing, arrays of 1..2 (1..3) symbolic elements with |v| <= 3 (5) * max + 2 (loops unwound <= 12 with unwinding check): decode(encode(x)) == x or ValueError, no out-of-bounds access"),
    SX("kx_delta", "kx_c05", "ob_delta", cls="S", engine="KX", quick=200, thorough=600, parts={"quick": 6, "thorough": 6},
       functions=[E_ + "DeltaEncoding.encode", E_ + "DeltaEncoding.decode"], stubs=KX_STUBS,
       bounds="source dtypes int8..uint32, arrays of 1..3 (1..4) fully symbolic elements: decode(encode(x)) == x with the source dtype"),
    SX("sx_compress", "sx_c05", "ob_compress", cls="E", quick=400, thorough=2400, parts={"quick": 5, "thorough": 6},
       functions=["src/biotite/structure/io/pdbx/compress.py:compress/_compress_data/_find_best_integer_compression/_to_smallest_integer_type/_get_decimal_places",
                  "src/biotite/structure/io/pdbx/bcif.py:BinaryCIFData/Column/File serialize/deserialize/read/write", E_ + "encode_stepwise/decode_stepwise (compiled)"],
       bounds="integer arrays = all pairs (thorough: triples) of a 25-value boundary menu (incl. the int64 limits), each array also in the narrowest dtype holding it, (+-1 around every width limit); float arrays from a 21-value menu (incl. values needing more than 10 decimals: 1.5e-12, 3e-11, 0.123456789012, 1.23456789e-12, 1e-20) x tolerance {1e-6,1e-3,1e-9} x float32/64 x {data, category, file}; non-finite and overflowing floats; string arrays with masks (empty, duplicate, non-ASCII); 6 explicit encoding chains"),
    SX("sx_fixedpoint", "sx_c05", "ob_fixedpoint", cls="E", quick=60, parts=1,
       functions=[E_ + "FixedPointEncoding.encode/decode (compiled)"], bounds="7 boundary values x factor {1,10,1000}"),
    SX("sx_safe_cast", "sx_c05", "ob_safe_cast", cls="E", quick=100, parts=1,
       functions=["src/biotite/structure/io/pdbx/encoding.pyx:_safe_cast (compiled)", "src/biotite/structure/io/pdbx/encoding.pyx:ByteArrayEncoding.encode/decode (compiled)"],
       bounds="every pair of the six integer types x 9 boundary values (type limits of source and target, +-1 around them): values outside the target type raise ValueError, values inside are preserved exactly - also for targets at least as wide as the source but of different signedness"),
]
EXPLANATION = "C05: BinaryCIF encodings invertible; compression within tolerance."
ASSUMPTIONS = []
