from vf.sx.ob import SX

A = "src/biotite/sequence/align/"
OBLIGATIONS = [
    SX("sx_cigar_text", "sx_c11_text", "ob_cigar_text", cls="S", quick=300, thorough=1500, parts={"quick": 4, "thorough": 6},
       functions=[A + "cigar.py:_cigar_from_op_tuples", A + "cigar.py:_op_tuples_from_cigar", A + "cigar.py:CigarOp.from_cigar_symbol/to_cigar_symbol"],
       stubs=["numpy inside cigar.py/alignment.py -> list-backed shim for zeros/full/array(dtype=int)", "operation codes are case-split before the enum / symbol-table lookups (hash of a symbolic value)"],
       bounds="writer -> parser: 1..2 (thorough 3) operations, every operation code, repeat counts SYMBOLIC in 0..9999 (decimal rendering and parsing of symbolic integers): same tuples back; parser on symbolic text of length 2..3 (4) over digits, the nine operation symbols and four foreign characters: on every well-formed text (<digits><op>)* the tuples equal the digit-run values and symbols, no exception"),
    SX("sx_gapped", "sx_c11_text", "ob_gapped", cls="S", quick=300, thorough=1500, parts={"quick": 3, "thorough": 5},
       functions=[A + "alignment.py:Alignment.trace_from_strings", A + "alignment.py:Alignment._gapped_str/get_gapped_sequences"],
       stubs=["numpy -> list-backed shim", "sequences -> list of one-character symbolic strings"],
       bounds="2 sequences x 3..4 (5) columns and 3 sequences x 3 (4) columns, EVERY character symbolic over '-' and the 20 amino acid letters: trace entry = -1 at a gap, else the number of non-gap characters before it; the gapped strings rebuilt from that trace and the gap-free sequences equal the input"),
    SX("sx_alignment", "sx_c11", "ob_alignment", cls="E", quick=300, thorough=1800, parts={"quick": 7, "thorough": 9},
       functions=[A + "alignment.py:Alignment.get_gapped_sequences/trace_from_strings/__getitem__, get_codes, get_symbols, get_sequence_identity, get_pairwise_sequence_identity, score, find_terminal_gaps, remove_terminal_gaps, remove_gaps"],
       bounds="every trace of 1..4 (thorough 1..5) columns over 2 sequences and 1..3 (1..4) columns over 3 sequences (every non-empty advance pattern per column): all conversions and helpers vs column-by-column recomputation; score with linear/affine penalties and both terminal settings; gapped strings and str() also of DERIVED alignments whose rows skip sequence positions (remove_gaps, every other column, index-array and boolean column selections)"),
    SX("sx_cigar", "sx_c11", "ob_cigar", cls="E", quick=600, thorough=3000, parts={"quick": 16, "thorough": 16},
       functions=[A + "cigar.py:write_alignment_to_cigar, read_alignment_from_cigar, _find_clipped_bases, _aggregate_consecutive, _remove_terminal_segment_gaps, _cigar_from_op_tuples, _op_tuples_from_cigar"],
       bounds="every pairwise trace of 1..4 (1..5) columns {M,I,D} x clipped segment start 0..2 / end 0..1 x reference offset {0,3} x all 16 combinations of include_terminal_gaps / distinguish_matches / hard_clip / intron: CIGAR text equals an independently built string and parses back to the same trace (string and tuple form)"),
    SX("sx_fasta_alignment", "sx_c11", "ob_fasta_alignment", cls="E", quick=300, thorough=900, parts={"quick": 8, "thorough": 8},
       functions=["src/biotite/sequence/io/fasta/convert.py:get_alignment/set_alignment"],
       bounds="every trace of 3 (4) columns over 2 and 3 sequences x 4 sets of additional gap characters"),
    SX("sx_msa", "sx_c11", "ob_msa", cls="E", quick=300, thorough=1800, parts={"quick": 2, "thorough": 3},
       functions=[A + "multiple.pyx:align_multiple (compiled)"],
       bounds="all 2- and 3- (thorough 4-) tuples from an 8-sequence menu (lengths 1..4, identical, unrelated) x 3 gap settings: one row per input in input order, gap-stripped rows == inputs, order is a permutation, guide tree contains every index once, valid trace"),
]
EXPLANATION = "C11: alignments keep valid traces through every conversion; MSAs align the inputs."
ASSUMPTIONS = []
