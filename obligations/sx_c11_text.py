"""C11 (SX engine, class S): the text layer of alignments over symbolic strings and integers.

cigar  : cigar.py:_cigar_from_op_tuples / _op_tuples_from_cigar (and CigarOp symbol tables) on symbolic repeat counts
         (unbounded non-negative integers rendered by str(), 1..4 digits) and on symbolic CIGAR text.
gapped : alignment.py:Alignment.trace_from_strings on symbolic gapped strings (every character symbolic), and
         Alignment._gapped_str as its inverse on the resulting trace.

numpy is replaced inside the transformed modules by a list-backed shim for the five calls these functions make
(zeros, full, array(dtype=int), element get/set) - listed as a stub."""
import z3

from vf.sx import pyload
from vf.sx.core import SInt, SStr, cur, s_eq, Escape
from vf.sx.ob import Case

_cache = {}
OPS = "MIDNSHP=X"
ALPHABET = [ord(c) for c in "0123456789" + OPS + "Zx -"]


class _Arr:
    """list-backed stand-in for the small integer arrays of these functions"""

    def __init__(self, rows):
        self.rows = rows

    def __getitem__(self, i):
        if isinstance(i, tuple):
            return self.rows[i[0]][i[1]]
        return self.rows[i]

    def __setitem__(self, i, v):
        if isinstance(i, tuple):
            self.rows[i[0]][i[1]] = v
        else:
            self.rows[i] = v

    def __len__(self):
        return len(self.rows)

    def tolist(self):
        return self.rows


class _NP:
    def zeros(self, n, dtype=None):
        return _Arr([0 for _ in range(n)])

    def full(self, shape, fill, dtype=None):
        return _Arr([[fill for _ in range(shape[1])] for _ in range(shape[0])])

    def array(self, rows, dtype=None):
        # np.array(list of (op, count-string), dtype=int): every entry converted with int()
        out = []
        for r in rows:
            out.append([pyload.sx_int(x) if isinstance(x, (SStr, str)) else (int(x) if not isinstance(x, SInt) else x) for x in r])
        return _Arr(out)


def mods():
    if "m" not in _cache:
        cg = pyload.load("biotite.sequence.align.cigar", inject=dict(np=_NP()))
        al = pyload.load("biotite.sequence.align.alignment", inject=dict(np=_NP()))
        orig = cg.CigarOp.from_cigar_symbol

        def from_symbol(sym):
            # the symbol table is a dict keyed by str: a symbolic character is case-split over the alphabet of the
            # obligation before the lookup (stub around the hash lookup, the table itself is the module's)
            if isinstance(sym, SStr):
                c = sym.cs[0]
                if not isinstance(c, int):
                    c = cur().choose(c, ALPHABET)
                sym = chr(c)
            return orig(sym)
        cg.CigarOp.from_cigar_symbol = staticmethod(from_symbol)
        _cache["m"] = (cg, al)
    return _cache["m"]


# ----------------------------------------------------------------------------------------- CIGAR text
def cigar_real(w):
    from biotite.sequence.align import cigar as cg
    import numpy as np
    if "text" in w:
        text = w["text"]
        want = ref_parse(text)
        if want is None:
            return True, "malformed text: outside the property"
        try:
            got = cg._op_tuples_from_cigar(text).tolist()
        except Exception as e:
            return False, f"_op_tuples_from_cigar({text!r}) raised {type(e).__name__}: {e}"
        got = [list(x) for x in got]
        return got == want, f"_op_tuples_from_cigar({text!r}) = {got}, expected {want}"
    tuples = [(o, c) for o, c in zip(w["ops"], w["counts"])]
    text = cg._cigar_from_op_tuples(np.array(tuples, dtype=int).reshape(-1, 2))
    want = "".join(f"{c}{OPS[o]}" for o, c in tuples)
    back = cg._op_tuples_from_cigar(text).reshape(-1, 2).tolist()
    return text == want and back == [list(t) for t in tuples], f"{tuples} -> {text!r} -> {back}"


def ref_parse(text):
    """[[op, count], ...] or None if the text is not a CIGAR string"""
    out, num = [], ""
    for ch in text:
        if ch.isdigit():
            num += ch
        elif ch in OPS and num:
            out.append([OPS.index(ch), int(num)])
            num = ""
        else:
            return None
    return None if num else out


def ob_cigar_text(tier):
    cg, _ = mods()
    cases = []
    # (1) writer -> parser with symbolic counts
    for n in ((1, 2) if tier == "quick" else (1, 2, 3)):
        ops = [z3.Int(f"op{i}") for i in range(n)]
        cnt = [z3.Int(f"n{i}") for i in range(n)]
        base = [z3.And(o >= 0, o < len(OPS)) for o in ops] + [z3.And(c >= 0, c <= 9999) for c in cnt]

        def run(n=n, ops=ops, cnt=cnt):
            ex = cur()
            o = [ex.choose(x, range(len(OPS))) for x in ops]          # operation codes index an enum: case split
            tuples = [(o[i], SInt.mk(cnt[i])) for i in range(n)]
            text = cg._cigar_from_op_tuples(tuples)
            back = cg._op_tuples_from_cigar(text)
            conds = [len(back) == n]
            for i in range(min(n, len(back))):
                conds.append(int(back[i][0]) == o[i])
                bc = back[i][1]
                conds.append((bc.e if isinstance(bc, SInt) else z3.IntVal(int(bc))) == cnt[i])
            # the text itself: digits of the count followed by the symbol
            return z3.And(*[c if not isinstance(c, bool) else z3.BoolVal(c) for c in conds])
        cases.append(Case(f"cigar text: {n} operations, symbolic counts", base, run, dict(ops=ops, counts=cnt), cigar_real))
    # (2) parser on symbolic text
    for L in ((2, 3) if tier == "quick" else (2, 3, 4)):
        cs = [z3.Int(f"c{i}") for i in range(L)]
        base = [z3.Or(*[c == a for a in ALPHABET]) for c in cs]

        def run(L=L, cs=cs):
            text = SStr(list(cs))
            try:
                got = cg._op_tuples_from_cigar(text)
            except (ValueError, KeyError, TypeError):
                got = None
            # reference: the string is a sequence of <digits><op>; compare on this path (characters are decided by now
            # only as far as the code looked at them, so the reference is stated as a formula over the characters)
            return ref_formula(cs, got)
        cases.append(Case(f"cigar parser on symbolic text of length {L}", base, run, dict(text=SStr(list(cs))), cigar_real))
    return cases


def ref_formula(cs, got):
    """z3 formula: for well-formed text (<digits><op> repeated) `got` is its parse; the parser must not fail on
    well-formed text.  Malformed text is outside the property (any behaviour)."""
    isdig = [z3.And(c >= 48, c <= 57) for c in cs]
    isop = [z3.Or(*[c == ord(o) for o in OPS]) for c in cs]
    L = len(cs)
    wf = z3.And(*[z3.Or(isdig[i], isop[i]) for i in range(L)], isop[L - 1],
                *[z3.Implies(isop[i], isdig[i - 1]) if i > 0 else z3.Not(isop[0]) for i in range(L)])
    if got is None:
        return z3.Not(wf)
    ex = cur()
    if not ex.decide(wf):
        return z3.BoolVal(True)
    # value of the digit run that ends before position i, as a term over the characters
    acc, before = z3.IntVal(0), []
    for i in range(L):
        before.append(acc)
        acc = z3.If(isdig[i], acc * 10 + (cs[i] - 48), z3.IntVal(0))
    idx = [i for i in range(L) if ex.decide(isop[i])]
    rows = got.tolist() if hasattr(got, "tolist") else got
    if len(idx) != len(rows):
        return z3.BoolVal(False)
    conds = []
    for (op, count), i in zip(rows, idx):
        conds.append(cs[i] == ord(OPS[int(op)]))
        ce = count.e if isinstance(count, SInt) else z3.IntVal(int(count))
        conds.append(ce == before[i])
    return z3.And(*conds)


# ----------------------------------------------------------------------------------------- gapped strings
class _Seq:
    def __init__(self, syms):
        self.syms = syms

    def __getitem__(self, i):
        return self.syms[int(i)]

    def __len__(self):
        return len(self.syms)


def gapped_real(w):
    from biotite.sequence.align import Alignment
    from biotite.sequence import ProteinSequence
    strs = w["strings"]
    trace = Alignment.trace_from_strings(strs).tolist()
    want = ref_trace(strs)
    if trace != want:
        return False, f"trace_from_strings({strs}) = {trace}, expected {want}"
    seqs = [ProteinSequence(s.replace("-", "")) for s in strs]
    import numpy as np
    ali = Alignment(seqs, np.array(trace, dtype=int))
    back = ali.get_gapped_sequences()
    return back == strs, f"{strs} -> {trace} -> {back}"


def ref_trace(strs):
    pos = [0] * len(strs)
    out = []
    for c in range(len(strs[0])):
        row = []
        for j, s in enumerate(strs):
            if s[c] == "-":
                row.append(-1)
            else:
                row.append(pos[j])
                pos[j] += 1
        out.append(row)
    return out


def _b(x):
    if isinstance(x, bool):
        return z3.BoolVal(x)
    return x.e if hasattr(x, "e") else x


LETTERS = [ord(c) for c in "ACDEFGHIKLMNPQRSTVWY"]


def ob_gapped(tier):
    _, al = mods()
    cases = []
    for nseq, L in ((2, 3), (2, 4), (3, 3)) + (() if tier == "quick" else ((2, 5), (3, 4))):
        C = [[z3.Int(f"s{j}_{c}") for c in range(L)] for j in range(nseq)]
        base = [z3.Or(ch == 45, *[ch == x for x in LETTERS]) for row in C for ch in row]

        def run(nseq=nseq, L=L, C=C):
            strs = [SStr(list(row)) for row in C]
            trace = al.Alignment.trace_from_strings(strs)
            conds = []
            # reference: entry = -1 at a gap, otherwise the number of non-gap characters before it
            for j in range(nseq):
                before = z3.IntVal(0)
                for c in range(L):
                    gap = C[j][c] == 45
                    v = trace[c, j]
                    ve = v.e if isinstance(v, SInt) else z3.IntVal(int(v))
                    conds.append(ve == z3.If(gap, -1, before))
                    before = before + z3.If(gap, 0, 1)
            # inverse: the gapped strings rebuilt from the trace and the gap-free sequences
            seqs = []
            for j in range(nseq):
                syms = [SStr([C[j][c]]) for c in range(L) if int(trace[c, j] if not isinstance(trace[c, j], SInt) else -2) != -1]
                seqs.append(_Seq(syms))
            ali = al.Alignment.__new__(al.Alignment)
            ali.sequences, ali.trace, ali.score = seqs, trace, None
            for j in range(nseq):
                g = ali._gapped_str(j)
                conds.append(_b(s_eq(g, strs[j])))
            return z3.And(*conds)
        cases.append(Case(f"gapped strings <-> trace: {nseq} sequences x {L} columns", base, run,
                          dict(strings=[SStr(list(row)) for row in C]), gapped_real))
    return cases
